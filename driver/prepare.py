"""Preparation steps of the vf driver: generating gqlgen servers from /repo's templates into the
scratch module (DESIGN.md §2.1)."""
import json, os, re, subprocess, shutil, concurrent.futures, glob

# option vectors (DESIGN.md §3.2). Every vector of one project shares schema and `models:` section.
VECTORS = {
    "v0": {},  # defaults: single-file exec
    "v1": {"layout": "follow-schema", "use_function_syntax_for_execution_context": True, "worker_limit": 2},
    "v2": {"omit_slice_element_pointers": True, "struct_fields_always_pointers": False, "resolvers_always_return_pointers": False,
           "omit_complexity": True, "omit_getters": True},
    "v3": {"layout": "follow-schema", "worker_limit": 1, "return_pointers_in_unmarshalinput": True, "nullable_input_omittable": True,
           "call_argument_directives_with_null": True},
    "v4": {"use_function_syntax_for_execution_context": True, "omit_slice_element_pointers": True, "worker_limit": 8,
           "nullable_input_omittable": True},
    "v5": {"layout": "follow-schema", "struct_fields_always_pointers": False, "call_argument_directives_with_null": True,
           "return_pointers_in_unmarshalinput": True, "enable_model_json_omitempty_tag": True},
    # federation only: the plugin generates federation.requires.go with one populator per entity that
    # has @requires fields; the harness fills it in (user code) after generation
    "x1": {"federation_options": ["explicit_requires"], "worker_limit": 2},
    # federation v2 only: @requires fields become resolvers that are handed the required fields of their
    # representation (needs call_argument_directives_with_null)
    "x2": {"federation_options": ["computed_requires"], "call_argument_directives_with_null": True},
    "w1": {"worker_limit": 1},
    "w2": {"worker_limit": 2},
    "w8": {"worker_limit": 8},
}


def yml_for(vec, opts, models_yml, extra_yml=""):
    o = dict(opts)
    layout = o.pop("layout", "single-file")
    wl = o.pop("worker_limit", None)
    fedopts = o.pop("federation_options", None)
    lines = ['schema:', '  - "*.graphqls"', 'skip_mod_tidy: true', 'skip_validation: true']
    lines.append("exec:")
    if layout == "follow-schema":
        lines += ["  layout: follow-schema", "  dir: .", "  package: %s" % vec]
    else:
        lines += ["  filename: generated.go", "  package: %s" % vec]
    if wl is not None:
        lines.append("  worker_limit: %d" % wl)
    lines += ["model:", "  filename: models_gen.go", "  package: %s" % vec]
    for k, v in sorted(o.items()):
        lines.append("%s: %s" % (k, "true" if v is True else "false" if v is False else v))
    out = "\n".join(lines) + "\n"
    if extra_yml:
        out += extra_yml.rstrip().replace("PKG", vec) + "\n"
        if fedopts and "federation:" in extra_yml:
            # the federation section is the last one of extra.yml
            out += "  options:\n" + "".join("    %s: true\n" % k for k in fedopts)
    if models_yml:
        out += models_yml.rstrip() + "\n"
    return out


def build_gen_tool(ctx):
    tool = os.path.join(ctx["workroot"], "gqlgen-gen")
    if os.path.exists(tool):
        return tool, None
    p = subprocess.run(["go", "build", "-trimpath", "-o", tool, "./cmd/gqlgen-gen"], cwd=ctx["h"], env=ctx["env"],
                       stdout=subprocess.PIPE, stderr=subprocess.STDOUT)
    if p.returncode != 0:
        return None, p.stdout.decode("utf-8", "replace")
    return tool, None


REQUIRES = '''// Written by the verification harness (the user's part of explicit_requires).
package %(pkg)s

import (
	"context"
	"encoding/json"
	"fmt"
)

// PopulatePlanetRequires is the requires populator for the Planet entity.
func (ec *executionContext) PopulatePlanetRequires(ctx context.Context, entity *Planet, reps map[string]any) error {
	switch v := reps["diameter"].(type) {
	case json.Number:
		n, err := v.Int64()
		if err != nil {
			return fmt.Errorf("diameter: %%w", err)
		}
		entity.Diameter = int(n)
	case float64:
		entity.Diameter = int(v)
	case int:
		entity.Diameter = v
	case int64:
		entity.Diameter = int(v)
	case nil:
	default:
		return fmt.Errorf("diameter: unexpected %%T", v)
	}
	return nil
}

// PopulateShipmentRequires copies the nested @requires fields (crate.box.dims.width / height).
func (ec *executionContext) PopulateShipmentRequires(ctx context.Context, entity *Shipment, reps map[string]any) error {
	get := func(m any, k string) any {
		if mm, ok := m.(map[string]any); ok {
			return mm[k]
		}
		return nil
	}
	toInt := func(v any) *int {
		switch x := v.(type) {
		case json.Number:
			if n, err := x.Int64(); err == nil {
				i := int(n)
				return &i
			}
		case float64:
			i := int(x)
			return &i
		case int:
			return &x
		case int64:
			i := int(x)
			return &i
		}
		return nil
	}
	dims := get(get(get(map[string]any(reps), "crate"), "box"), "dims")
	if entity.Crate == nil {
		entity.Crate = &ShipCrate{}
	}
	if entity.Crate.Box == nil {
		entity.Crate.Box = &ShipBox{}
	}
	if entity.Crate.Box.Dims == nil {
		entity.Crate.Box.Dims = &Dims{}
	}
	entity.Crate.Box.Dims.Width = toInt(get(dims, "width"))
	entity.Crate.Box.Dims.Height = toInt(get(dims, "height"))
	entity.Crate.Weight = toInt(get(get(map[string]any(reps), "crate"), "weight"))
	entity.CrateWeight = toInt(get(map[string]any(reps), "crateWeight"))
	return nil
}
'''

GLUE = '''// Code generated by the verification harness. DO NOT EDIT.
package %(pkg)s

import (
	"reflect"

	"github.com/99designs/gqlgen/graphql"
	"github.com/vektah/gqlparser/v2/ast"
)

// VHTypes maps GraphQL type names to the Go types of this package.
var VHTypes = map[string]reflect.Type{
%(types)s}

%(fdecl)s// VHForeign holds, per abstract GraphQL type, a Go value that implements the Go interface but is
// not one of the schema's implementors.
var VHForeign = map[string]any{
%(fmap)s}

// VHNew returns pointers to the resolver stub, the directive root and the complexity root of a
// fresh Config, and a constructor for the executable schema over them.
func VHNew() (any, any, any, func() graphql.ExecutableSchema) {
	c := &Config{Resolvers: &Stub{}}
	return c.Resolvers, &c.Directives, &c.Complexity, func() graphql.ExecutableSchema { return NewExecutableSchema(*c) }
}
'''


def gen_vector(ctx, tool, proj, vec, schema_files, yml, stub=True):
    """generate one vector; returns (ok, output)"""
    d = os.path.join(ctx["h"], "gen", proj, vec)
    os.makedirs(d, exist_ok=True)
    for name, content in schema_files.items():
        open(os.path.join(d, name), "w").write(content)
    open(os.path.join(d, "gqlgen.yml"), "w").write(yml)
    cmd = [tool, "-config", "gqlgen.yml", "-dump", "models.json"]
    if stub:
        cmd += ["-stub", "stub.go"]
    p = subprocess.run(cmd, cwd=d, env=ctx["env"], stdout=subprocess.PIPE, stderr=subprocess.STDOUT)
    out = p.stdout.decode("utf-8", "replace")
    if p.returncode != 0:
        return False, out
    rq = os.path.join(d, "federation.requires.go")
    if os.path.exists(rq):
        # explicit_requires: the user's populators. This one copies the @requires field of Planet from
        # the representation it is given - so the result shows which representation gqlgen passed
        open(rq, "w").write(REQUIRES % dict(pkg=vec))
    # glue
    imp = "vh/gen/%s/%s" % (proj, vec)
    types = ""
    local = {}
    models = json.load(open(os.path.join(d, "models.json")))
    for m in models:
        for mod in m["model"]:
            if mod.startswith(imp + "."):
                local[m["name"]] = mod[len(imp) + 1:]
                types += '\t%s: reflect.TypeOf((*%s)(nil)).Elem(),\n' % (json.dumps(m["name"]), mod[len(imp) + 1:])
                break
    # a "foreign" implementor per abstract type: satisfies the Go interface by embedding a real
    # implementor but matches no case of the generated type switch
    fdecl, fmap = "", ""
    for m in models:
        if m.get("kind") in ("INTERFACE", "UNION") and m["name"] in local:
            poss = [p for p in m.get("possible") or [] if p in local]
            if poss:
                fdecl += "type VHForeign%s struct{ %s }\n\n" % (local[m["name"]], local[poss[0]])
                fmap += "\t%s: VHForeign%s{},\n" % (json.dumps(m["name"]), local[m["name"]])
    open(os.path.join(d, "vh_glue.go"), "w").write(GLUE % dict(pkg=vec, types=types, fdecl=fdecl, fmap=fmap))
    return True, out


GLUE += '''
// VHNewSchema builds the executable schema over a different schema document (graphql.Config.Schema):
// introspection then describes that schema.
func VHNewSchema(s *ast.Schema) graphql.ExecutableSchema {
	return NewExecutableSchema(Config{Schema: s, Resolvers: &Stub{}})
}
'''

REG = '''// Code generated by the verification harness. DO NOT EDIT.
package all

import (
	"vh/proj"
%(imports)s)

func init() {
%(regs)s}
'''


def write_registry(ctx, entries):
    """entries: list of (proj, vec, options dict)"""
    d = os.path.join(ctx["h"], "gen", "all")
    os.makedirs(d, exist_ok=True)
    imports, regs = "", ""
    for i, (proj, vec, opts) in enumerate(entries):
        alias = "p%d" % i
        imports += '\t%s "vh/gen/%s/%s"\n' % (alias, proj, vec)
        regs += '\tproj.Register(&proj.Project{Name: %s, Vec: %s, Types: %s.VHTypes, Foreign: %s.VHForeign, New: %s.VHNew, NewSchema: %s.VHNewSchema, Options: %s})\n' % (
            json.dumps(proj), json.dumps(vec), alias, alias, alias, alias, go_map(opts))
    open(os.path.join(d, "all.go"), "w").write(REG % dict(imports=imports, regs=regs))


def go_map(opts):
    items = []
    for k, v in sorted(opts.items()):
        items.append("%s: %s" % (json.dumps(k), json.dumps(str(v).lower() if isinstance(v, bool) else str(v))))
    return "map[string]string{" + ", ".join(items) + "}"


def build_emit_tool(ctx):
    tool = os.path.join(ctx["workroot"], "sdlgen-emit")
    if os.path.exists(tool):
        return tool, None
    p = subprocess.run(["go", "build", "-trimpath", "-o", tool, "./cmd/sdlgen-emit"], cwd=ctx["h"], env=ctx["env"],
                       stdout=subprocess.PIPE, stderr=subprocess.STDOUT)
    if p.returncode != 0:
        return None, p.stdout.decode("utf-8", "replace")
    return tool, None


def is_random(name):
    return name.startswith("rnd")


def random_schema(ctx, name):
    """a schema drawn by sdlgen; which one is a pure function of the run seed and the project name"""
    tool, err = build_emit_tool(ctx)
    if not tool:
        raise RuntimeError("building sdlgen-emit failed:\n" + err[-2000:])
    k = int(name[3:])
    seed = (int(ctx.get("seed", 1)) * 1000 + k) % (1 << 31)
    d = os.path.join(ctx["out"], "schema-" + name)
    os.makedirs(d, exist_ok=True)
    subprocess.run([tool, "-seed", str(seed), "-out", d], env=ctx["env"], check=True)
    files = {}
    for f in sorted(glob.glob(os.path.join(d, "*.graphqls"))):
        files[os.path.basename(f)] = open(f).read()
    models = ""
    mp = os.path.join(d, "models.yml")
    if os.path.exists(mp):
        models = open(mp).read()
    return files, models, ""


def load_probe(ctx, name):
    if is_random(name):
        return random_schema(ctx, name)
    d = os.path.join(ctx["h"], "probes", name)
    schema_files = {}
    for f in sorted(glob.glob(os.path.join(d, "*.graphqls"))):
        schema_files[os.path.basename(f)] = open(f).read()
    models = ""
    mp = os.path.join(d, "models.yml")
    if os.path.exists(mp):
        models = open(mp).read()
    extra = ""
    ep = os.path.join(d, "extra.yml")
    if os.path.exists(ep):
        extra = open(ep).read()
    return schema_files, models, extra


def gen_projects(ctx, plan):
    """plan: list of (probe name, [vector names]). Generates all in parallel, writes the registry and
    the project description (for replay files). A generation failure is returned as an error (it is
    C17's business to call it a violation)."""
    tool, err = build_gen_tool(ctx)
    if not tool:
        return False, {"error": "building gqlgen-gen failed:\n" + err[-3000:]}
    jobs = []
    desc = {}
    rp = ctx.get("replay")
    if rp:
        # a replay file carries the projects of the run that wrote it (schema files and gqlgen.yml per
        # vector): regenerate exactly those, whatever the seed is now - random schemas included
        try:
            rdesc = json.load(open(rp)).get("project")
        except Exception:
            rdesc = None
        if isinstance(rdesc, dict) and rdesc:
            plan = []
            for probe in sorted(rdesc):
                d = rdesc[probe]
                desc[probe] = {"schema_files": d["schema_files"], "vectors": {}}
                for vec in sorted(d.get("vectors", {})):
                    if vec not in VECTORS:
                        continue
                    desc[probe]["vectors"][vec] = d["vectors"][vec]
                    jobs.append((probe, vec, d["schema_files"], d["vectors"][vec]))
    for probe, vecs in plan:
        schema_files, models, extra = load_probe(ctx, probe)
        desc[probe] = {"schema_files": schema_files, "vectors": {}}
        for vec in vecs:
            yml = yml_for(vec, VECTORS[vec], models, extra)
            desc[probe]["vectors"][vec] = yml
            jobs.append((probe, vec, schema_files, yml))
    results = {}
    with concurrent.futures.ThreadPoolExecutor(max_workers=min(16, max(1, len(jobs)))) as ex:
        futs = {ex.submit(gen_vector, ctx, tool, j[0], j[1], j[2], j[3]): j for j in jobs}
        for f in concurrent.futures.as_completed(futs):
            j = futs[f]
            results[(j[0], j[1])] = f.result()
    # a random schema that does not generate or compile is C17's business, not this check's: the
    # project is dropped here (and counted), never reported
    dropped = []
    for j in list(jobs):
        if is_random(j[0]):
            ok, out = results[(j[0], j[1])]
            if ok:
                p = subprocess.run(["go", "build", "./gen/%s/%s" % (j[0], j[1])], cwd=ctx["h"], env=ctx["env"],
                                   stdout=subprocess.PIPE, stderr=subprocess.STDOUT)
                ok, out = p.returncode == 0, p.stdout.decode("utf-8", "replace")
            if not ok:
                dropped.append("%s/%s: %s" % (j[0], j[1], out.strip().splitlines()[-1][:200] if out.strip() else "?"))
                shutil.rmtree(os.path.join(ctx["h"], "gen", j[0], j[1]), ignore_errors=True)
                jobs.remove(j)
                results.pop((j[0], j[1]))
    bad = [(k, v[1]) for k, v in results.items() if not v[0]]
    if bad:
        return False, {"error": "generation failed for %s:\n%s" % (bad[0][0], bad[0][1][-3000:])}
    write_registry(ctx, [(j[0], j[1], VECTORS[j[1]]) for j in jobs])
    pj = os.path.join(ctx["out"], "project.json")
    json.dump(desc, open(pj, "w"))
    return True, {"env": {"VF_PROJECT_JSON": pj}, "evidence": {"projects_generated": len(jobs), "project_vectors": ["%s/%s" % (j[0], j[1]) for j in jobs], "random_projects_dropped": dropped}}


def exec_projects(ctx):
    """default preparation for the execution-semantics checks: probes x vectors from props"""
    from props import PROPS
    cfg = PROPS[ctx["pid"]]
    plan = cfg.get("projects_" + ctx["tier"]) or cfg.get("projects_quick")
    return gen_projects(ctx, plan)


def gen_tool(ctx):
    """preparation for the generator-side checks: only the gqlgen-gen tool is needed"""
    tool, err = build_gen_tool(ctx)
    if not tool:
        return False, {"error": "building gqlgen-gen failed:\n" + err[-3000:]}
    return True, {}
