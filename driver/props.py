"""Per-property configuration of the vf driver (see DESIGN.md §4)."""

PROPS = {
    "C08": dict(
        pkg="c08", race=False, level="exploration",
        claim="property-based round-trip testing of every built-in scalar marshaler/unmarshaler and of FieldSet/Array/Omittable/Response "
              "compositions against an independent strict RFC 8259 parser; hundreds of thousands (quick) to millions (thorough) of "
              "generated, boundary-weighted values",
        note="trusts the harness strict JSON parser, encoding/json and strconv as decoders; sampled, not exhaustive",
        technique="property-based testing (rapid): round-trip oracle + strict-JSON validity predicate over generated values",
        quick=dict(shards=8, timeout=300), thorough=dict(shards=16, timeout=3000),
        rule="cases are drawn by rapid generators per scalar kind (strings from byte chunks incl. invalid UTF-8/control/quote, "
             "integers around every width boundary, float bit patterns, times, durations, UUIDs, JSON trees, FieldSet/Array "
             "compositions, Omittable); non-trivial = needs escaping, non-ASCII or invalid UTF-8, within 2 of a width boundary, "
             "non-integral/huge/tiny or non-finite float, sub-second or zoned time, negative or sub-second duration, nesting depth >= 2; "
             "distinct by value",
        assumptions=["strictjson (harness RFC 8259 parser) and encoding/json decide validity and decoded value",
                     "times are restricted to local years 0..9999 and whole-minute offsets (what RFC 3339 can express)"],
    ),
}

PROPS["C01"] = dict(
    pkg="c01", race=False, level="exploration", prepare="exec_projects",
    projects_quick=[("core", ["v0", "v1", "v2", "v3"])],
    projects_thorough=[("core", ["v0", "v1", "v2", "v3", "v4", "v5"])],
    quick=dict(shards=8, timeout=600), thorough=dict(shards=16, timeout=3000),
    claim="differential testing of servers generated at check time from /repo's templates (several option vectors linked into one "
          "binary) against an independent reference GraphQL executor, over rapid-generated operations (fragments, aliases, "
          "@skip/@include, variables) and outcome plans (value/null/error per resolver and directive invocation)",
    note="trusts gqlparser's parser/validator for what a valid operation is, the harness reference executor, and reflection-based "
         "universal resolvers; schemas are the harness probe schemas; sampled",
    technique="property-based differential testing (rapid) against a reference executor; cross-configuration metamorphic equality",
    rule="case = (probe schema, generated operation+variables, plan seed, sparse overrides of resolver/directive outcomes); "
         "non-trivial = operation has >=1 fragment or alias AND a null/error travelled through >=1 non-null link; distinct by "
         "(project, query, plan seed, overrides)",
    assumptions=["gqlparser parser/validator decide validity", "reference executor (harness/refexec) implements spec section 6",
                 "plan outcomes not representable in the Go types of some vector are discarded (counted)"],
)

# properties deliberately not claimed (reason); anything else missing from PROPS is "not built yet"
NOT_CLAIMED = {}
