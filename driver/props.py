"""Per-property configuration of the vf driver (see DESIGN.md §4)."""

PROPS = {
    "C08": dict(
        pkg="c08", race=False, level="exploration",
        claim="property-based round-trip testing of every built-in scalar marshaler/unmarshaler and of FieldSet/Array/Omittable/Response "
              "compositions against an independent strict RFC 8259 parser; hundreds of thousands (quick) to millions (thorough) of "
              "generated, boundary-weighted values",
        note="trusts the harness strict JSON parser, encoding/json and strconv as decoders; sampled, not exhaustive",
        technique="property-based testing (rapid): round-trip oracle + strict-JSON validity predicate over generated values",
        quick=dict(shards=8, timeout=300), thorough=dict(shards=16, timeout=3000),
        rule="cases are drawn by rapid generators per scalar kind (strings from byte chunks incl. invalid UTF-8/control/quote, "
             "integers around every width boundary, float bit patterns, times, durations, UUIDs, JSON trees, FieldSet/Array "
             "compositions, Omittable); non-trivial = needs escaping, non-ASCII or invalid UTF-8, within 2 of a width boundary, "
             "non-integral/huge/tiny or non-finite float, sub-second or zoned time, negative or sub-second duration, nesting depth >= 2; "
             "distinct by value",
        assumptions=["strictjson (harness RFC 8259 parser) and encoding/json decide validity and decoded value",
                     "times are restricted to local years 0..9999 and whole-minute offsets (what RFC 3339 can express)"],
    ),
}

# properties deliberately not claimed (reason); anything else missing from PROPS is "not built yet"
NOT_CLAIMED = {}
