"""Per-property configuration of the vf driver (see DESIGN.md §4)."""

PROPS = {
    "C08": dict(
        pkg="c08", race=False, level="exploration", prepare="exec_projects",
        projects_quick=[("core", ["v0", "v1"])], projects_thorough=[("core", ["v0", "v1", "v2", "w2"])],
        claim="property-based round-trip testing of every built-in scalar marshaler/unmarshaler and of FieldSet/Array/Omittable/Response "
              "compositions against an independent strict RFC 8259 parser; hundreds of thousands (quick) to millions (thorough) of "
              "generated, boundary-weighted values."
              " Payloads of servers generated from /repo's templates (single-file and follow-schema layout) for operations with @defer are read off the multipart/mixed and SSE transports and must decode to what the reference execution prescribes.",
        note="trusts the harness strict JSON parser, encoding/json and strconv as decoders; sampled, not exhaustive",
        technique="property-based testing (rapid): round-trip oracle + strict-JSON validity predicate over generated values",
        quick=dict(shards=8, timeout=300), thorough=dict(shards=16, timeout=3000),
        rule="cases are drawn by rapid generators per scalar kind (strings from byte chunks incl. invalid UTF-8/control/quote, "
             "integers around every width boundary, float bit patterns, times, durations, UUIDs, JSON trees, FieldSet/Array "
             "compositions, Omittable); non-trivial = needs escaping, non-ASCII or invalid UTF-8, within 2 of a width boundary, "
             "non-integral/huge/tiny or non-finite float, sub-second or zoned time, negative or sub-second duration, nesting depth >= 2; "
             "distinct by value",
        assumptions=["strictjson (harness RFC 8259 parser) and encoding/json decide validity and decoded value",
                     "times are restricted to local years 0..9999 and whole-minute offsets (what RFC 3339 can express)"],
    ),
}

PROPS["C01"] = dict(
    pkg="c01", race=True, level="exploration", prepare="exec_projects",
    projects_quick=[("core", ["v0", "v1", "v2", "v3"]), ("roots", ["v0", "v1"]), ("rnd1", ["v0", "v1"]), ("rnd2", ["v0", "v3"]), ("rnd3", ["v0", "v2"])],
    projects_thorough=[("core", ["v0", "v1", "v2", "v3", "v4", "v5"]), ("roots", ["v0", "v1", "v4"])] + [("rnd%d" % k, ["v0", ["v1", "v2", "v3", "v4", "v5"][k % 5]]) for k in range(1, 9)],
    quick=dict(shards=8, timeout=600), thorough=dict(shards=16, timeout=3000),
    claim="differential testing of servers generated at check time from /repo's templates (several option vectors linked into one "
          "binary) against an independent reference GraphQL executor, over rapid-generated operations (fragments, aliases, "
          "@skip/@include, variables) and outcome plans (value/null/error per resolver and directive invocation). "
          "Plans may also make any value read from a parent object and any list element absent (nil pointer / interface, zero Time), not only resolver results; and subscriptions are checked event by event: every event's response must equal the reference's execution of the selection on that event's value (data, errors with full response paths, order), with resolver faults below the event. "
          "On the probe with renamed roots the schema also declares executable directives of the user: @fx on FIELD (applied to aliased fields of generated operations; it wraps schema directives and the resolver) and @opx on QUERY | MUTATION (applied to the operation; one that refuses leaves data null with one error without path) - the reference models both."
          " The core probe has a field of the root type below the root (the Relay-style 'viewer: Query'): gqlgen continues with the root object there, and error paths below it keep their full prefix.",
    note="trusts gqlparser's parser/validator for what a valid operation is, the harness reference executor, and reflection-based "
         "universal resolvers; schemas are the harness probe schemas (one with renamed root types) plus random schemas drawn by the sdlgen grammar for the run seed at preparation time (interfaces implementing interfaces, unions, enums, lists and non-null nesting, field-definition directives with arguments; about a third of the object fields made resolvers), generated and compiled like the probes - a random schema that does not generate or compile is dropped and counted (C17 decides that); the binary is built with -race so that "
         "unsynchronised sharing inside the runtime (e.g. of the parsed document) is reported even when the data happens to be right; sampled",
    technique="property-based differential testing (rapid) against a reference executor; cross-configuration metamorphic equality; Go race detector as additional oracle",
    rule="case = (probe or random schema, generated operation+variables, plan seed, sparse overrides of resolver/directive outcomes); "
         "non-trivial = operation has >=1 fragment or alias AND a null/error travelled through >=1 non-null link; distinct by "
         "(project, query, plan seed, overrides)",
    assumptions=["gqlparser parser/validator decide validity", "reference executor (harness/refexec) implements spec section 6",
                 "plan outcomes not representable in the Go types of some vector are discarded (counted)"],
)

PROPS["C04"] = dict(
    pkg="c04", race=False, level="fault_enumeration", prepare="exec_projects", crash_is_violation=True,
    projects_quick=[("core", ["v0", "w1", "w2"]), ("roots", ["v0", "w2"]), ("rnd4", ["v0", "w2"]), ("rnd5", ["w1"])],
    projects_thorough=[("core", ["v0", "w1", "w2", "v1", "v2"]), ("roots", ["v0", "w1", "w2"])] + [("rnd%d" % k, ["v0", "w1", "w2"]) for k in (4, 5, 6, 7)],
    quick=dict(shards=8, timeout=900), thorough=dict(shards=16, timeout=3000),
    claim="fault enumeration: for every rapid-generated operation the check first runs fault-free to learn the invocation keys, then "
          "injects every single fault (each resolver and directive invocation x {error, panic}, foreign Go values at abstract "
          "positions incl. list elements) and compares data, errors, recover-hook count and a follow-up probe request with the "
          "reference executor; plus random multi-fault sets; the same enumeration inside deferred groups (shared @defer oracle); a field "
          "interceptor (AroundFields) failing or panicking at every resolver position (same reference); and user code at scalar positions: "
          "a custom scalar whose UnmarshalGQL returns an error / panics while arguments, list elements, input-object fields (nested, in "
          "lists, via variables) are coerced, and whose MarshalGQL panics while the response is serialised, over POST, GET and a "
          "websocket session - oracle: the same request with the hostile value replaced by a benign one (failing fields null with one "
          "error each at their path, their resolvers not called, all other values equal, recover hook once per panic; a serialisation "
          "panic fails the response as a whole with a well-formed error body), followed by the benign request again (the process keeps "
          "serving); for worker_limit 0/1/2; a process crash is a violation (journalled case)."
          " An operation that has not answered 20 s after a fault was injected is a violation of its own (stable goroutine witness required), and failure storms (many faults in one operation, the same failing value reached through several aliases) are drawn; a Go type used for a user scalar fails on demand in marshal and unmarshal, over POST, GET and websocket."
          " A sixth of the cases keep gqlgen's own recover hook (every panic is then 'internal system error' at the path of its own position)."
          " A user marshaler may also write invalid JSON (encoding/json then refuses the response in the transport's write step): over POST, GET and SSE the handler must return, with one recover and errors only.",
    note="single faults are exhaustive per generated operation, operations are sampled; reference executor and gqlparser trusted; "
         "subscription events are covered as far as C11 goes (resolver error/panic per operation)",
    technique="fault injection enumerated over generated operations (rapid) with a reference-executor oracle",
    rule="evaluation = one execution with one injected fault set; non-trivial = fault below the root (nested field, concurrent sibling "
         "or list-element goroutine) or a multi-fault set containing a panic; distinct by (query, plan seed, fault key, kind)",
    assumptions=["reference executor models a panic as an error at the position with the recover hook's message",
                 ],
)

PROPS["C06"] = dict(
    pkg="c06", race=True, level="exploration", prepare="exec_projects",
    projects_quick=[("core", ["v0", "w1", "w2"]), ("roots", ["v0", "w2"]), ("rnd6", ["v0", "w2"]), ("rnd7", ["v0", "w1"])],
    projects_thorough=[("core", ["v0", "w1", "w2", "v1", "w8"]), ("roots", ["v0", "v1", "w2"])] + [("rnd%d" % k, ["v0", "w1", "w2"]) for k in (6, 7, 8, 9)],
    quick=dict(shards=8, timeout=900), thorough=dict(shards=16, timeout=3000),
    claim="metamorphic testing under the Go race detector: every generated (operation, plan) pair is executed under 8 harness-owned "
          "schedules (none, yields, delays, reversed sibling completion through gates, mixed) on servers generated with "
          "worker_limit 0/1/2; data bytes and error multiset must be identical across schedules and equal to the reference "
          "executor; mutation root fields must be strictly serial in the invocation log; any race report fails the check."
          " Storms of failures and twin paths (the same resolver reached through two aliases) are scheduled as well."
          " A quarter of the cases keep gqlgen's own recover hook.",
    note="schedules are sampled and steered, not enumerated; the race detector only sees executed paths",
    technique="metamorphic property-based testing (rapid) across induced schedules + Go race detector as additional oracle",
    rule="evaluation = one execution under one schedule; non-trivial = the schedules produced >=2 distinct resolver completion orders "
         "and (>=2 resolvers overlapped in time or a composite list of >=2 elements was resolved); distinct by (query, plan, schedule seed)",
    assumptions=["resolver timing is owned through yields, sleeps <=500us and bounded gates (30ms)", "reference executor is correct"],
)

PROPS["C05"] = dict(
    env={"VF_SHRINKTIME": "40s"},
    pkg="c05", race=False, level="fault_enumeration", prepare="exec_projects", crash_is_violation=True,
    projects_quick=[("core", ["v0", "w1", "w2", "w8"]), ("rnd8", ["v0", "w1"])],
    projects_thorough=[("core", ["v0", "w1", "w2", "w8", "v1"])] + [("rnd%d" % k, ["v0", "w1", "w2"]) for k in (8, 9, 10)],
    quick=dict(shards=16, timeout=1200), thorough=dict(shards=16, timeout=6000),
    claim="cancellation-point enumeration: for every generated operation (with and without @defer, list fan-out) the request context "
          "is cancelled before and after every k-th resolver call (with earlier resolvers released or held in flight), for "
          "worker_limit 0/1/2/8; the response function must return once all resolvers have, and after the request ended no goroutine "
          "with a gqlgen or generated frame may remain; hang and leak verdicts need a stable goroutine-dump witness (same goroutine "
          "parked in the same frame in consecutive dumps), a mere timeout is reported as inconclusive (exit 2). The same enumeration is run "
          "(a) with a consumer that reads one payload (single-response transport) and one that drains the response function (streaming "
          "transport), and (b) through gqlgen's own transports POST, GET, application/graphql, SSE (with and without keep-alive pings) and "
          "multipart/mixed via handler.Server.ServeHTTP with the request context cancelled at the point: ServeHTTP must return and no "
          "transport goroutine (keep-alive, aggregator, deferred groups) may survive. "
          "(c) over the websocket transport (both subprotocols, queries and subscriptions): at every cancellation point the client stops the "
          "operation, goes away, or the server context is cancelled - or the operation completes and is stopped afterwards, optionally with "
          "another operation started right behind - then the session ends: Websocket.Do returns and nothing of the connection stays alive."
          " Half of the operations also meet failing user code while they run (resolver errors and panics, list elements of abstract type that no implementor matches, under every worker limit)."
          " A dedicated generator (TestForeignElements) puts one to three Go values that no implementor matches into lists of abstract type: the generated type switch panics inside the element's goroutine and worker slot, and the operation still has to end by itself under every worker limit.",
    note="cancellation points are exhaustive per operation, operations are sampled (probe schema and random schemas drawn for the seed); "
         "bounded time is only refuted by deadlock witnesses; websocket sessions over arbitrary message sequences are C11's; here one operation per connection is driven through its cancellation points",
    technique="fault enumeration over cancellation points of rapid-generated operations; invariant oracle over goroutine dumps",
    rule="evaluation = one execution with one cancellation point; non-trivial = cancellation point k>=1 in an operation with a composite "
         "list of >=2 elements or with @defer; distinct by (query, plan seed, vector, k, before/after, hold, consumer) resp. (query, plan seed, vector, transport, k, before/after)",
    assumptions=["universal resolvers return promptly (bounded waits <= 30ms)", "a goroutine parked identically in 3 dumps over 500ms with no resolver running is stuck"],
)

PROPS["C13"] = dict(
    env={"VF_SHRINKTIME": "40s"},
    pkg="c13", race=False, level="exploration", prepare="exec_projects",
    projects_quick=[("core", ["v0", "v1", "w2"]), ("rnd9", ["v0", "w2"])],
    projects_thorough=[("core", ["v0", "v1", "w2", "v4"])] + [("rnd%d" % k, ["v0", "w2"]) for k in (9, 10, 11, 12)],
    quick=dict(shards=8, timeout=900), thorough=dict(shards=16, timeout=3000),
    claim="metamorphic/differential testing of @defer on generated servers: rapid-generated queries with @defer on random subsets of "
          "fragments (nested, in lists, if: literal/variable, shared/distinct/absent labels) x outcome plans with failures inside "
          "groups x completion orders; the payload sequence is read to the end, merged in arrival order and compared with (1) the "
          "reference executor's plain result (null propagation stopping at objects whose group delivered data:null) and (2) the same "
          "server's answer to the query with every @defer removed; plus hasNext, exactly-once (path,label), known label, "
          "path-resolves-in-merge-so-far and termination invariants. "
          "Half of the cases are delivered through gqlgen's multipart/mixed or SSE transport instead of draining the response function: the payloads are parsed off the wire (per part: hasNext true on all but the last, closing boundary / complete event present) and fed to the same oracle."
          " A third of the servers have an error presenter of their own; every error of every payload must have gone through it, as in the plain execution."
          " The 'if' of @defer may be a nullable Boolean variable that is left out or null.",
    note="which fields are deferred is implementation-defined and is not asserted; completion orders are steered by the harness but sampled",
    technique="metamorphic property-based testing (rapid): @defer-removal relation + reference executor + invariants over the payload history",
    rule="evaluation = one full payload sequence; non-trivial = >=1 incremental payload and (a group nested under another group's payload, "
         "a group inside a list, or a failure inside a group); distinct by (query, plan seed, overrides, schedule mode)",
    assumptions=["reference executor is correct", "the documented exception: a failure inside a deferred group nulls the object the group belongs to"],
)

PROPS["C14"] = dict(
    pkg="c14", race=False, level="exploration", prepare="exec_projects",
    projects_quick=[("core", ["v0", "v1"]), ("rnd10", ["v0"]), ("rnd11", ["v1"])],
    projects_thorough=[("core", ["v0", "v1", "v3", "v4"])] + [("rnd%d" % k, ["v0", "v1"]) for k in (10, 11, 12, 13)],
    quick=dict(shards=8, timeout=600), thorough=dict(shards=16, timeout=3000),
    claim="differential testing of complexity.Calculate and the ComplexityLimit gate on generated servers against an independent "
          "arbitrary-precision evaluator of the documented definition, over rapid-generated operations (fragments, interface and union "
          "positions, arguments) x monotone custom cost functions a*child+b*arg+c (huge and negative constants) x limits placed at "
          "value-2..value+2 and at extremes; metamorphic check that adding selections never lowers the value; the gate is checked through "
          "the executor with the universal resolver's invocation log (over-limit => rejected and nothing invoked); the saturating add is "
          "reached black-box over an exhaustive 13x13 boundary grid. "
          "A fifth of the cases are operations whose cost is decided by variable values (custom functions multiplying an Int argument that is given through a provided or defaulted variable)."
          " The limit is installed as the fixed extension, per request (Func), through a user extension that embeds the stock one and has an operation-parameter hook of its own, or among other extensions."
          " The same gate is checked through handler.Server over POST, GET, SSE and websocket.",
    note="custom functions are restricted to monotone forms (the monotonicity clause is only meaningful for those); an interface that "
         "implements the interface may count as an implementor with default cost (both readings of the docs are accepted)",
    technique="property-based differential testing (rapid) against a reference evaluator + metamorphic monotonicity + exhaustive boundary grid",
    rule="evaluation = one (operation, cost functions, limit) triple on one generated vector; non-trivial = a custom cost is used and the "
         "operation has an interface position or fragment, or the value is within 2 of the limit, or saturation is reached; distinct by "
         "(query, specs, limit)",
    assumptions=["__schema/__type are excluded (their cost is not documented)", "harness evaluator implements the documented definition"],
)

PROPS["C02"] = dict(
    pkg="c02", race=False, level="exploration", prepare="exec_projects",
    projects_quick=[("inputs", ["v0", "v3", "v5"])],
    projects_thorough=[("inputs", ["v0", "v1", "v2", "v3", "v4", "v5"])],
    quick=dict(shards=8, timeout=900), thorough=dict(shards=16, timeout=3000),
    claim="differential testing of argument coercion on servers generated from /repo's templates (option vectors covering "
          "nullable_input_omittable, return_pointers_in_unmarshalinput, call_argument_directives_with_null, struct_fields_always_pointers, "
          "a map-backed input) against a reference implementation of the spec's input coercion: rapid draws, per input type, literals "
          "and variables (defaults at argument/variable/input-field level, omitted vs explicit null, single-value-to-list, enums, custom "
          "integer scalars, nested and recursive input objects) in three classes valid / invalid / lenient; the universal resolver "
          "records the Go values it received (Omittable and map-backed absence observable); plus a direct sweep of every built-in "
          "scalar unmarshaler over boundary numbers in every carrier form with an exact-rational equal-or-error oracle; execution-phase "
          "coercion errors must carry a path that names a position of the value that was sent (walked through variables and defaults); "
          "and argument / input-field directives (@chk on arguments, input fields, nested and listed input objects): with passing "
          "directives the resolver receives exactly what a directive-free twin field receives, every position that carries a value runs "
          "its directive exactly once and no other position does (omitted/null positions are optional as the option says), and a "
          "directive that fails or panics leaves the resolver uncalled with one error at the guarded position."
          " The same cases are also sent as HTTP POST requests to a handler that served another request first (state kept between requests shows as a difference from the direct execution)."
          " Schema defaults spell out nulls inside object literals (an explicit null in a default is not an omission)."
          " The POST handler caches parsed documents and every case is sent twice: the second answer is the one that is judged.",
    note="gqlparser validates literals and variables first; where gqlgen/gqlparser are more lenient than the spec the case is in the "
         "lenient class (only 'equal or error' and 'no number silently changed' are asserted there)",
    technique="property-based differential testing (rapid) against a reference coercion algorithm; three-valued expectations",
    rule="evaluation = one field invocation on one vector, or one unmarshaler call; non-trivial = the case exercises a default, an "
         "omitted-vs-null distinction, a list coercion, an enum/custom scalar or a rejection; distinct by (query, variables)",
    assumptions=["harness reference coercion implements spec 3.x/6.1.2/6.4.1", "variables are decoded with UseNumber, as every transport does"],
)

PROPS["C15"] = dict(
    pkg="c15", race=False, level="fault_enumeration", prepare="exec_projects",
    projects_quick=[("core", ["v0"])], projects_thorough=[("core", ["v0"])],
    quick=dict(shards=8, timeout=900), thorough=dict(shards=16, timeout=3000),
    claim="exhaustive enumeration of every request sequence up to length 3 (quick) / 4 (thorough) over a 19-letter alphabet "
          "(4 query texts incl. a mutation and an invalid one x {text only, text+correct hash, text+another text's hash, hash only}, "
          "malformed extension, wrong version, upper-cased hash) against a three-line model hash->text, plus rapid-generated long "
          "histories over POST and GET with an inspectable evicting cache; after every step: hash-only executes exactly the registered "
          "text (seen through the universal resolver's log) or PersistedQueryNotFound (only if the cache does not hold the hash), "
          "mismatches execute and register nothing, and every cache entry satisfies sha256(text)=hash. "
          "The text alphabet contains two texts that differ only in the case of a letter inside a string literal, and the server may cache parsed documents in an lru.LRU beside the APQ cache (as NewDefaultServer does)."
          " A request may carry a hash with blank text."
          " JSON bodies are also posted through the UrlEncodedForm transport.",
    note="the alphabet is small by design; the cache is the harness's recording cache (gqlgen's lru is exercised by C03/C07)",
    technique="exhaustive bounded enumeration + model-based state-machine testing (rapid) against a reference model",
    rule="evaluation = one request; a sequence is non-trivial if it contains a registration, a later hash-only hit, and a mismatch or "
         "eviction; distinct by the sequence",
    assumptions=["sha256 from the Go standard library", "which text ran is identified by its root field in the resolver log"],
)

PROPS["C09"] = dict(
    pkg="c09", race=False, level="exploration", prepare="exec_projects",
    projects_quick=[("core", ["v0"])], projects_thorough=[("core", ["v0"])],
    quick=dict(shards=8, timeout=900), thorough=dict(shards=16, timeout=3000),
    claim="model-based testing of the HTTP contract on a generated server behind handler.Server: rapid draws documents with 1-4 "
          "operations of mixed kinds (each revealing itself through a distinct root field in the universal resolver's log), "
          "operationName absent/each/unknown, Accept headers (lists, q-values, junk), configured ResponseHeaders, transport order "
          "permutations and parse/validation/variable damage, over GET, POST, application/graphql and urlencoded; an independent "
          "statement of the negotiation and status rules gives the expected Content-Type, status, refusal of non-queries over GET, "
          "the operation that may run, strict-JSON GraphQL body shape, and 'executed => 200' / 'non-2xx => nothing ran'. "
          "Half of the servers cache parsed documents (lru), and a request may be repeated up to three times in a row: every answer has to satisfy the contract."
          " Requests may name their document by persisted-query hash (registered earlier in the history or not), with a query cache, and may be repeated."
          " A GET request may also carry a body of another transport's content type that names a mutation; it is answered from its URL alone."
          " The JSON request object may be posted through the UrlEncodedForm transport (operationName and variables as over POST)."
          " An upload request larger than MaxUploadSize is refused with the transport's content type and configured headers and runs nothing.",
    note="application/graphql and urlencoded transports do not negotiate (configured header or application/json), as their code documents",
    technique="model-based property testing (rapid) against an explicit contract model; resolver log as execution witness",
    rule="evaluation = one HTTP request; non-trivial = multi-operation document, non-default Accept, or GET; distinct by the full request",
    assumptions=["well-formed requests at the HTTP/JSON level only (malformed ones belong to C10)"],
)

PROPS["C10"] = dict(
    pkg="c10", race=False, level="exploration", prepare="exec_projects", crash_is_violation=True,
    projects_quick=[("uploads", ["v0"])], projects_thorough=[("uploads", ["v0"])],
    quick=dict(shards=8, timeout=900), thorough=dict(shards=16, timeout=3000),
    claim="structure-aware generation of malformed and well-formed client input against handler.Server over a generated upload schema: "
          "JSON bodies of any shape (null, scalars, truncations, deep nesting, wrong member types, random bytes) on POST, SSE and "
          "multipart/mixed, raw query strings on GET, raw bodies on application/graphql and urlencoded, and multipart upload forms built "
          "from a grammar (five variable shapes, files shared between paths, both sides of MaxMemory/MaxUploadSize, and ten structural "
          "defects incl. 25 hostile map paths); oracle: the recover hook never runs (resolvers never panic here), no panic escapes "
          "ServeHTTP, the answer is a strict-JSON GraphQL response, a private TMPDIR is empty afterwards, oversized bodies run nothing, "
          "and well-formed uploads deliver exact bytes/filename/content type to every mapped path through independently readable readers; structural mutation of a valid map path of the very request (index equal to the list length, shorter lists, wrong kinds, extra / missing segments); and websocket sessions fed frames of any type (text, binary, ping, pong, close) and payload (protocol messages with members of the wrong JSON type, null, truncated, nested thousands deep, random bytes, one byte flipped) under both subprotocols, before and after the handshake: the recover hook never runs, the process lives, every server frame is a JSON message object and a fresh session is acknowledged afterwards."
          " Invalid documents are also sent twice to a server with a query cache (the second answer must equal the first), and websocket frames are mutated the same way."
          " The streaming transports are registered before POST (as documented), so raw bodies sent with their Accept headers reach them."
          " Bodies that declare a required variable and do not provide it are sent after a well-formed request with variables: errors only, nothing runs."
          " The websocket init function reads the payload through gqlgen's accessors (Authorization, GetString), and init payloads carry values that are not strings.",
    note="websocket frames are covered by C11's state machine; native byte-level fuzz targets are not part of the quick tier",
    technique="grammar-based and mutation-based property testing (rapid) with a crash/recover-hook/round-trip oracle",
    rule="evaluation = one request; non-trivial = a request with a structural defect that reaches the transport's decoding stage, or a "
         "well-formed upload with >=2 mapped paths or spilled to disk; distinct by request bytes",
    assumptions=["resolvers of the harness never panic in this check, so every recover-hook call is gqlgen's own panic"],
)

PROPS["C03"] = dict(
    pkg="c03", race=True, level="exploration", prepare="exec_projects",
    projects_quick=[("core", ["v0"])], projects_thorough=[("core", ["v0"])],
    quick=dict(shards=8, timeout=900), thorough=dict(shards=16, timeout=3000),
    shard_env={"odd": {"VF_C03_MODE": "suggest-off"}},
    claim="model-based testing of the request lifecycle on a generated server behind executor.Executor: rapid draws lists of up to six "
          "instrumented extensions (ten hook subsets, some rejecting in MutateOperationParameters / MutateOperationContext), a query "
          "cache (none, map, LRU(2), LRU(1000)) and histories of valid requests and requests invalidated by construction (syntax, "
          "unknown field, unknown operationName, variable in wrong position, variable coercion, fragment cycle, undefined variable); "
          "run sequentially and from 2-8 goroutines under the race detector; half of the shards run with SetDisableSuggestion(true) in "
          "their own processes. Oracle: a rejected request produces no interceptor, directive or resolver event and errors only; an "
          "accepted one produces every hook exactly once per operation / response / root field / field (field positions from the "
          "reference executor), in lifecycle order, first-registered outermost; resolvers as the reference says; no race report. "
          "A third of the histories go through handler.Server with the POST transport instead of the executor API: each request is a JSON body that leaves out the members it does not need, and the damages include a required variable that is left out entirely or sent as null."
          " The same request histories are also served over the streaming transports (SSE and multipart/mixed, registered before POST as documented) with the same gate and hook-order expectations."
          " The GET transport takes part in the HTTP histories (an operation it selects that is not a query is refused after the gates and before anything of the operation runs), and the pool holds documents with several operations selected by name."
          " A root object reached again below the root runs its fields as root fields once more (root-field interceptors, no field interceptor for the field that leads there).",
    note="which requests are invalid is known by construction, never by re-validating in process; interleavings are sampled",
    technique="model-based property testing (rapid) of hook histories + Go race detector",
    rule="evaluation = one request; a history is non-trivial if it has >=1 rejected and >=1 accepted request and >=2 extensions of which "
         ">=1 implements several hooks; distinct by the whole case",
    assumptions=["reference executor decides the set of field positions", "gqlparser decides validity of the undamaged documents"],
)

PROPS["C07"] = dict(
    pkg="c07", race=True, level="exploration", prepare="exec_projects",
    projects_quick=[("core", ["v0"])], projects_thorough=[("core", ["v0"])],
    quick=dict(shards=8, timeout=900), thorough=dict(shards=16, timeout=3000),
    claim="differential testing of one long-lived handler.Server (all HTTP transports, LRU(3) query cache, APQ) against freshly "
          "constructed servers: rapid draws histories of 2-25 requests from a pool that deliberately shares query text across different "
          "operationName / variables / extensions / X-Echo header / Accept, with optional members present or absent (successors often drop "
          "members the predecessor had, on the same transport and text), valid and invalid bodies, over POST, GET, application/graphql, "
          "urlencoded, multipart form, SSE and multipart/mixed; resolvers echo what they see of the request, so any leak changes the "
          "body; every answer (status, Content-Type, body bytes) must equal the answer of a fresh server whose APQ cache holds exactly "
          "the registrations the model says preceded it; the same pools are replayed from 2-8 goroutines under the race detector. "
          "A request with a wrong persisted-query hash claims the hash of another text of the pool, so that a later hash-only request for that text shows whether the rejected request left memory. "
          "Websocket: up to six operations (queries, mutations, subscriptions, invalid ones) are started back to back on one connection of a long-lived server; each must receive, under its own id, exactly the frames a fresh server sends when it runs that operation alone on a connection of its own, and no frame may carry an id nobody started."
          " Transports may be configured with ResponseHeaders (each response must carry exactly the configured set, whatever ran before it), and a websocket session multiplexes operations of the same pool."
          " The pool holds pairs of texts that differ only in white space that matters (inside a string value, a block string, at the end of a comment); a text is often requested right after its nearest neighbour."
          " A third of the cases give every server a complexity limit whose cost depends on the request's variables, with requests for the same text on either side of the limit.",
    note="whether sync.Pool hands the same object to the next request is up to the runtime; websocket sessions are covered by C11",
    technique="differential / metamorphic history testing (rapid) against a fresh-server oracle + Go race detector",
    rule="evaluation = one request compared with a fresh server; non-trivial = a request whose predecessor on the same transport and text "
         "had a superset of optional members, or a concurrent batch; distinct by (predecessor, request)",
    assumptions=["resolvers are deterministic functions of the request (echo resolvers)"],
)

PROPS["C12"] = dict(
    env={"VF_SHRINKTIME": "40s"},
    pkg="c12", race=True, level="exploration", prepare="exec_projects",
    projects_quick=[("core", ["v0", "v1"])], projects_thorough=[("core", ["v0", "v1", "w2"])],
    quick=dict(shards=8, timeout=900), thorough=dict(shards=16, timeout=3000),
    claim="property-based testing of the SSE and multipart/mixed transports over a real TCP connection against a scripted executable "
          "schema: rapid draws payload scripts (1-12 payloads whose strings contain newlines, 'data:', ': ping', the boundary text, 5 kB "
          "bodies; errors; paths and labels), gaps between payloads (0, yield, 1us..3ms), keep-alive intervals 20us..10ms, aggregator "
          "ticks 1us..10ms, four boundaries and client disconnects at a random byte; the raw body is parsed by an independent "
          "event-stream parser / mime/multipart and must contain every payload exactly once, in order, as complete 'next' events with "
          "strict JSON equal to the script, no comment inside an event, one final 'complete'; resp. parts of strict JSON, initial then "
          "incremental payloads flattened in order, hasNext true on all but the last part, closing boundary exactly once and last; the "
          "Go race detector watches the keep-alive / aggregator goroutines; after a disconnect no transport goroutine may remain parked. "
          "Payload data, labels and error messages are generated from hostile chunks (format verbs, line ends, 'data:' / 'event:' keywords, boundaries, quotes, control characters)."
          " Servers generated from /repo's templates stream @defer responses through both streaming transports under the shared @defer oracle (every part parsed off the wire: boundaries, hasNext, closing delimiter / complete event).",
    note="timings are sampled; the race detector reports unsynchronised writers on any executed path",
    technique="property-based testing (rapid) with independent stream parsers as oracle + Go race detector",
    rule="evaluation = one streamed response; non-trivial = >=2 payloads and a keep-alive or aggregator tick fell between two payloads "
         "(gap >= interval); distinct by the case",
    assumptions=["mime/multipart from the standard library and the harness event-stream parser decide framing"],
)

PROPS["C11"] = dict(
    env={"VF_SHRINKTIME": "40s"},
    pkg="c11", race=True, level="exploration", prepare="exec_projects", crash_is_violation=True,
    projects_quick=[("core", ["v0"])], projects_thorough=[("core", ["v0"])],
    quick=dict(shards=16, timeout=1200), thorough=dict(shards=16, timeout=6000),
    claim="model-based session testing of the websocket transport (graphql-ws and graphql-transport-ws) against a generated server over "
          "a real connection: rapid draws sessions of client actions (init with object / non-object / null payloads or none, start of "
          "subscriptions, queries, mutations, invalid documents, non-object and null payloads, stop, ping, pong, terminate, invalid "
          "frames, abrupt TCP close) interleaved with server-side events driven through the plan (events with gaps, resolver errors and "
          "panics, init function accept/reject, server context cancellation, 200us-1ms keep-alive and ping tickers); safety invariants over "
          "the received frame history: strict JSON frames, no operation frame before connection_ack, no ack and no resolver before the init "
          "function accepted, per id next* then error and/or complete with at most one complete, nothing after it and no result after an "
          "error, the n-th result equals event n of the reference executor; after the connection ends: CloseFunc ran exactly once, no "
          "transport goroutine remains parked (goroutine-dump witness), event sources saw their context cancelled; race detector silent, "
          "a crash (gorilla's concurrent-write panic) is a violation. "
          "Subscriptions may be endless (their source stays open until its context is cancelled: only a stop or the end of the session ends them), a stop may follow its start with no pause, and a dedicated generator ends sessions from both sides at (nearly) the same instant with swept offsets."
          " Operations may be refused by an operation-context extension of the server (as a complexity limit does): they execute nothing and are terminated like any other."
          " The init function may hand back a context of its own making (not derived from the one it was given).",
    note="ids are never reused within a session (concurrent duplicate ids are a client protocol violation whose handling is undocumented); "
         "'receives its results' is checked at session end only, with a witness, otherwise inconclusive",
    technique="model-based state-machine property testing (rapid) with history invariants + goroutine-dump witnesses + race detector",
    rule="evaluation = one session; non-trivial = >=2 overlapping multi-event subscriptions, or a stop racing a multi-event subscription; "
         "distinct by the session",
    assumptions=["gorilla/websocket as client", "the harness event source selects on the operation context"],
)

PROPS["C16"] = dict(
    pkg="c16", race=False, level="exploration", prepare="exec_projects",
    projects_quick=[("core", ["v0"]), ("fed2", ["v0"])], projects_thorough=[("core", ["v0", "v1"]), ("fed2", ["v0", "v1"]), ("fed1", ["v0"])],
    quick=dict(shards=8, timeout=900), thorough=dict(shards=16, timeout=3000),
    claim="round-trip testing of introspection over rapid-generated schemas (interfaces implementing interfaces, unions, recursive "
          "inputs, defaults of every literal kind incl. object defaults and control characters, descriptions, @deprecated on fields, "
          "arguments, input fields, enum values and directive arguments, repeatable directives, two files with extensions): one "
          "generated server serves each schema through graphql.Config.Schema; the standard introspection query (also fully aliased, "
          "and per type through __type(name: $n)) is answered, and the type graph rebuilt from the JSON is compared element by element "
          "with the ast.Schema gqlparser loaded from the SDL (kinds, names, order, descriptions, type references, default values "
          "re-parsed as GraphQL constants, each element's own deprecation, interfaces of objects and interfaces, possible object "
          "types, directive locations/arguments/repeatability); with introspection disabled six query shapes hiding __schema/__type "
          "behind aliases, fragments and variables must yield null plus an error and no schema type name in the data. "
          "With introspection disabled every hidden field must be null with an error of its own, including __type lookups of names that do not exist; and on the federation probes the _service field is checked over histories of requests with introspection enabled and disabled (aliases, fragments, variables)."
          " Introspection may be disabled again by a later operation-context mutator after an earlier one enabled it (and the reverse): the last writer decides, per request."
          " Directives have up to four arguments, several of them with different defaults.",
    note="gqlparser's schema loader is the reference for what the SDL means; the federation _service field is covered by C20",
    technique="round-trip property testing (rapid) with schema generation from a grammar",
    rule="evaluation = one (schema, query shape, enabled/disabled) case; non-trivial = the schema has a deprecated argument or input field "
         "and an interface implementing an interface or an object-valued default; distinct by SDL and shape",
    assumptions=["gqlparser.LoadSchema decides validity and meaning of the generated SDL (invalid ones are dropped and counted)"],
)

PROPS["C17"] = dict(
    pkg="c17", race=False, level="exploration", prepare="gen_tool",
    env={"VF_SHRINKTIME": "90s"},
    quick=dict(shards=16, timeout=1500), thorough=dict(shards=16, timeout=7200),
    claim="property-based testing of the generator: rapid draws schemas from the SDL grammar (half of them with the naming pool of Go "
          "keywords, predeclared identifiers, initialisms, leading/trailing/embedded underscores, enum values and type names that "
          "normalise to the same identifier; 1-3 files with extensions; executable and type-system directive locations) and option "
          "vectors over every documented boolean option, both exec layouts, three resolver layouts, worker_limit and random per-field "
          "resolver: true; each case runs gqlgen's generator from /repo's working tree in its own process, then go build and go vet of "
          "executor, models, resolver stubs and stub file; a non-zero exit, a panic, or a compile/vet error is a violation. "
          "A third of the cases add an object bound to a user-written Go struct (directly or through autobind) whose fields several schema fields share through fieldName aliases and names that differ only in case."
          " Inputs may be bound to map[string]interface{}, objects to user-written Go types (explicit binding and autobind, including autobind of the generated package itself), schema files may share one base name in different directories, and every project is generated a second time on its own output."
          " Models may be generated into a package of their own (gqlgen's init layout) with schema types named like exported identifiers of the exec file, the user's model package may be named by the tail of its directory (go-um, myum, um.v2), and directives have up to four arguments with defaults."
          " Enums may be bound to Go constants of the user's model package through @goModel/@goEnum (typed and untyped), and a federation subgraph with @requires fields is generated with and without explicit_requires.",
    note="96 (quick) / 800 (thorough) points in an enormous space, weighted towards the listed naming patterns; shrinking re-generates",
    technique="property-based testing (rapid) with grammar-based schema generation; oracle = generator exit status + Go type checker",
    rule="evaluation = one generation + build + vet; non-trivial = the schema uses >=3 of: interface-implements-interface, union, recursive "
         "input, default value, applied custom directive, subscription, multi-file extension, hostile naming pool; distinct by SDL+config",
    assumptions=["gqlparser.LoadSchema decides which generated SDL is a valid schema", "two field names of one type that normalise to one Go identifier are outside the claim"],
)

PROPS["C18"] = dict(
    pkg="c18", race=False, level="exploration", prepare="gen_tool",
    env={"VF_SHRINKTIME": "90s"},
    quick=dict(shards=16, timeout=1500), thorough=dict(shards=16, timeout=7200),
    claim="metamorphic testing of the generator's determinism: for every rapid-generated project (schema from the SDL grammar in 1-3 "
          "files, random option vector incl. both exec layouts and three resolver layouts) the generator runs five times in separate "
          "processes (fresh map seeds) with GOMAXPROCS 1/16/2/16/3, started from the project root and from a nested sub-directory, on a "
          "clean tree and on a tree that still contains the previous output (resolver files included); the SHA-256 of every generated "
          "file must be identical across all runs, so regeneration on a freshly generated tree is a no-op."
          " A third of the multi-file projects keep their schema files under one base name in different directories (merged into one generated file by the follow-schema layouts), each file declaring directives of executable locations."
          " A third of the projects generate models into a package of their own; half of those list the exec package in autobind and may name schema types like exported identifiers of the exec file (Config, ResolverRoot, ...)."
          " A quarter of the projects are a federation subgraph with @requires fields, two thirds of them with explicit_requires (federation.requires.go is read back on the next run)."
          " Schemas with object-literal defaults get six more clean-tree runs (small Go maps iterate as a rotation, so a missing sort shows only in some processes); the corpus pins a schema whose object literals have eight fields.",
    note="map-order bugs surface with probability < 1 per run; five fresh processes per project bound the miss probability, they do not remove it",
    technique="metamorphic property testing (rapid): repeated generation in separate processes, hash-equality oracle",
    rule="evaluation = one generator run; a project is non-trivial if it has >=2 schema files and a follow-schema layout (exec or resolver); "
         "distinct by SDL+config",
    assumptions=["projects whose first generation fails are C17's business and are discarded here (counted)"],
)

PROPS["C19"] = dict(
    pkg="c19", race=False, level="exploration", prepare="gen_tool",
    env={"VF_SHRINKTIME": "90s"},
    quick=dict(shards=16, timeout=1500), thorough=dict(shards=16, timeout=7200),
    claim="model-based history testing of resolver regeneration: rapid draws histories of {edit resolvers, evolve schema, regenerate 1-3 "
          "times} over a two-file schema, for both resolver layouts; edits replace method bodies with Go drawn from a statement pool "
          "(braces inside strings, raw strings, line and block comments, closures, labelled loops, rune literals), set plain // doc "
          "comments, name the results, add helper functions/types/vars/consts/methods and imports (plain, aliased local package, a local "
          "package named like a template-reserved one); evolutions add, remove, rename fields, move a field to the other schema file, add "
          "and remove types; after every regeneration the files are read back with go/parser and go/scanner: surviving resolvers keep "
          "body token stream, doc text, result names and every import their body uses; bodies of removed/renamed resolvers and all "
          "helper declarations are still present in that run's output; every file parses; and when only fields were added to files "
          "holding only resolver methods, a package that compiled before compiles after. "
          "A third of the schemas also have Mutation and Subscription roots (channel-valued resolvers), and resolver.omit_template_comment is drawn."
          " Doc comments above resolver methods may span several paragraphs; Mutation and Subscription roots, dot imports and omit_template_comment are drawn as well."
          " A quarter of the projects keep their two schema files under one base name in different directories, so the follow-schema layout keeps all resolvers in one file."
          " User imports include an alias that is the tail of its import path but not the package's name, and added fields may have a scalar type bound to the user's util package (whose name a user alias of another import has taken)."
          " User imports include a standard-library package whose name is not the last element of its path (math/rand/v2).",
    note="bodies are never empty (gqlgen documents an empty body as 'not implemented'); doc comments are plain // comments",
    technique="model-based state-machine property testing (rapid) with a token-stream round-trip oracle",
    rule="evaluation = one regeneration; a history is non-trivial if a regeneration follows both an edit and an evolution and some body has "
         "braces inside a string/raw string or a helper declaration exists; distinct by the history",
    assumptions=["go/parser and go/scanner decide what the files contain", "the harness's edits produce valid Go (checked)"],
)

PROPS["C20"] = dict(
    pkg="c20", race=True, level="exploration", prepare="exec_projects", crash_is_violation=True,
    projects_quick=[("fed2", ["v0", "v1", "x1", "x2"]), ("fed1", ["v0"])],
    projects_thorough=[("fed2", ["v0", "v1", "w2", "v2", "x1", "x2"]), ("fed1", ["v0", "v1", "x1"])],
    quick=dict(shards=8, timeout=900), thorough=dict(shards=16, timeout=3000),
    claim="model-based testing of federation _entities on servers generated with the federation plugin (v1 and v2 schemas, several "
          "option vectors): rapid draws representation lists of length 0-12 (interleaved entity types, duplicates, single and compound "
          "and nested keys, two keys per type, batch (@entityResolver(multi: true)) entities, unknown or missing __typename, missing / "
          "null / wrongly typed keys, a @requires field) with per-key outcomes {entity, error, panic, nil} and delays that reorder "
          "completion; entity resolvers stamp each entity with the key they were called with, so the model can say, per index, which "
          "entity (or null) must stand there, that a failing representation is reported, that no failure changes another element, and "
          "that the @requires field comes from the same representation; run under the race detector; an unrecovered panic is a violation. "
          "One entity has a composite first key and a second key; a generic generator makes every key field independently present, null or absent; vector x1 generates with federation explicit_requires and a harness-written populator."
          " A Shipment entity has two @requires selections whose Go names coincide (nested crate { weight } and flat crateWeight) beside a three-level nested one, checked in the default, explicit_requires and computed_requires modes."
          " Single-entity resolvers bind the values they receive by the parameter names of the generated EntityResolver interface (read from the generated sources), as a hand-written body does.",
    note="the entity_resolver_multi package option named in the property text does not exist at the pinned commit; batch resolvers come "
         "from the @entityResolver(multi: true) directive; explicit_requires is covered by vector x1 (the harness writes the user's populator, which copies the @requires field "
         "from the representation it is handed); computed_requires by vector x2 (the @requires fields are resolvers that receive the required fields of their representation; the harness's resolvers return their sum, so the response shows which representation was handed over); for batch groups a failing member nulls its whole (type, key) group (the documented GetMany contract)",
    technique="model-based property testing (rapid) with identity-stamped resolvers + Go race detector",
    rule="evaluation = one _entities request on one vector; non-trivial = >=3 representations of >=2 types with >=1 failing one; distinct by the case",
    assumptions=["the model picks the first @key whose fields are all present and not all null, as the generated code documents"],
)

# properties deliberately not claimed (reason); anything else missing from PROPS is "not built yet"
NOT_CLAIMED = {}
