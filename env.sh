# source this: offline Go environment for building against /repo
_gover=$(sed -n 's/^go \([0-9.]*\)$/\1/p' "${VERIF_REPO:-/repo}/go.mod" | head -1)
_modcache=$(GOFLAGS= go env GOMODCACHE 2>/dev/null || echo /root/go/pkg/mod)
_tc="$_modcache/golang.org/toolchain@v0.0.1-go${_gover}.linux-amd64/bin"
if [ -x "$_tc/go" ]; then export PATH="$_tc:$PATH" GOTOOLCHAIN=local GOSUMDB=off; else export GOTOOLCHAIN=auto; fi
export GOFLAGS=-mod=mod GOPROXY=off CGO_ENABLED=1
