package c01

import (
	"bytes"
	"context"
	"fmt"
	"strings"
	"testing"

	"pgregory.net/rapid"

	"vh/kit"
	"vh/opgen"
	"vh/oracle"
	"vh/refexec"
	"vh/strictjson"
	"vh/univ"
	"vh/vfrun"
)

type Case = kit.Case

func check(c Case) *vfrun.Failure {
	srvs, err := kit.Servers(c.Project)
	if err != nil {
		return vfrun.Failf("harness.no-project", "%v", err)
	}
	p := c.Plan()
	pr, f := kit.Prepare(srvs[0], c)
	if f != nil {
		return f
	}
	ref := kit.Reference(srvs[0], pr, p)
	var first []byte
	unrep := false
	for i, s := range srvs {
		e := univ.NewExec(p)
		resp := s.Do(context.Background(), e, c.Query, c.OpName, c.Variables)
		if e.Unrepresentable > 0 {
			unrep = true
			continue
		}
		if f := oracle.Compare(s.P.Vec, ref, resp, e.Keys("R"), e.Keys("D")); f != nil {
			return f
		}
		if first == nil {
			first = resp.Data
		} else if !bytes.Equal(first, resp.Data) {
			return vfrun.Failf("exec.vectors-differ", "data bytes differ between %s and %s:\n%s\n%s", srvs[0].P.Vec, srvs[i].P.Vec, first, resp.Data)
		}
	}
	if unrep {
		vfrun.Label("discarded:override-unrepresentable-in-some-vector")
		return nil
	}
	vfrun.Label("project:" + c.Project)
	classify(c, ref)
	return nil
}

func classify(c Case, ref *refexec.Result) {
	nontrivial := (ref.FragmentsSeen > 0 || ref.AliasSeen > 0) && ref.NullPropagated > 0
	if ref.PropagatedToRoot {
		vfrun.Label("propagated-to-root")
	}
	if ref.StoppedInList > 0 {
		vfrun.Label("stopped-in-list")
	}
	if ref.ThroughAbstract > 0 {
		vfrun.Label("through-abstract-type")
	}
	if ref.MergedKeys > 0 {
		vfrun.Label("merged-keys")
	}
	if ref.SkipIncludeVar > 0 {
		vfrun.Label("skip-include-by-variable")
	}
	for _, k := range ref.Dirs {
		if strings.HasPrefix(k, "@") {
			vfrun.Label("operation-directive")
			if ref.Data != nil && ref.Data.Kind == strictjson.Null && len(ref.Resolvers) == 0 {
				vfrun.Label("operation-directive-refused")
			}
		} else if strings.Contains(k, "@Fx:") {
			vfrun.Label("field-directive-in-operation")
		}
	}
	if ref.DirBlocked > 0 {
		vfrun.Label("directive-blocked")
	}
	if ref.NullPropagated > 0 {
		vfrun.Label("null-propagated")
	}
	if len(ref.Errors) > 0 {
		vfrun.Label("with-errors")
	}
	if nontrivial {
		vfrun.Label("nontrivial")
		vfrun.NonTrivial(fmt.Sprintf("%s|%s|%d|%v", c.Project, c.Query, c.PlanSeed, c.Overrides))
	}
	vfrun.SampleCat(c.Project, map[string]any{"case": c, "expected": oracle.Describe(ref)})
}

func gen(t *rapid.T) Case {
	c := Case{Project: kit.DrawProject(t)}
	srvs, err := kit.Servers(c.Project)
	if err != nil {
		t.Fatalf("harness: %v", err)
	}
	s := srvs[0]
	op := opgen.Generate(t, s.Schema, opgen.Options{Mutation: rapid.IntRange(0, 4).Draw(t, "mutation?") == 0})
	c.Query, c.OpName, c.Variables = op.Query, op.OpName, op.Variables
	c.PlanSeed = rapid.Uint64Range(1, 1<<32).Draw(t, "planseed")
	pr, f := kit.Prepare(s, c)
	if f != nil {
		vfrun.Label("generated-operation-invalid(dropped)")
		t.Skip("generated operation is not valid: " + f.Msg)
	}
	// dry run with the default plan to learn the reachable keys
	ref := kit.Reference(s, pr, c.Plan())
	c.Overrides = kit.DrawOverrides(t, kit.Candidates(ref), 3, false)
	return c
}

func TestExec(t *testing.T) {
	vfrun.Run(t, vfrun.Prop[Case]{Property: "C01", Name: "TestExec", Gen: gen, Check: check}, vfrun.N(24000, 600000))
}
