package c01

import (
	"bytes"
	"context"
	"fmt"
	"sort"
	"sync"
	"testing"

	"github.com/vektah/gqlparser/v2/ast"
	"github.com/vektah/gqlparser/v2/gqlerror"
	"github.com/vektah/gqlparser/v2/parser"
	"github.com/vektah/gqlparser/v2/validator"
	"pgregory.net/rapid"

	"vh/opgen"
	"vh/oracle"
	"vh/plan"
	"vh/proj"
	"vh/refexec"
	"vh/univ"
	"vh/vfrun"
)

type Case struct {
	Project   string                  `json:"project"`
	Query     string                  `json:"query"`
	OpName    string                  `json:"operation_name,omitempty"`
	Variables map[string]any          `json:"variables,omitempty"`
	PlanSeed  uint64                  `json:"plan_seed"`
	Overrides map[string]plan.Outcome `json:"overrides,omitempty"`
}

var (
	srvMu   sync.Mutex
	servers = map[string][]*proj.Server{}
)

func serversFor(name string) ([]*proj.Server, error) {
	srvMu.Lock()
	defer srvMu.Unlock()
	if s, ok := servers[name]; ok {
		return s, nil
	}
	var out []*proj.Server
	for _, p := range proj.Vectors(name) {
		s, err := p.Build()
		if err != nil {
			return nil, err
		}
		out = append(out, s)
	}
	if len(out) == 0 {
		return nil, fmt.Errorf("no project %q linked", name)
	}
	servers[name] = out
	return out, nil
}

// parse parses and validates; gqlparser decides what a valid operation is.
func parse(schema *ast.Schema, query string) (*ast.QueryDocument, gqlerror.List) {
	doc, err := parser.ParseQuery(&ast.Source{Input: query})
	if err != nil {
		return nil, gqlerror.List{err.(*gqlerror.Error)}
	}
	if errs := validator.Validate(schema, doc); len(errs) > 0 {
		return nil, errs
	}
	return doc, nil
}

func reference(s *proj.Server, c Case, p *plan.Plan) (*refexec.Result, *vfrun.Failure) {
	doc, errs := parse(s.Schema, c.Query)
	if errs != nil {
		return nil, vfrun.Failf("harness.invalid-operation", "%v\n%s", errs, c.Query)
	}
	op := doc.Operations.ForName(c.OpName)
	if op == nil {
		return nil, vfrun.Failf("harness.invalid-operation", "operation %q not found", c.OpName)
	}
	vars, err := validator.VariableValues(s.Schema, op, c.Variables)
	if err != nil {
		return nil, vfrun.Failf("harness.invalid-operation", "variables: %v", err)
	}
	return refexec.Execute(refexec.Config{Schema: s.Schema, Doc: doc, Op: op, Vars: vars, Plan: p, IsResolver: s.U.IsResolver}), nil
}

func check(c Case) *vfrun.Failure {
	srvs, err := serversFor(c.Project)
	if err != nil {
		return vfrun.Failf("harness.no-project", "%v", err)
	}
	p := plan.New(c.PlanSeed)
	for k, v := range c.Overrides {
		p.Overrides[k] = v
	}
	ref, f := reference(srvs[0], c, p)
	if f != nil {
		return f
	}
	var first []byte
	unrep := false
	for i, s := range srvs {
		e := univ.NewExec(p)
		resp := s.Do(context.Background(), e, c.Query, c.OpName, c.Variables)
		if e.Unrepresentable > 0 {
			unrep = true
			continue
		}
		if f := oracle.Compare(s.P.Vec, ref, resp, e.Keys("R"), e.Keys("D")); f != nil {
			return f
		}
		if first == nil {
			first = resp.Data
		} else if !bytes.Equal(first, resp.Data) {
			return vfrun.Failf("exec.vectors-differ", "data bytes differ between %s and %s:\n%s\n%s", srvs[0].P.Vec, srvs[i].P.Vec, first, resp.Data)
		}
	}
	if unrep {
		vfrun.Label("discarded:override-unrepresentable-in-some-vector")
		return nil
	}
	classify(c, ref)
	return nil
}

func classify(c Case, ref *refexec.Result) {
	nontrivial := (ref.FragmentsSeen > 0 || ref.AliasSeen > 0) && ref.NullPropagated > 0
	if ref.PropagatedToRoot {
		vfrun.Label("propagated-to-root")
	}
	if ref.StoppedInList > 0 {
		vfrun.Label("stopped-in-list")
	}
	if ref.ThroughAbstract > 0 {
		vfrun.Label("through-abstract-type")
	}
	if ref.MergedKeys > 0 {
		vfrun.Label("merged-keys")
	}
	if ref.SkipIncludeVar > 0 {
		vfrun.Label("skip-include-by-variable")
	}
	if ref.DirBlocked > 0 {
		vfrun.Label("directive-blocked")
	}
	if ref.NullPropagated > 0 {
		vfrun.Label("null-propagated")
	}
	if len(ref.Errors) > 0 {
		vfrun.Label("with-errors")
	}
	if nontrivial {
		vfrun.Label("nontrivial")
		vfrun.NonTrivial(fmt.Sprintf("%s|%s|%d|%v", c.Project, c.Query, c.PlanSeed, c.Overrides))
	}
	vfrun.SampleCat(c.Project, map[string]any{"case": c, "expected": oracle.Describe(ref)})
}

// candidates enumerates the keys a dry run reaches, for drawing overrides.
type candidate struct {
	Key  string
	Kind string // "R" resolver, "D" directive
}

func gen(t *rapid.T) Case {
	names := proj.Names()
	c := Case{Project: rapid.SampledFrom(names).Draw(t, "project")}
	srvs, err := serversFor(c.Project)
	if err != nil {
		t.Fatalf("harness: %v", err)
	}
	s := srvs[0]
	op := opgen.Generate(t, s.Schema, opgen.Options{Mutation: rapid.IntRange(0, 4).Draw(t, "mutation?") == 0})
	c.Query, c.OpName, c.Variables = op.Query, op.OpName, op.Variables
	c.PlanSeed = rapid.Uint64Range(1, 1<<32).Draw(t, "planseed")
	if _, errs := parse(s.Schema, c.Query); errs != nil {
		vfrun.Label("generated-operation-invalid(dropped)")
		t.Skip("generated operation is not valid: " + errs.Error())
	}
	// dry run with the default plan to learn the reachable keys
	p := plan.New(c.PlanSeed)
	ref, f := reference(s, c, p)
	if f != nil {
		t.Skip(f.Msg)
	}
	var cands []candidate
	seen := map[string]bool{}
	for _, k := range ref.Resolvers {
		if !seen[k] {
			seen[k] = true
			cands = append(cands, candidate{k, "R"})
		}
	}
	for _, k := range ref.Dirs {
		cands = append(cands, candidate{k, "D"})
	}
	sort.Slice(cands, func(i, j int) bool { return cands[i].Key < cands[j].Key })
	n := rapid.IntRange(0, 3).Draw(t, "noverrides")
	for i := 0; i < n && len(cands) > 0; i++ {
		cd := cands[rapid.IntRange(0, len(cands)-1).Draw(t, "which")]
		if c.Overrides == nil {
			c.Overrides = map[string]plan.Outcome{}
		}
		if cd.Kind == "R" {
			switch rapid.IntRange(0, 2).Draw(t, "okind") {
			case 0:
				c.Overrides[cd.Key] = plan.Outcome{Kind: plan.Error, Msg: fmt.Sprintf("boom%d", i)}
			case 1:
				// a nil slice in a non-null list position is gqlgen's empty list, not a null
				if pi := ref.Pos[cd.Key]; pi.NonNull && pi.List {
					c.Overrides[cd.Key] = plan.Outcome{Kind: plan.Error, Msg: fmt.Sprintf("boom%d", i)}
				} else {
					c.Overrides[cd.Key] = plan.Outcome{Kind: plan.Nil}
				}
			default:
				c.Overrides[cd.Key] = plan.Outcome{Kind: plan.Value}
			}
		} else {
			switch rapid.IntRange(0, 1).Draw(t, "dkind") {
			case 0:
				c.Overrides["D:"+cd.Key] = plan.Outcome{Kind: plan.Error, Msg: fmt.Sprintf("denied%d", i)}
			default:
				c.Overrides["D:"+cd.Key] = plan.Outcome{Kind: plan.DirNull}
			}
		}
	}
	return c
}

func TestExec(t *testing.T) {
	vfrun.Run(t, vfrun.Prop[Case]{Property: "C01", Name: "TestExec", Gen: gen, Check: check}, vfrun.N(4000, 400000))
}
