package c01

import (
	"context"
	"fmt"
	"testing"

	"pgregory.net/rapid"

	"vh/kit"
	"vh/opgen"
	"vh/oracle"
	"vh/plan"
	"vh/refexec"
	"vh/univ"
	"vh/vfrun"
)

// A subscription answers every event with the response the execution algorithm prescribes for the
// event's value: the selection of the root field is executed on it (field collection, completion,
// null propagation, errors with paths) - event by event, in order, and then the sequence ends.

type SubCase struct {
	kit.Case
	Events int `json:"events"`
}

func checkSub(c SubCase) *vfrun.Failure {
	srvs, err := kit.Servers(c.Project)
	if err != nil {
		return vfrun.Failf("harness.no-project", "%v", err)
	}
	pr, f := kit.Prepare(srvs[0], c.Case)
	if f != nil {
		return f
	}
	p := c.Case.Plan()
	n := c.Events
	p.Overrides["ev@events"] = plan.Outcome{Kind: plan.Value, Len: &n}
	if _, set := p.Overrides["ev"]; !set {
		// the subscription resolver itself hands out its channel (a nil channel would never deliver)
		p.Overrides["ev"] = plan.Outcome{Kind: plan.Value}
	}
	for _, s := range srvs {
		e := univ.NewExec(p)
		out, rejected := s.DoAll(context.Background(), e, c.Query, c.OpName, c.Variables, 100)
		vfrun.Eval()
		if e.Unrepresentable > 0 {
			vfrun.Label("discarded:override-unrepresentable-in-some-vector")
			continue
		}
		if rejected {
			return vfrun.Failf("exec.valid-operation-rejected", "[%s] %v", s.P.Vec, out[0].Errors)
		}
		if len(out) != n {
			return vfrun.Failf("sub.event-count", "[%s] %d responses for %d events", s.P.Vec, len(out), n)
		}
		for i, resp := range out {
			ref := refexec.ExecuteEvent(refexec.Config{Schema: s.Schema, Doc: pr.Doc, Op: pr.Op, Vars: pr.Vars, Plan: p, IsResolver: s.U.IsResolver}, fmt.Sprintf("ev@%d", i))
			if f := oracle.Compare(fmt.Sprintf("%s event %d of %d", s.P.Vec, i, n), ref, resp, nil, nil); f != nil {
				f.Key = "sub." + f.Key
				return f
			}
			if len(ref.Errors) > 0 {
				vfrun.Label("subscription-event-with-errors")
			}
		}
	}
	vfrun.Label("subscription")
	if n >= 2 {
		vfrun.NonTrivial(fmt.Sprintf("%s|%d|%v|%d", c.Query, c.PlanSeed, c.Overrides, n))
	}
	vfrun.SampleCat("subscription", c)
	return nil
}

func genSub(t *rapid.T) SubCase {
	c := SubCase{Case: kit.Case{Project: "core"}}
	srvs, err := kit.Servers(c.Project)
	if err != nil {
		t.Fatalf("harness: %v", err)
	}
	s := srvs[0]
	op := opgen.GenerateSubscription(t, s.Schema, opgen.Options{MaxFields: 12, MaxDepth: 4}, "tick", "ev")
	c.Query, c.Variables = op.Query, op.Variables
	c.PlanSeed = rapid.Uint64Range(1, 1<<32).Draw(t, "planseed")
	c.Events = rapid.IntRange(0, 4).Draw(t, "events")
	pr, f := kit.Prepare(s, c.Case)
	if f != nil {
		vfrun.Label("generated-operation-invalid(dropped)")
		t.Skip("generated operation is not valid: " + f.Msg)
	}
	// candidates: what event 0 reaches
	ref := refexec.ExecuteEvent(refexec.Config{Schema: s.Schema, Doc: pr.Doc, Op: pr.Op, Vars: pr.Vars, Plan: c.Case.Plan(), IsResolver: s.U.IsResolver}, "ev@0")
	c.Overrides = kit.DrawOverrides(t, kit.Candidates(ref), 3, false)
	return c
}

func TestSubscriptionEvents(t *testing.T) {
	vfrun.Run(t, vfrun.Prop[SubCase]{Property: "C01", Name: "TestSubscriptionEvents", Gen: genSub, Check: checkSub}, vfrun.N(3000, 240000))
}
