package c02

import (
	"context"
	"encoding/json"
	"fmt"
	"reflect"
	"sort"
	"strings"
	"testing"

	"pgregory.net/rapid"

	"vh/kit"
	"vh/plan"
	"vh/proj"
	"vh/univ"
	"vh/vfrun"
)

// Argument and input-field directives are user code between the client's value and the resolver.
// The probe has the field `dirs` whose arguments and input fields carry @chk, and the twin `nodirs`
// with the same shapes and no directive. Checked:
//   - pass-through: with directives that pass, the resolver of dirs receives exactly what the
//     resolver of nodirs receives for the same values (differential, same server);
//   - the directive runs exactly once at every position that carries a value (given, or filled from
//     a default), never at a position that was left out and has no default unless
//     call_argument_directives_with_null is set (then: arguments only), and nowhere else;
//   - a directive that fails (error or panic) fails the field: the resolver is not called, data is
//     null there, exactly one error, at the path of the position the directive guards.

// DVal is a value tree for the dirs arguments: "omit", "null", or a value.
type DVal struct {
	State string           `json:"state"` // omit null value
	Int   int              `json:"int,omitempty"`
	Str   string           `json:"str,omitempty"`
	List  []int            `json:"list,omitempty"`
	Obj   map[string]*DVal `json:"obj,omitempty"`
	Objs  []*DVal          `json:"objs,omitempty"`
	Var   bool             `json:"var,omitempty"` // whole argument passed through a variable
}

type DCase struct {
	Args  map[string]*DVal `json:"args"`
	Fault string           `json:"fault,omitempty"` // "", error, panic
	// FaultAt: index into the sorted list of expected directive invocations
	FaultAt int `json:"fault_at,omitempty"`
}

var dirArgs = []string{"x", "d", "s", "l", "in", "ins", "p"}
var dirTag = map[string]string{"x": "x", "d": "d", "s": "s", "l": "l", "in": "in", "ins": "ins"}
var inFields = []string{"a", "b", "c", "plainField", "inner"}
var inTag = map[string]string{"a": "ia", "b": "ib", "c": "ic", "inner": "iinner"}

func lit(kind string, v *DVal) string {
	switch v.State {
	case "null":
		return "null"
	}
	switch kind {
	case "int":
		return fmt.Sprint(v.Int)
	case "str":
		return fmt.Sprintf("%q", v.Str)
	case "list":
		var xs []string
		for _, n := range v.List {
			xs = append(xs, fmt.Sprint(n))
		}
		return "[" + strings.Join(xs, ", ") + "]"
	case "obj":
		var fs []string
		for _, f := range inFields {
			fv := v.Obj[f]
			if fv == nil || fv.State == "omit" {
				continue
			}
			fs = append(fs, f+": "+lit(fieldKind(f), fv))
		}
		return "{" + strings.Join(fs, ", ") + "}"
	case "objs":
		var xs []string
		for _, o := range v.Objs {
			xs = append(xs, lit("obj", o))
		}
		return "[" + strings.Join(xs, ", ") + "]"
	}
	return "null"
}

func jsonOf(kind string, v *DVal) any {
	if v.State == "null" {
		return nil
	}
	switch kind {
	case "int":
		return v.Int
	case "str":
		return v.Str
	case "list":
		out := []any{}
		for _, n := range v.List {
			out = append(out, n)
		}
		return out
	case "obj":
		m := map[string]any{}
		for _, f := range inFields {
			fv := v.Obj[f]
			if fv == nil || fv.State == "omit" {
				continue
			}
			m[f] = jsonOf(fieldKind(f), fv)
		}
		return m
	case "objs":
		out := []any{}
		for _, o := range v.Objs {
			out = append(out, jsonOf("obj", o))
		}
		return out
	}
	return nil
}

func argKind(a string) string {
	switch a {
	case "x", "d", "p":
		return "int"
	case "s":
		return "str"
	case "l":
		return "list"
	case "in":
		return "obj"
	}
	return "objs"
}

func fieldKind(f string) string {
	switch f {
	case "a", "plainField":
		return "int"
	case "b":
		return "str"
	case "c":
		return "list"
	}
	return "obj"
}

func gqlType(a string, plain bool) string {
	in := "DirIn"
	if plain {
		in = "PlainIn"
	}
	switch a {
	case "x", "d", "p":
		return "Int"
	case "s":
		return "String"
	case "l":
		return "[Int!]"
	case "in":
		return in
	}
	return "[" + in + "!]"
}

// render builds the operation for field dirs or nodirs.
func (c DCase) render(field string) (string, map[string]any) {
	var decls, args []string
	vars := map[string]any{}
	for _, a := range dirArgs {
		v := c.Args[a]
		if v == nil || v.State == "omit" {
			continue
		}
		if v.Var {
			decls = append(decls, fmt.Sprintf("$v_%s: %s", a, gqlType(a, field == "nodirs")))
			vars["v_"+a] = jsonOf(argKind(a), v)
			args = append(args, fmt.Sprintf("%s: $v_%s", a, a))
			continue
		}
		args = append(args, a+": "+lit(argKind(a), v))
	}
	head := "query"
	if len(decls) > 0 {
		head += "(" + strings.Join(decls, ", ") + ")"
	}
	call := field
	if len(args) > 0 {
		call += "(" + strings.Join(args, ", ") + ")"
	}
	return head + " { " + call + " }", vars
}

// expectedInvocations lists the directive keys that must run (must) and those that may (may: the
// positions whose treatment is an option or not documented: explicit nulls, omitted arguments under
// call_argument_directives_with_null).
func (c DCase) expectedInvocations(callWithNull bool) (must []string, may map[string]bool) {
	may = map[string]bool{}
	var obj func(path string, v *DVal)
	obj = func(path string, v *DVal) {
		for _, f := range inFields {
			tag, has := inTag[f]
			fv := v.Obj[f]
			state := "omit"
			if fv != nil {
				state = fv.State
			}
			key := path + "." + f + "@Chk:" + tag
			switch {
			case state == "value":
				if has {
					must = append(must, key)
				}
				if f == "inner" {
					obj(path+"."+f, fv)
				}
			case state == "null":
				if has {
					may[key] = true
				}
			case state == "omit" && f == "b":
				must = append(must, key) // filled from the default
			}
		}
	}
	for _, a := range dirArgs {
		tag, has := dirTag[a]
		v := c.Args[a]
		state := "omit"
		if v != nil {
			state = v.State
		}
		key := "dirs." + a + "@Chk:" + tag
		switch {
		case state == "value":
			if has {
				must = append(must, key)
			}
			if a == "in" {
				obj("dirs.in", v)
			}
			if a == "ins" {
				for i, o := range v.Objs {
					obj(fmt.Sprintf("dirs.ins[%d]", i), o)
				}
			}
		case state == "null":
			if has {
				may[key] = true
			}
		case state == "omit" && (a == "d" || a == "s"):
			must = append(must, key) // filled from the default
		case state == "omit" && has && callWithNull:
			may[key] = true
		}
	}
	sort.Strings(must)
	return must, may
}

func runDirs(s *proj.Server, q string, vars map[string]any, p *plan.Plan) (*proj.Response, *univ.Exec) {
	e := univ.NewExec(p)
	e.RecordArgs = true
	var v map[string]any
	if len(vars) > 0 {
		b, _ := json.Marshal(vars)
		dec := json.NewDecoder(strings.NewReader(string(b)))
		dec.UseNumber()
		_ = dec.Decode(&v)
	}
	return s.Do(context.Background(), e, q, "", v), e
}

func checkDirs(c DCase) *vfrun.Failure {
	srvs, err := kit.Servers("inputs")
	if err != nil {
		return vfrun.Failf("harness.no-project", "%v", err)
	}
	for _, s := range srvs {
		callWithNull := s.P.Options["call_argument_directives_with_null"] == "true"
		qd, vd := c.render("dirs")
		qp, vp := c.render("nodirs")
		must, may := c.expectedInvocations(callWithNull)
		desc := fmt.Sprintf("[%s call_argument_directives_with_null=%v] %s variables %v", s.P.Vec, callWithNull, qd, vd)
		// the twin without directives
		rp, ep := runDirs(s, qp, vp, plan.New(1))
		vfrun.Eval()
		if rp.Rejected || len(rp.Errors) > 0 || rp.Panic != nil {
			return vfrun.Failf("harness.bad-case", "%s: the directive-free twin %s fails: %v %v", desc, qp, rp.Errors, rp.Panic)
		}
		var plainArgs any
		for _, ev := range ep.Events() {
			if ev.Kind == "R" && ev.Key == "nodirs" {
				plainArgs = ev.Args
			}
		}
		p := plan.New(1)
		faultKey := ""
		if c.Fault != "" && len(must) > 0 {
			faultKey = must[c.FaultAt%len(must)]
			k := plan.Error
			if c.Fault == "panic" {
				k = plan.Panic
			}
			p.Overrides["D:"+faultKey] = plan.Outcome{Kind: k, Msg: "chk!"}
		}
		rd, ed := runDirs(s, qd, vd, p)
		if rd.Panic != nil {
			return vfrun.Failf("coerce.panic-in-gqlgen", "%s: %v\n%s", desc, rd.Panic, rd.PanicStack)
		}
		if rd.Rejected {
			return vfrun.Failf("coerce.valid-input-rejected", "%s: %v", desc, rd.Errors)
		}
		got := ed.Keys("D")
		calls := 0
		var dirArgsSeen any
		for _, ev := range ed.Events() {
			if ev.Kind == "R" && ev.Key == "dirs" {
				calls++
				dirArgsSeen = ev.Args
			}
		}
		if faultKey == "" {
			// every position with a value: exactly once; nothing outside must+may; may at most once
			cnt := map[string]int{}
			for _, k := range got {
				cnt[k]++
			}
			for _, k := range must {
				if cnt[k] != 1 {
					return vfrun.Failf("inputdir.invocations", "%s: directive %s ran %d times, want once; all invocations %v", desc, k, cnt[k], got)
				}
			}
			mustSet := map[string]bool{}
			for _, k := range must {
				mustSet[k] = true
			}
			for k, n := range cnt {
				if !mustSet[k] && !(may[k] && n == 1) {
					return vfrun.Failf("inputdir.invocations", "%s: directive %s ran %d times at a position that carries no value; expected %v (optional %v)", desc, k, n, must, may)
				}
			}
			if len(rd.Errors) > 0 || calls != 1 {
				return vfrun.Failf("inputdir.pass-through-failed", "%s: passing directives, yet errors %v and %d resolver calls", desc, rd.Errors, calls)
			}
			if !reflect.DeepEqual(convert(dirArgsSeen), convert(plainArgs)) {
				return vfrun.Failf("inputdir.value-changed", "%s: the resolver received %v, the directive-free twin received %v", desc, dirArgsSeen, plainArgs)
			}
			vfrun.Label("inputdir:pass-through")
			if len(must) >= 3 {
				vfrun.NonTrivial(qd + fmt.Sprint(vd))
			}
			continue
		}
		// one directive fails
		pos := faultKey[:strings.Index(faultKey, "@")]
		if calls != 0 {
			return vfrun.Failf("inputdir.resolver-called-after-directive-failed", "%s: directive %s failed (%s) but the resolver was called with %v", desc, faultKey, c.Fault, dirArgsSeen)
		}
		if len(rd.Errors) != 1 {
			return vfrun.Failf("inputdir.error-count", "%s: directive %s failed (%s): %d errors %v", desc, faultKey, c.Fault, len(rd.Errors), rd.Errors)
		}
		// a returned error is stamped with the path of the position; a panic is recovered by the
		// field and carries the field's path
		if gp := rd.Errors[0].Path.String(); gp != pos && !(c.Fault == "panic" && gp == "dirs") {
			return vfrun.Failf("inputdir.error-path", "%s: directive %s failed (%s): the error has path %q, the position it guards is %q", desc, faultKey, c.Fault, gp, pos)
		}
		if string(rd.Data) != `{"dirs":null}` {
			return vfrun.Failf("inputdir.data", "%s: directive %s failed (%s): data %s", desc, faultKey, c.Fault, rd.Data)
		}
		wantRec := 0
		if c.Fault == "panic" {
			wantRec = 1
		}
		if rd.Recovers != wantRec {
			return vfrun.Failf("recover.count", "%s: directive %s failed (%s): recover hook ran %d times", desc, faultKey, c.Fault, rd.Recovers)
		}
		vfrun.Label("inputdir:fault:" + c.Fault)
		vfrun.NonTrivial(qd + fmt.Sprint(vd) + faultKey + c.Fault)
	}
	vfrun.SampleCat("inputdir", c)
	return nil
}

func genDObj(t *rapid.T, depth int) *DVal {
	v := &DVal{State: "value", Obj: map[string]*DVal{}}
	for _, f := range inFields {
		st := rapid.SampledFrom([]string{"omit", "value", "value", "null"}).Draw(t, "fstate")
		if f == "b" && st == "null" {
			st = "omit" // String! cannot be null
		}
		if f == "inner" && (depth >= 2 || st == "value" && rapid.Bool().Draw(t, "noinner")) {
			st = "omit"
		}
		fv := &DVal{State: st}
		if st == "value" {
			switch fieldKind(f) {
			case "int":
				fv.Int = rapid.IntRange(-3, 9).Draw(t, "int")
			case "str":
				fv.Str = rapid.SampledFrom([]string{"", "x", "a b"}).Draw(t, "str")
			case "list":
				fv.List = rapid.SliceOfN(rapid.IntRange(0, 5), 0, 3).Draw(t, "list")
			case "obj":
				fv = genDObj(t, depth+1)
			}
		}
		v.Obj[f] = fv
	}
	return v
}

func genDirs(t *rapid.T) DCase {
	c := DCase{Args: map[string]*DVal{}}
	for _, a := range dirArgs {
		st := rapid.SampledFrom([]string{"omit", "value", "value", "null"}).Draw(t, "state")
		if a == "s" && st == "null" {
			st = "omit" // String! cannot be null
		}
		v := &DVal{State: st}
		if st == "value" {
			switch argKind(a) {
			case "int":
				v.Int = rapid.IntRange(-3, 9).Draw(t, "int")
			case "str":
				v.Str = rapid.SampledFrom([]string{"", "x", "a b"}).Draw(t, "str")
			case "list":
				v.List = rapid.SliceOfN(rapid.IntRange(0, 5), 0, 3).Draw(t, "list")
			case "obj":
				v = genDObj(t, 0)
			case "objs":
				n := rapid.IntRange(0, 3).Draw(t, "nobjs")
				for i := 0; i < n; i++ {
					v.Objs = append(v.Objs, genDObj(t, 1))
				}
			}
		}
		if st != "omit" && a != "s" {
			v.Var = rapid.IntRange(0, 3).Draw(t, "var") == 0
		}
		c.Args[a] = v
	}
	c.Fault = rapid.SampledFrom([]string{"", "", "error", "panic"}).Draw(t, "fault")
	c.FaultAt = rapid.IntRange(0, 30).Draw(t, "faultat")
	return c
}

func TestInputDirectives(t *testing.T) {
	if len(proj.Vectors("inputs")) == 0 {
		t.Skip("inputs probe not linked")
	}
	vfrun.Run(t, vfrun.Prop[DCase]{Property: "C02", Name: "TestInputDirectives", Gen: genDirs, Check: checkDirs}, vfrun.N(3000, 600000))
}
