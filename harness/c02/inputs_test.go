package c02

import (
	"context"
	"encoding/json"
	"fmt"
	"github.com/99designs/gqlgen/graphql/handler"
	"github.com/99designs/gqlgen/graphql/handler/lru"
	"github.com/vektah/gqlparser/v2/gqlerror"
	"math"
	"sort"
	"strconv"
	"strings"
	"sync"
	"testing"
	"vh/hsrv"

	"github.com/vektah/gqlparser/v2/ast"
	"pgregory.net/rapid"

	_ "vh/gen/all"
	"vh/kit"
	"vh/plan"
	"vh/proj"
	rc "vh/refcoerce"
	"vh/univ"
	"vh/vfrun"
)

// InputCase: one root field of the inputs probe called with generated arguments.
type InputCase struct {
	Project string             `json:"project"`
	Field   string             `json:"field"`
	Args    map[string]*rc.Val `json:"args"` // absent = omitted
	Vars    []*rc.VarDef       `json:"vars,omitempty"`
	// ViaPost: the operation travels through the POST transport of a long-lived handler (after a
	// primer request), not through the executor API
	ViaPost bool `json:"via_post,omitempty"`
}

func (c InputCase) render() (query string, varsJSON string) {
	var defs, vals, args []string
	for _, v := range c.Vars {
		d := "$" + v.Name + ": " + v.Type
		if v.Default != nil {
			d += " = " + rc.Literal(v.Default)
		}
		defs = append(defs, d)
		if v.Provided {
			kb, _ := json.Marshal(v.Name)
			vals = append(vals, string(kb)+":"+rc.JSON(v.Value))
		}
	}
	names := make([]string, 0, len(c.Args))
	for k := range c.Args {
		names = append(names, k)
	}
	sort.Strings(names)
	for _, k := range names {
		if c.Args[k] == nil || c.Args[k].Kind == rc.KOmit {
			continue
		}
		args = append(args, k+": "+rc.Literal(c.Args[k]))
	}
	q := "query"
	if len(defs) > 0 {
		q += "(" + strings.Join(defs, ", ") + ")"
	}
	q += " { " + c.Field
	if len(args) > 0 {
		q += "(" + strings.Join(args, ", ") + ")"
	}
	q += " }"
	return q, "{" + strings.Join(vals, ",") + "}"
}

// convert maps univ's markers to refcoerce's.
func convert(v any) any {
	switch x := v.(type) {
	case univ.Omitted:
		return rc.ObservedOmitted{}
	case univ.SetNull:
		return rc.SetNull{}
	case []any:
		out := make([]any, len(x))
		for i := range x {
			out[i] = convert(x[i])
		}
		return out
	case map[string]any:
		out := make(map[string]any, len(x))
		for k, e := range x {
			out[k] = convert(e)
		}
		return out
	}
	return v
}

var postHandlers sync.Map // *proj.Server -> *handler.Server (long-lived: what one request leaves behind the next one would see)

// doPost sends the operation through the POST transport of a long-lived handler, after a primer
// request that carries values for every variable name the generator uses: a transport that let
// anything of one request reach the next would hand those values to variables this request omits.
func doPost(s *proj.Server, e *univ.Exec, query, varsJSON string) *proj.Response {
	hv, ok := postHandlers.Load(s)
	if !ok {
		nh := hsrv.New(s, hsrv.Config{Transports: []string{"post"}})
		// parsed documents are cached, as handler.NewDefaultServer does
		nh.SetQueryCache(lru.New[*ast.QueryDocument](256))
		hv, _ = postHandlers.LoadOrStore(s, nh)
	}
	h := hv.(*handler.Server)
	s.U.SetExec(univ.NewExec(plan.New(1)))
	primer := hsrv.Req{Transport: "post", HasQuery: true, Query: "query($v1: Int, $v2: Int, $v3: Int, $v4: Int, $v5: Int, $v6: Int) { plain }",
		Variables: `{"v1":11,"v2":12,"v3":13,"v4":14,"v5":15,"v6":16}`}
	_ = hsrv.Serve(h, primer.Build())
	r := hsrv.Req{Transport: "post", HasQuery: true, Query: query}
	if strings.TrimSpace(varsJSON) != "{}" && strings.TrimSpace(varsJSON) != "" {
		r.Variables = varsJSON
	}
	// the request is sent twice: what the first answer refused must not be let through by the
	// document cache the second time; the second answer is the one that is judged
	first := univ.NewExec(e.Plan)
	first.RecordArgs = e.RecordArgs
	s.U.SetExec(first)
	_ = hsrv.Serve(h, r.Build())
	s.U.SetExec(e)
	res := hsrv.Serve(h, r.Build())
	out := &proj.Response{Rejected: res.Status != 200}
	var env struct {
		Data   json.RawMessage `json:"data"`
		Errors gqlerror.List   `json:"errors"`
	}
	if err := json.Unmarshal(res.Body, &env); err != nil {
		out.Panic = fmt.Sprintf("answer %d %q is not JSON: %v", res.Status, res.Body, err)
		return out
	}
	out.Data, out.Errors = env.Data, env.Errors
	for _, ge := range env.Errors {
		// the panic inside gqlparser's variable validation (known finding) reaches the client through
		// the handler's recover; the direct path sees it as a panic with this stack
		if strings.Contains(ge.Message, "reflect: call of reflect.Value.Type on zero Value") {
			out.Panic, out.PanicStack = ge.Message, "validator.(*varValidator).validateVarType (as reported through the handler's recover)"
		}
	}
	return out
}

func checkInput(c InputCase) *vfrun.Failure {
	srvs, err := kit.Servers(c.Project)
	if err != nil {
		return vfrun.Failf("harness.no-project", "%v", err)
	}
	query, varsJSON := c.render()
	for _, s := range srvs {
		fd := s.Schema.Query.Fields.ForName(c.Field)
		if fd == nil {
			return vfrun.Failf("harness.bad-case", "no field %s", c.Field)
		}
		co := &rc.Coercer{Schema: s.Schema, Vars: map[string]*rc.VarDef{}}
		for _, v := range c.Vars {
			co.Vars[v.Name] = v
		}
		// variables are coerced first (spec 6.1.2): an invalid variable value fails the request even
		// if it is unused in a way that would matter
		class := rc.Valid
		why := ""
		for _, v := range c.Vars {
			if v.Default != nil {
				// default values are validated statically, used or not
				r := co.Value(parseTypeText(v.Type), v.Default, false)
				if r.Class == rc.Invalid && v.Provided {
					// an unused invalid default: built-in types are caught by validation, custom
					// scalars are not looked at; neither is required nor forbidden
					r.Class = rc.Lenient
				}
				if r.Class > class {
					class, why = r.Class, "default of $"+v.Name+": "+r.Why
				}
			}
			if v.Provided {
				r := co.Value(parseTypeText(v.Type), v.Value, true)
				if r.Class > class {
					class, why = r.Class, "$"+v.Name+": "+r.Why
				}
			} else if v.Default == nil && strings.HasSuffix(v.Type, "!") {
				class, why = rc.Invalid, "$"+v.Name+" required but not provided"
			}
		}
		exp := map[string]any{}
		for _, ad := range fd.Arguments {
			r := co.Position(ad.Type, ad.DefaultValue, c.Args[ad.Name], false)
			if r.Class > class {
				class, why = r.Class, ad.Name+": "+r.Why
			}
			exp[ad.Name] = r.Value
		}
		for k := range c.Args {
			if fd.Arguments.ForName(k) == nil && c.Args[k] != nil && c.Args[k].Kind != rc.KOmit {
				class, why = rc.Invalid, "unknown argument "+k
			}
		}
		// execute
		var vars map[string]any
		dec := json.NewDecoder(strings.NewReader(varsJSON))
		dec.UseNumber()
		if err := dec.Decode(&vars); err != nil {
			return vfrun.Failf("harness.bad-case", "variables %s: %v", varsJSON, err)
		}
		e := univ.NewExec(plan.New(1))
		e.RecordArgs = true
		var resp *proj.Response
		if c.ViaPost {
			resp = doPost(s, e, query, varsJSON)
		} else {
			resp = s.Do(context.Background(), e, query, "", vars)
		}
		vfrun.Eval()
		if resp.Panic != nil {
			key := "coerce.panic-in-gqlgen"
			if strings.Contains(resp.PanicStack, "validator.(*varValidator).validateVarType") && strings.Contains(fmt.Sprint(resp.Panic), "zero Value") {
				key = "coerce.vars-null-element-of-nested-list-panics"
			}
			f := vfrun.Failf(key, "[%s] %s variables %s: panic %v\n%s", s.P.Vec, query, varsJSON, resp.Panic, resp.PanicStack)
			if vfrun.IsKnown(key) {
				continue
			}
			return f
		}
		var call *univ.Event
		ncalls := 0
		for _, ev := range e.Events() {
			if ev.Kind == "R" && ev.Key == c.Field {
				ev := ev
				call = &ev
				ncalls++
			}
		}
		desc := fmt.Sprintf("[%s] %s variables %s (reference: %s %s)", s.P.Vec, query, varsJSON, class, why)
		matchAll := func() error {
			obs, _ := convert(call.Args).(map[string]any)
			for _, ad := range fd.Arguments {
				ov, has := obs[ad.Name]
				if err := rc.Match(exp[ad.Name], ov, has, ad.Name); err != nil {
					return err
				}
			}
			return nil
		}
		errored := len(resp.Errors) > 0
		if a := c.Args["ms"]; c.Field == "mapped" && a != nil && a.Kind != rc.KOmit {
			// known finding: a list of a map-backed input type is bound to the bare map
			f := vfrun.Failf("coerce.map-backed-input-in-list", "%s: errors %v", desc, resp.Errors)
			if class == rc.Valid && (errored || ncalls != 1 || matchAll() != nil) {
				return f
			}
		}
		switch class {
		case rc.Valid:
			if errored || ncalls != 1 {
				key := "coerce.valid-input-rejected"
				return vfrun.Failf(key, "%s: errors %v, resolver calls %d", desc, resp.Errors, ncalls)
			}
			if err := matchAll(); err != nil {
				if co.VarInObject && altMatches(s, c, fd, call) {
					f := vfrun.Failf("coerce.omitted-variable-in-object-literal", "%s: %v", desc, err)
					if !vfrun.IsKnown(f.Key) {
						return f
					}
					continue
				}
				return vfrun.Failf("coerce.value-mismatch", "%s: %v", desc, err)
			}
		case rc.Invalid:
			if ncalls > 0 {
				return vfrun.Failf("coerce.invalid-input-reached-resolver", "%s: the resolver was called with %v", desc, call.Args)
			}
			if !errored {
				return vfrun.Failf("coerce.invalid-input-no-error", "%s: no error reported", desc)
			}
			for _, ge := range resp.Errors {
				if len(ge.Path) > 0 && !resp.Rejected {
					if why := walkErrorPath(co, fd, c, ge.Path); why != "" {
						return vfrun.Failf("coerce.error-path", "%s: error path %q: %s", desc, ge.Path.String(), why)
					}
					vfrun.Label("input:error-path-checked")
					for _, seg := range ge.Path {
						if ix, ok := seg.(ast.PathIndex); ok && ix > 0 {
							vfrun.Label("input:error-path-checked:element>=1")
							break
						}
					}
				}
			}
		case rc.Lenient:
			if errored {
				if ncalls > 0 {
					return vfrun.Failf("coerce.error-and-resolver-called", "%s: errors %v and the resolver was called", desc, resp.Errors)
				}
			} else {
				if ncalls != 1 {
					return vfrun.Failf("coerce.no-error-no-call", "%s: neither an error nor a resolver call", desc)
				}
				if err := matchAll(); err != nil {
					if co.VarInObject && altMatches(s, c, fd, call) {
						f := vfrun.Failf("coerce.omitted-variable-in-object-literal", "%s: %v", desc, err)
						if !vfrun.IsKnown(f.Key) {
							return f
						}
						continue
					}
					return vfrun.Failf("coerce.number-changed", "%s: accepted, but %v", desc, err)
				}
			}
		}
		vfrun.Label("input:" + class.String())
		if c.ViaPost {
			vfrun.Label("input:via-post-transport")
		}
		nt := false
		for name, on := range map[string]bool{"uses-default": co.UsedDefault, "omitted-vs-null": co.OmitVsNull, "list-coercion": co.ListCoerced, "enum-or-custom-scalar": co.EnumOrCustom, "rejected": class == rc.Invalid} {
			if on {
				vfrun.Label("input:" + name)
				nt = true
			}
		}
		if nt {
			vfrun.NonTrivial(query + "|" + varsJSON)
		}
		vfrun.SampleCat("input-"+class.String(), map[string]any{"query": query, "variables": varsJSON, "class": class.String(), "why": why})
	}
	return nil
}

// walkErrorPath: an execution-phase coercion error names "the argument's path": the field, then the
// argument, then a position inside the value that was sent (after variable substitution and
// defaults). Every segment has to exist in that value (an index inside a list of that length, a
// field of the input object at that position) and what stands at the end of the path has to be
// something the reference does not accept. Returns "" when the path is such a position.
func walkErrorPath(co *rc.Coercer, fd *ast.FieldDefinition, c InputCase, path ast.Path) string {
	if n, ok := path[0].(ast.PathName); !ok || string(n) != c.Field {
		return "does not start at the field"
	}
	if len(path) == 1 {
		return ""
	}
	an, ok := path[1].(ast.PathName)
	if !ok {
		return "second segment is not an argument name"
	}
	ad := fd.Arguments.ForName(string(an))
	if ad == nil {
		return fmt.Sprintf("%s is not an argument of the field", an)
	}
	t := ad.Type
	resolve := func(v *rc.Val, def *ast.Value) *rc.Val {
		for hops := 0; v != nil && v.Kind == rc.KVar && hops < 4; hops++ {
			vd := co.Vars[v.S]
			switch {
			case vd == nil:
				v = nil
			case vd.Provided:
				v = vd.Value
			case vd.Default != nil:
				v = vd.Default
			default:
				v = nil
			}
		}
		if v == nil || v.Kind == rc.KOmit {
			if def != nil {
				return rc.AstToVal(def)
			}
			return nil
		}
		return v
	}
	v := resolve(c.Args[ad.Name], ad.DefaultValue)
	for i, seg := range path[2:] {
		if v == nil || v.Kind == rc.KNull {
			return fmt.Sprintf("segment %d (%v) lies below a position that is null or was not provided", i+2, seg)
		}
		switch sg := seg.(type) {
		case ast.PathIndex:
			if t.Elem == nil {
				return fmt.Sprintf("segment %d is an index but the position has type %s", i+2, t.String())
			}
			if v.Kind != rc.KList {
				// a single value standing for a list of one
				if sg != 0 {
					return fmt.Sprintf("segment %d is index %d of a single value", i+2, int(sg))
				}
				t = t.Elem
				continue
			}
			if int(sg) >= len(v.Items) {
				return fmt.Sprintf("segment %d is index %d of a list of %d", i+2, int(sg), len(v.Items))
			}
			t, v = t.Elem, resolve(v.Items[int(sg)], nil)
		case ast.PathName:
			def := co.Schema.Types[t.Name()]
			if t.Elem != nil || def == nil || def.Kind != ast.InputObject {
				return fmt.Sprintf("segment %d is a field name but the position has type %s", i+2, t.String())
			}
			f := def.Fields.ForName(string(sg))
			if f == nil {
				return fmt.Sprintf("%s has no field %s", def.Name, sg)
			}
			if v.Kind != rc.KObject {
				return fmt.Sprintf("segment %d is a field name but the value there is a %s", i+2, v.Kind)
			}
			var fv *rc.Val
			for j, k := range v.Keys {
				if k == string(sg) {
					fv = v.Fields[j]
				}
			}
			t, v = f.Type, resolve(fv, f.DefaultValue)
		}
	}
	return ""
}

// altMatches: does the observation equal what results when an unprovided variable inside an object
// literal is taken as an explicit null (gqlparser's ast.Value.Value does that)? Then the mismatch
// is exactly the known finding and nothing else.
func altMatches(s *proj.Server, c InputCase, fd *ast.FieldDefinition, call *univ.Event) bool {
	co := &rc.Coercer{Schema: s.Schema, Vars: map[string]*rc.VarDef{}, UnprovidedVarInObjectIsNull: true}
	for _, v := range c.Vars {
		co.Vars[v.Name] = v
	}
	obs, _ := convert(call.Args).(map[string]any)
	for _, ad := range fd.Arguments {
		r := co.Position(ad.Type, ad.DefaultValue, c.Args[ad.Name], false)
		if r.Class == rc.Invalid {
			return false
		}
		ov, has := obs[ad.Name]
		if rc.Match(r.Value, ov, has, ad.Name) != nil {
			return false
		}
	}
	return true
}

func parseTypeText(s string) *ast.Type {
	s = strings.TrimSpace(s)
	nn := strings.HasSuffix(s, "!")
	if nn {
		s = s[:len(s)-1]
	}
	if strings.HasPrefix(s, "[") {
		return &ast.Type{Elem: parseTypeText(s[1 : len(s)-1]), NonNull: nn}
	}
	return &ast.Type{NamedType: s, NonNull: nn}
}

// ---------------------------------------------------------------------------------------------
// generator

type igen struct {
	inList int
	noVars bool // while drawing default values
	t      *rapid.T
	schema *ast.Schema
	vars   []*rc.VarDef
	budget int
}

var intTexts = []string{"0", "1", "-1", "7", "42", "2147483647", "-2147483648", "2147483648", "-2147483649", "4294967295", "4294967296", "9223372036854775807", "-9223372036854775808", "9223372036854775808", "18446744073709551615", "99999999999999999999"}

func (g *igen) intVal() *rc.Val {
	if rapid.Bool().Draw(g.t, "smallint") {
		return &rc.Val{Kind: rc.KInt, I: strconv.Itoa(rapid.IntRange(-100, 100).Draw(g.t, "int"))}
	}
	return &rc.Val{Kind: rc.KInt, I: rapid.SampledFrom(intTexts).Draw(g.t, "intb")}
}

func (g *igen) wrongKind(inVar bool) *rc.Val {
	switch rapid.IntRange(0, 4).Draw(g.t, "wrong") {
	case 0:
		return &rc.Val{Kind: rc.KString, S: rapid.SampledFrom([]string{"abc", "12", "", "1.5", "RED"}).Draw(g.t, "ws")}
	case 1:
		return &rc.Val{Kind: rc.KFloat, F: rapid.SampledFrom([]float64{1.5, -0.25, 1e3, 5, 1e30}).Draw(g.t, "wf")}
	case 2:
		return &rc.Val{Kind: rc.KBool, B: true}
	case 3:
		return &rc.Val{Kind: rc.KObject}
	default:
		return g.intVal()
	}
}

// val draws a value for type t. okOnly avoids deliberately invalid shapes.
func (g *igen) val(t *ast.Type, depth int, inVar, okOnly bool) *rc.Val {
	return g.val2(t, depth, inVar, okOnly, false)
}

// val2: noVar forbids a variable reference at this very position.
func (g *igen) val2(t *ast.Type, depth int, inVar, okOnly, noVar bool) *rc.Val {
	g.budget--
	if !t.NonNull && rapid.IntRange(0, 7).Draw(g.t, "null?") == 0 {
		if inVar && t.Elem != nil && g.inList > 0 && vfrun.KnownListed("coerce.vars-null-element-of-nested-list-panics") {
			// known finding: a null element where a list is expected inside a variable panics in
			// gqlparser's VariableValues; excluded by construction
			vfrun.Label("excluded-by-construction:coerce.vars-null-element-of-nested-list-panics")
		} else {
			return &rc.Val{Kind: rc.KNull}
		}
	}
	if !okOnly && rapid.IntRange(0, 24).Draw(g.t, "bad?") == 0 {
		if t.NonNull && rapid.Bool().Draw(g.t, "badnull") {
			return &rc.Val{Kind: rc.KNull}
		}
		return g.wrongKind(inVar)
	}
	if !inVar && !noVar && !g.noVars && depth > 0 && rapid.IntRange(0, 9).Draw(g.t, "var?") == 0 {
		return g.variable(t, depth)
	}
	if t.Elem != nil {
		if rapid.IntRange(0, 3).Draw(g.t, "single?") == 0 && depth < 4 {
			// single value in a list position (variables inside would be used at a position whose
			// type differs from their declared type, which validation rejects)
			saved := g.noVars
			g.noVars = true
			v := g.val2(t.Elem, depth+1, inVar, okOnly, true)
			g.noVars = saved
			return v
		}
		n := rapid.IntRange(0, 3).Draw(g.t, "len")
		out := &rc.Val{Kind: rc.KList}
		g.inList++
		for i := 0; i < n; i++ {
			out.Items = append(out.Items, g.val(t.Elem, depth+1, inVar, okOnly))
		}
		g.inList--
		return out
	}
	def := g.schema.Types[t.NamedType]
	switch def.Kind {
	case ast.Enum:
		name := def.EnumValues[rapid.IntRange(0, len(def.EnumValues)-1).Draw(g.t, "ev")].Name
		if !okOnly && rapid.IntRange(0, 11).Draw(g.t, "badenum") == 0 {
			name = rapid.SampledFrom([]string{"PURPLE", "red", "Red"}).Draw(g.t, "badname")
		}
		if inVar {
			return &rc.Val{Kind: rc.KString, S: name}
		}
		return &rc.Val{Kind: rc.KEnum, S: name}
	case ast.InputObject:
		out := &rc.Val{Kind: rc.KObject}
		for _, fd := range def.Fields {
			required := fd.Type.NonNull && fd.DefaultValue == nil
			omitP := 2
			if fd.Name == "rec" || depth >= 3 || g.budget < 0 {
				omitP = 12
			}
			if !required && rapid.IntRange(0, omitP).Draw(g.t, "omitf") != 0 {
				continue
			}
			if required && !okOnly && rapid.IntRange(0, 19).Draw(g.t, "omitreq") == 0 {
				continue
			}
			out.Keys = append(out.Keys, fd.Name)
			out.Fields = append(out.Fields, g.val(fd.Type, depth+1, inVar, okOnly))
		}
		if !okOnly && rapid.IntRange(0, 29).Draw(g.t, "unknownf") == 0 {
			out.Keys = append(out.Keys, "nope")
			out.Fields = append(out.Fields, &rc.Val{Kind: rc.KInt, I: "1"})
		}
		return out
	}
	switch t.NamedType {
	case "Int", "Int32", "Int64", "Uint", "Uint32":
		if !okOnly && inVar && rapid.IntRange(0, 9).Draw(g.t, "strnum") == 0 {
			return &rc.Val{Kind: rc.KString, S: rapid.SampledFrom([]string{"12", "-3", "4294967296", "007"}).Draw(g.t, "sn")}
		}
		return g.intVal()
	case "Float":
		if rapid.Bool().Draw(g.t, "floatint") {
			return g.intVal()
		}
		return &rc.Val{Kind: rc.KFloat, F: rapid.SampledFrom([]float64{0.5, -1.25, 1e10, 1e-7, 3, 123456.789, math.MaxFloat64}).Draw(g.t, "fl")}
	case "String":
		return &rc.Val{Kind: rc.KString, S: rapid.SampledFrom([]string{"", "a", "x\"y", "line\nbreak", "é😀", "\\"}).Draw(g.t, "str")}
	case "Boolean":
		return &rc.Val{Kind: rc.KBool, B: rapid.Bool().Draw(g.t, "bool")}
	case "ID":
		if rapid.Bool().Draw(g.t, "idint") {
			return &rc.Val{Kind: rc.KInt, I: strconv.Itoa(rapid.IntRange(0, 1000).Draw(g.t, "idn"))}
		}
		return &rc.Val{Kind: rc.KString, S: rapid.SampledFrom([]string{"id1", "", "42"}).Draw(g.t, "ids")}
	}
	return &rc.Val{Kind: rc.KNull}
}

// variable declares a variable of (about) type t and returns the reference.
func (g *igen) variable(t *ast.Type, depth int) *rc.Val {
	name := fmt.Sprintf("v%d", len(g.vars)+1)
	vd := &rc.VarDef{Name: name, Type: t.String()}
	g.vars = append(g.vars, vd) // reserve the name before nested values declare their own
	switch rapid.IntRange(0, 4).Draw(g.t, "varmode") {
	case 0, 1: // provided
		vd.Provided = true
		vd.Value = g.val(t, depth+1, true, false)
	case 2: // provided, with an unused default
		vd.Provided = true
		vd.Value = g.val(t, depth+1, true, false)
		if !t.NonNull {
			g.noVars = true
			vd.Default = g.val(t, depth+1, false, true)
			g.noVars = false
		}
	case 3: // not provided, default used
		if t.NonNull {
			vd.Type = strings.TrimSuffix(vd.Type, "!")
		}
		nt := *t
		nt.NonNull = t.NonNull // a nullable variable may stand in a non-null position only with a non-null default
		g.noVars = true
		vd.Default = g.val(&nt, depth+1, false, true)
		g.noVars = false
	default: // not provided, no default (a required variable that is missing is an invalid request)
	}
	return &rc.Val{Kind: rc.KVar, S: name}
}

// stripVars replaces variable references (not allowed in default values) by null.
func stripVars(v *rc.Val) *rc.Val {
	if v == nil {
		return nil
	}
	if v.Kind == rc.KVar {
		return &rc.Val{Kind: rc.KNull}
	}
	for i := range v.Items {
		v.Items[i] = stripVars(v.Items[i])
	}
	for i := range v.Fields {
		v.Fields[i] = stripVars(v.Fields[i])
	}
	return v
}

func genInput(t *rapid.T) InputCase {
	c := InputCase{Project: "inputs", Args: map[string]*rc.Val{}}
	srvs, err := kit.Servers(c.Project)
	if err != nil {
		t.Fatalf("harness: %v", err)
	}
	s := srvs[0]
	c.Field = rapid.SampledFrom([]string{"scalars", "lists", "obj", "objs", "mapped"}).Draw(t, "field")
	fd := s.Schema.Query.Fields.ForName(c.Field)
	g := &igen{t: t, schema: s.Schema, budget: 40}
	for _, ad := range fd.Arguments {
		required := ad.Type.NonNull && ad.DefaultValue == nil
		if !required && rapid.IntRange(0, 2).Draw(t, "omitarg") != 0 {
			continue
		}
		if c.Field == "mapped" && ad.Name == "ms" && vfrun.KnownListed("coerce.map-backed-input-in-list") {
			vfrun.Label("excluded-by-construction:coerce.map-backed-input-in-list")
			continue
		}
		if rapid.IntRange(0, 3).Draw(t, "argvar") == 0 {
			c.Args[ad.Name] = g.variable(ad.Type, 0)
		} else {
			c.Args[ad.Name] = g.val(ad.Type, 0, false, false)
		}
	}
	c.Vars = g.vars
	c.ViaPost = rapid.IntRange(0, 2).Draw(t, "viapost") == 0
	return c
}

func TestInputs(t *testing.T) {
	if len(proj.Vectors("inputs")) == 0 {
		t.Skip("inputs probe not linked")
	}
	vfrun.Run(t, vfrun.Prop[InputCase]{Property: "C02", Name: "TestInputs", Gen: genInput, Check: checkInput}, vfrun.N(6000, 1200000))
}
