package c02

import (
	"encoding/json"
	"fmt"
	"math"
	"math/big"
	"regexp"
	"strconv"
	"testing"

	"github.com/99designs/gqlgen/graphql"
	"pgregory.net/rapid"

	"vh/vfrun"
)

// ScalarCase: one decoded input value handed to one built-in unmarshaler. Form says which Go type
// carries it (the forms transports and gqlparser deliver: int64 for literals, json.Number for
// variables, plus int, float64 and string).
type ScalarCase struct {
	Fn   string `json:"fn"`
	Form string `json:"form"` // int int64 int32 uint32 uint64 float64 number string
	Text string `json:"text"` // decimal text of the value
}

var plainNumber = regexp.MustCompile(`^-?[0-9]+(\.[0-9]+)?([eE][+-]?[0-9]+)?$`)

var scalarFns = []string{"Int", "Int32", "Int64", "Uint", "Uint32", "Uint64", "IntID", "UintID", "Float"}

var numberTexts = []string{"0", "1", "-1", "-0", "+1", "2147483647", "2147483648", "-2147483648", "-2147483649", "4294967295", "4294967296",
	"9223372036854775807", "9223372036854775808", "-9223372036854775808", "-9223372036854775809", "18446744073709551615", "18446744073709551616",
	"9007199254740993", "1.5", "-1.5", "1.0", "1e3", "1E3", "1e-3", "0.1", "1e400", "007", "0x10", "1_000", " 1", "1 ", "", "abc", "NaN", "Inf", "-Inf", "1e", ".5", "5."}

func genNumberText(t *rapid.T) string {
	switch rapid.IntRange(0, 3).Draw(t, "how") {
	case 0:
		return rapid.SampledFrom(numberTexts).Draw(t, "text")
	case 1:
		return strconv.FormatInt(rapid.Int64().Draw(t, "i64"), 10)
	case 2:
		b := rapid.SampledFrom([]int64{0, math.MaxInt8, math.MinInt8, math.MaxInt16, math.MaxUint16, math.MaxInt32, math.MinInt32, math.MaxUint32, math.MaxInt64, math.MinInt64, 1 << 53}).Draw(t, "b")
		d := int64(rapid.IntRange(-2, 2).Draw(t, "d"))
		r := new(big.Int).Add(big.NewInt(b), big.NewInt(d))
		return r.String()
	default:
		return strconv.FormatFloat(rapid.Float64().Draw(t, "f"), rapid.SampledFrom([]byte{'g', 'f', 'e'}).Draw(t, "fmt"), -1, 64)
	}
}

// carrier builds the Go value of the given form for the text; ok=false when the form cannot carry it.
func carrier(form, text string) (v any, exact *big.Rat, ok bool) {
	switch form {
	case "number":
		// what encoding/json's UseNumber hands over: only valid JSON numbers
		var n json.Number
		if err := json.Unmarshal([]byte(text), &n); err != nil {
			return nil, nil, false
		}
		r, okr := new(big.Rat).SetString(text)
		if !okr {
			return nil, nil, false
		}
		return n, r, true
	case "string":
		r, okr := new(big.Rat).SetString(text)
		if !okr {
			r = nil
		}
		if text != "" && (text[0] == '+' || text[len(text)-1] == '.' || text[0] == '.') {
			// forms strconv accepts in some functions but that are no plain numbers
			r2, ok2 := new(big.Rat).SetString(text)
			if ok2 {
				r = r2
			}
		}
		return text, r, true
	case "float64":
		f, err := strconv.ParseFloat(text, 64)
		if err != nil || math.IsInf(f, 0) || math.IsNaN(f) {
			return nil, nil, false
		}
		return f, new(big.Rat).SetFloat64(f), true
	}
	i, err := strconv.ParseInt(text, 10, 64)
	u, uerr := strconv.ParseUint(text, 10, 64)
	switch form {
	case "int":
		if err != nil {
			return nil, nil, false
		}
		return int(i), new(big.Rat).SetInt64(i), true
	case "int64":
		if err != nil {
			return nil, nil, false
		}
		return i, new(big.Rat).SetInt64(i), true
	case "int32":
		if err != nil || i > math.MaxInt32 || i < math.MinInt32 {
			return nil, nil, false
		}
		return int32(i), new(big.Rat).SetInt64(i), true
	case "uint32":
		if uerr != nil || u > math.MaxUint32 {
			return nil, nil, false
		}
		return uint32(u), new(big.Rat).SetUint64(u), true
	case "uint64":
		if uerr != nil {
			return nil, nil, false
		}
		return u, new(big.Rat).SetUint64(u), true
	}
	return nil, nil, false
}

func callUnmarshal(fn string, v any) (res *big.Rat, isFloat bool, f float64, err error) {
	switch fn {
	case "Int":
		r, e := graphql.UnmarshalInt(v)
		return new(big.Rat).SetInt64(int64(r)), false, 0, e
	case "Int32":
		r, e := graphql.UnmarshalInt32(v)
		return new(big.Rat).SetInt64(int64(r)), false, 0, e
	case "Int64":
		r, e := graphql.UnmarshalInt64(v)
		return new(big.Rat).SetInt64(r), false, 0, e
	case "Uint":
		r, e := graphql.UnmarshalUint(v)
		return new(big.Rat).SetUint64(uint64(r)), false, 0, e
	case "Uint32":
		r, e := graphql.UnmarshalUint32(v)
		return new(big.Rat).SetUint64(uint64(r)), false, 0, e
	case "Uint64":
		r, e := graphql.UnmarshalUint64(v)
		return new(big.Rat).SetUint64(r), false, 0, e
	case "IntID":
		r, e := graphql.UnmarshalIntID(v)
		return new(big.Rat).SetInt64(int64(r)), false, 0, e
	case "UintID":
		r, e := graphql.UnmarshalUintID(v)
		return new(big.Rat).SetUint64(uint64(r)), false, 0, e
	case "Float":
		r, e := graphql.UnmarshalFloat(v)
		if e == nil && !math.IsInf(r, 0) && !math.IsNaN(r) {
			return new(big.Rat).SetFloat64(r), true, r, nil
		}
		if e == nil {
			return nil, true, r, nil
		}
		return nil, true, r, e
	}
	return nil, false, 0, fmt.Errorf("unknown fn")
}

func checkScalar(c ScalarCase) *vfrun.Failure {
	v, exact, ok := carrier(c.Form, c.Text)
	if !ok {
		vfrun.Label("scalar:form-cannot-carry(skipped)")
		return nil
	}
	res, isFloat, f, err := callUnmarshal(c.Fn, v)
	vfrun.Label("scalar:" + c.Fn + ":" + c.Form)
	if err != nil {
		vfrun.Label("scalar:rejected")
		vfrun.NonTrivial(fmt.Sprintf("%s|%s|%s", c.Fn, c.Form, c.Text))
		return nil // "equal or error"
	}
	if c.Form == "string" && !plainNumber.MatchString(c.Text) {
		// gqlgen is documented to be lenient with string-encoded numbers; what strconv additionally
		// accepts ("+1", "NaN", "0x1p-2", "1_000") is neither required nor forbidden
		vfrun.Label("scalar:lenient-string-form")
		return nil
	}
	if exact == nil {
		// not a number at all and still accepted
		return vfrun.Failf("coerce.non-number-accepted", "Unmarshal%s(%#v) = %v without error", c.Fn, v, res)
	}
	if isFloat {
		if res == nil {
			return vfrun.Failf("coerce.float-nonfinite", "UnmarshalFloat(%#v) = %v without error", v, f)
		}
		want, _ := exact.Float64()
		if want != f && !(math.IsInf(want, 0)) {
			return vfrun.Failf("coerce.number-changed", "UnmarshalFloat(%#v) = %v, nearest float64 of the input is %v", v, f, want)
		}
		if math.IsInf(want, 0) {
			return vfrun.Failf("coerce.number-changed", "UnmarshalFloat(%#v) = %v although the input is out of range", v, f)
		}
		return nil
	}
	if res.Cmp(exact) != 0 {
		key := "coerce.number-changed"
		if c.Fn == "UintID" && exact.Sign() < 0 {
			key = "coerce.uintid-sign"
		}
		return vfrun.Failf(key, "Unmarshal%s(%T %v) = %s, a different number (no error)", c.Fn, v, v, res.RatString())
	}
	vfrun.Label("scalar:accepted-equal")
	return nil
}

func TestScalars(t *testing.T) {
	vfrun.Run(t, vfrun.Prop[ScalarCase]{Property: "C02", Name: "TestScalars",
		Gen: func(t *rapid.T) ScalarCase {
			c := ScalarCase{
				Fn:   rapid.SampledFrom(scalarFns).Draw(t, "fn"),
				Form: rapid.SampledFrom([]string{"int", "int64", "number", "number", "string", "float64", "int32", "uint32", "uint64"}).Draw(t, "form"),
				Text: genNumberText(t),
			}
			vfrun.SampleCat("scalar", c)
			return c
		},
		Check: checkScalar}, vfrun.N(30000, 2000000))
}
