package c03

import (
	"bytes"
	"context"
	"encoding/json"
	"fmt"
	"io"
	"mime"
	"mime/multipart"
	"net/http/httptest"
	"net/url"
	"os"
	"sort"
	"strings"
	"sync"
	"testing"

	"github.com/99designs/gqlgen/graphql"
	"github.com/99designs/gqlgen/graphql/executor"
	"github.com/99designs/gqlgen/graphql/handler"
	"github.com/99designs/gqlgen/graphql/handler/lru"
	"github.com/99designs/gqlgen/graphql/handler/transport"
	"github.com/vektah/gqlparser/v2/ast"
	"github.com/vektah/gqlparser/v2/gqlerror"
	"github.com/vektah/gqlparser/v2/parser"
	"pgregory.net/rapid"

	"vh/kit"
	"vh/opgen"
	"vh/plan"
	"vh/proj"
	"vh/univ"
	"vh/vfrun"
)

type ExtSpec struct {
	Kind         string `json:"kind"`
	RejectParams bool   `json:"reject_params,omitempty"`
	RejectCtx    bool   `json:"reject_ctx,omitempty"`
}

type Request struct {
	Query     string         `json:"query"`
	OpName    string         `json:"operation_name,omitempty"`
	Variables map[string]any `json:"variables,omitempty"`
	// Invalid: how the generator damaged the request ("" = valid). Known by construction.
	Invalid string `json:"invalid,omitempty"`
}

type Case struct {
	Exts       []ExtSpec `json:"extensions"`
	Cache      string    `json:"cache"` // none map lru2 lru1000
	Requests   []Request `json:"requests"`
	Goroutines int       `json:"goroutines"` // 0/1 = sequential
	// Via: "" = the executor API directly; "post" = handler.Server with the POST transport, each
	// request a JSON body that leaves out the members it does not need (operationName, variables)
	Via string `json:"via,omitempty"`
}

type mutexCache struct {
	mu sync.Mutex
	m  graphql.MapCache[*ast.QueryDocument]
}

func (c *mutexCache) Get(ctx context.Context, k string) (*ast.QueryDocument, bool) {
	c.mu.Lock()
	defer c.mu.Unlock()
	return c.m.Get(ctx, k)
}
func (c *mutexCache) Add(ctx context.Context, k string, v *ast.QueryDocument) {
	c.mu.Lock()
	defer c.mu.Unlock()
	c.m.Add(ctx, k, v)
}

var suggestOff = os.Getenv("VF_C03_MODE") == "suggest-off"

func build(s *proj.Server, c Case) *executor.Executor {
	ex := executor.New(s.ES)
	switch c.Cache {
	case "map":
		ex.SetQueryCache(&mutexCache{m: graphql.MapCache[*ast.QueryDocument]{}})
	case "lru2":
		ex.SetQueryCache(lru.New[*ast.QueryDocument](2))
	case "lru1000":
		ex.SetQueryCache(lru.New[*ast.QueryDocument](1000))
	}
	if suggestOff {
		ex.SetDisableSuggestion(true)
	}
	for i, es := range c.Exts {
		ex.Use(newExt(es.Kind, &base{id: i, rejectParams: es.RejectParams, rejectCtx: es.RejectCtx}))
	}
	ex.SetRecoverFunc(func(ctx context.Context, err any) error { return gqlerror.Errorf("%s", proj.RecoverMsg(err)) })
	return ex
}

func buildHTTP(s *proj.Server, c Case) *handler.Server {
	h := handler.New(s.ES)
	// the streaming transports answer requests that ask for them and are registered before POST
	h.AddTransport(transport.SSE{})
	h.AddTransport(transport.MultipartMixed{})
	h.AddTransport(transport.GET{})
	h.AddTransport(transport.POST{})
	switch c.Cache {
	case "map":
		h.SetQueryCache(&mutexCache{m: graphql.MapCache[*ast.QueryDocument]{}})
	case "lru2":
		h.SetQueryCache(lru.New[*ast.QueryDocument](2))
	case "lru1000":
		h.SetQueryCache(lru.New[*ast.QueryDocument](1000))
	}
	if suggestOff {
		h.SetDisableSuggestion(true)
	}
	for i, es := range c.Exts {
		h.Use(newExt(es.Kind, &base{id: i, rejectParams: es.RejectParams, rejectCtx: es.RejectCtx}))
	}
	h.SetRecoverFunc(func(ctx context.Context, err any) error { return gqlerror.Errorf("%s", proj.RecoverMsg(err)) })
	return h
}

// runHTTP sends one request as a POST body; members the request does not need are left out.
func runHTTP(h *handler.Server, r Request, via string) (evs []string, uevents []univ.Event, resp *graphql.Response, rejected bool) {
	l := &reqLog{}
	e := univ.NewExec(plan.New(11))
	ctx := withLog(univ.WithExec(context.Background(), e), l)
	body := map[string]any{"query": r.Query}
	if r.OpName != "" {
		body["operationName"] = r.OpName
	}
	if len(r.Variables) > 0 {
		body["variables"] = r.Variables
	}
	b, _ := json.Marshal(body)
	req := httptest.NewRequest("POST", "/graphql", bytes.NewReader(b)).WithContext(ctx)
	req.Header.Set("Content-Type", "application/json")
	switch via {
	case "sse":
		req.Header.Set("Accept", "text/event-stream")
	case "mixed":
		req.Header.Set("Accept", "multipart/mixed")
	case "get":
		q := url.Values{}
		q.Set("query", r.Query)
		if r.OpName != "" {
			q.Set("operationName", r.OpName)
		}
		if len(r.Variables) > 0 {
			vb, _ := json.Marshal(r.Variables)
			q.Set("variables", string(vb))
		}
		req = httptest.NewRequest("GET", "/graphql?"+q.Encode(), nil).WithContext(ctx)
	}
	w := httptest.NewRecorder()
	h.ServeHTTP(w, req)
	resp = &graphql.Response{}
	var env struct {
		Data   json.RawMessage `json:"data"`
		Errors gqlerror.List   `json:"errors"`
	}
	wire := w.Body.Bytes()
	switch {
	case strings.HasPrefix(w.Header().Get("Content-Type"), "text/event-stream"):
		// the first next event
		for _, ln := range strings.Split(string(wire), "\n") {
			if strings.HasPrefix(ln, "data: ") {
				wire = []byte(strings.TrimPrefix(ln, "data: "))
				break
			}
		}
	case strings.HasPrefix(w.Header().Get("Content-Type"), "multipart/mixed"):
		// the first part
		if _, params, err := mime.ParseMediaType(w.Header().Get("Content-Type")); err == nil {
			mr := multipart.NewReader(bytes.NewReader(wire), params["boundary"])
			if part, err := mr.NextPart(); err == nil {
				wire, _ = io.ReadAll(part)
			}
		}
	}
	_ = json.Unmarshal(wire, &env)
	resp.Data, resp.Errors = env.Data, env.Errors
	if string(resp.Data) == "null" {
		resp.Data = nil
	}
	// over HTTP a rejection is what the client sees: errors only (the status depends on the kind of
	// error and is C09's business) and nothing executed
	uevents = e.Events()
	rejected = len(resp.Data) == 0 && len(resp.Errors) > 0 && len(uevents) == 0
	evs = l.snapshot()
	if streamingVia(via) {
		// a streaming transport asks the response function once more to learn that the sequence has
		// ended; the response interceptors see that call too. That trailing group (nothing but
		// response hooks) is not part of the one response this request has.
		first := -1
		for i, ev := range evs {
			if strings.HasPrefix(ev, "resp-enter ") {
				if first < 0 {
					first = i
				} else if ev == evs[first] {
					tailOnlyResp := true
					for _, t := range evs[i:] {
						if !strings.HasPrefix(t, "resp-") {
							tailOnlyResp = false
						}
					}
					if tailOnlyResp {
						evs = evs[:i]
					}
					break
				}
			}
		}
	}
	return evs, uevents, resp, rejected
}

// run executes one request and returns its log, the resolver/directive events and the response.
func runExecutor(s *proj.Server, ex *executor.Executor, r Request) (evs []string, uevents []univ.Event, resp *graphql.Response, rejected bool) {
	l := &reqLog{}
	e := univ.NewExec(plan.New(11))
	ctx := withLog(univ.WithExec(context.Background(), e), l)
	ctx = graphql.StartOperationTrace(ctx)
	rc, errs := ex.CreateOperationContext(ctx, &graphql.RawParams{Query: r.Query, OperationName: r.OpName, Variables: r.Variables})
	if errs != nil {
		resp = ex.DispatchError(graphql.WithOperationContext(ctx, rc), errs)
		return l.snapshot(), e.Events(), resp, true
	}
	rh, ctx2 := ex.DispatchOperation(ctx, rc)
	resp = rh(ctx2)
	return l.snapshot(), e.Events(), resp, false
}

func streamingVia(via string) bool { return via == "sse" || via == "mixed" }

func hasHook(kind, hook string) bool {
	for _, h := range hooks[kind] {
		if h == hook {
			return true
		}
	}
	return false
}

// verify checks one request's log against the lifecycle contract.
func verify(s *proj.Server, c Case, r Request, evs []string, uevents []univ.Event, resp *graphql.Response, rejected bool) *vfrun.Failure {
	desc := fmt.Sprintf("exts %+v cache %s request %q op=%q vars=%v invalid=%q", c.Exts, c.Cache, r.Query, r.OpName, r.Variables, r.Invalid)
	// who rejects?
	extReject := ""
	for i, es := range c.Exts {
		if es.RejectParams && hasHook(es.Kind, "params") {
			extReject = fmt.Sprintf("params %d", i)
			break
		}
	}
	invalid := r.Invalid
	if extReject != "" {
		invalid = "extension-parameters"
	} else if invalid == "" {
		for _, es := range c.Exts {
			if es.RejectCtx && hasHook(es.Kind, "ctx") {
				invalid = "extension-context"
				break
			}
		}
	}
	if invalid == "" && c.Via == "get" {
		// the GET transport executes queries only: whatever operation the request selects that is
		// not a query is refused after the gates, before anything of the operation runs
		if doc, err := parser.ParseQuery(&ast.Source{Input: r.Query}); err == nil {
			if op := doc.Operations.ForName(r.OpName); op != nil && op.Operation != ast.Query {
				invalid = "get-selects-" + string(op.Operation)
			}
		}
	}
	executed := 0
	for _, ev := range uevents {
		if ev.Kind == "R" || ev.Kind == "D" {
			executed++
		}
	}
	if invalid != "" {
		// (i) nothing executes, errors only
		for _, ev := range evs {
			if strings.HasPrefix(ev, "op-") || strings.HasPrefix(ev, "root-") || strings.HasPrefix(ev, "field-") {
				return vfrun.Failf("gate.interceptor-ran-for-rejected-request", "%s: event %q although the request must be rejected (%s); log %v", desc, ev, invalid, evs)
			}
		}
		if executed > 0 {
			return vfrun.Failf("gate.executed-rejected-request", "%s: %d resolver/directive calls although the request must be rejected (%s)", desc, executed, invalid)
		}
		if !rejected || resp == nil || len(resp.Errors) == 0 {
			return vfrun.Failf("gate.rejected-request-without-errors", "%s: must be rejected (%s) but was accepted: %+v", desc, invalid, resp)
		}
		if len(resp.Data) > 0 && string(resp.Data) != "null" {
			return vfrun.Failf("gate.rejected-request-has-data", "%s: data %s", desc, resp.Data)
		}
		vfrun.Label("rejected:" + invalid)
		return nil
	}
	if rejected {
		return vfrun.Failf("gate.valid-request-rejected", "%s: %v", desc, resp.Errors)
	}
	// (ii) lifecycle of an accepted request
	kc := kit.Case{Query: r.Query, OpName: r.OpName, Variables: r.Variables, PlanSeed: 11}
	pr, f := kit.Prepare(s, kc)
	if f != nil {
		return f
	}
	ref := kit.Reference(s, pr, plan.New(11))
	want := map[string]int{}
	order := func(hook string) []int {
		var ids []int
		for i, es := range c.Exts {
			if hasHook(es.Kind, hook) {
				ids = append(ids, i)
			}
		}
		return ids
	}
	for _, i := range order("params") {
		want[fmt.Sprintf("params %d", i)]++
	}
	for _, i := range order("ctx") {
		want[fmt.Sprintf("ctx %d", i)]++
	}
	for _, i := range order("op") {
		want[fmt.Sprintf("op-enter %d", i)]++
		want[fmt.Sprintf("op-exit %d", i)]++
	}
	for _, i := range order("resp") {
		want[fmt.Sprintf("resp-enter %d", i)]++
		want[fmt.Sprintf("resp-exit %d", i)]++
	}
	var roots []string
	for _, rk := range ref.RootOrder {
		// __typename is answered by the executor itself: no resolver, no interceptor
		if f := rootFieldName(pr, rk); f != "__typename" {
			roots = append(roots, rk)
		}
	}
	// the fields of a root object reached again below the root are run as root fields once more
	rootCount := map[string]int{}
	for _, rk := range append(append([]string{}, roots...), ref.NestedRootKeys...) {
		rootCount[rk]++
		for _, i := range order("root") {
			want[fmt.Sprintf("root-enter %d @%s", i, rk)]++
			want[fmt.Sprintf("root-exit %d @%s", i, rk)]++
		}
	}
	if len(ref.NestedRootKeys) > 0 {
		vfrun.Label("root-object-below-the-root")
	}
	for _, p := range ref.Fields {
		for _, i := range order("field") {
			want[fmt.Sprintf("field-enter %d @%s", i, p)]++
			want[fmt.Sprintf("field-exit %d @%s", i, p)]++
		}
	}
	got := map[string]int{}
	for _, ev := range evs {
		got[ev]++
	}
	var keys []string
	for k := range want {
		keys = append(keys, k)
	}
	for k := range got {
		if _, ok := want[k]; !ok {
			keys = append(keys, k)
		}
	}
	sort.Strings(keys)
	for _, k := range keys {
		if got[k] != want[k] {
			return vfrun.Failf("hooks.count", "%s: hook event %q happened %d times, want %d\nlog: %v", desc, k, got[k], want[k], evs)
		}
	}
	// phases: params < ctx < op-enter < op-exit < resp-enter < field/root < resp-exit
	phase := func(ev string) int {
		switch {
		case strings.HasPrefix(ev, "params"):
			return 0
		case strings.HasPrefix(ev, "ctx"):
			return 1
		case strings.HasPrefix(ev, "op-enter"):
			return 2
		case strings.HasPrefix(ev, "op-exit"):
			return 3
		case strings.HasPrefix(ev, "resp-enter"):
			return 4
		case strings.HasPrefix(ev, "resp-exit"):
			return 6
		}
		return 5
	}
	last := 0
	for _, ev := range evs {
		ph := phase(ev)
		if ph < last {
			return vfrun.Failf("hooks.lifecycle-order", "%s: %q after a later lifecycle phase\nlog: %v", desc, ev, evs)
		}
		last = ph
	}
	// nesting: first-registered outermost, per hook kind and per field
	checkNest := func(prefixEnter, prefixExit, suffix string, ids []int) *vfrun.Failure {
		var seq []string
		for _, ev := range evs {
			if (strings.HasPrefix(ev, prefixEnter+" ") || strings.HasPrefix(ev, prefixExit+" ")) && strings.HasSuffix(ev, suffix) {
				if suffix == "" && strings.Contains(ev, "@") {
					continue
				}
				seq = append(seq, ev)
			}
		}
		var exp []string
		for _, i := range ids {
			exp = append(exp, fmt.Sprintf("%s %d%s", prefixEnter, i, suffix))
		}
		if prefixEnter == "params" || prefixEnter == "ctx" {
			// mutators are not nested
		} else {
			for j := len(ids) - 1; j >= 0; j-- {
				exp = append(exp, fmt.Sprintf("%s %d%s", prefixExit, ids[j], suffix))
			}
		}
		if strings.Join(seq, "|") != strings.Join(exp, "|") {
			return vfrun.Failf("hooks.nesting", "%s: %s events %v, want %v (first registered outermost)", desc, prefixEnter, seq, exp)
		}
		return nil
	}
	if f := checkNest("params", "params-none", "", order("params")); f != nil {
		return f
	}
	if f := checkNest("ctx", "ctx-none", "", order("ctx")); f != nil {
		return f
	}
	if f := checkNest("op-enter", "op-exit", "", order("op")); f != nil {
		return f
	}
	if f := checkNest("resp-enter", "resp-exit", "", order("resp")); f != nil {
		return f
	}
	for _, rk := range roots {
		if rootCount[rk] != 1 {
			continue // the same response key below the root as well: the two sequences interleave
		}
		if f := checkNest("root-enter", "root-exit", " @"+rk, order("root")); f != nil {
			return f
		}
	}
	for _, p := range ref.Fields {
		if f := checkNest("field-enter", "field-exit", " @"+p, order("field")); f != nil {
			return f
		}
	}
	// resolvers ran exactly as the reference says
	var rkeys []string
	for _, ev := range uevents {
		if ev.Kind == "R" {
			rkeys = append(rkeys, ev.Key)
		}
	}
	sort.Strings(rkeys)
	if strings.Join(rkeys, "|") != strings.Join(ref.Resolvers, "|") {
		return vfrun.Failf("hooks.resolvers", "%s: resolvers %v, want %v", desc, rkeys, ref.Resolvers)
	}
	vfrun.Label("accepted")
	return nil
}

// rootFieldName finds the field name behind a root response key.
func rootFieldName(pr *kit.Prepared, rk string) string {
	name := ""
	var walk func(ss ast.SelectionSet)
	walk = func(ss ast.SelectionSet) {
		for _, sel := range ss {
			switch x := sel.(type) {
			case *ast.Field:
				if x.Alias == rk {
					name = x.Name
				}
			case *ast.InlineFragment:
				walk(x.SelectionSet)
			case *ast.FragmentSpread:
				if x.Definition != nil {
					walk(x.Definition.SelectionSet)
				}
			}
		}
	}
	walk(pr.Op.SelectionSet)
	return name
}

func check(c Case) *vfrun.Failure {
	ss, err := kit.Servers("core")
	if err != nil {
		return vfrun.Failf("harness.no-project", "%v", err)
	}
	s := ss[0]
	var run func(r Request) ([]string, []univ.Event, *graphql.Response, bool)
	if c.Via != "" {
		h := buildHTTP(s, c)
		run = func(r Request) ([]string, []univ.Event, *graphql.Response, bool) { return runHTTP(h, r, c.Via) }
		vfrun.Label("via-transport:" + c.Via)
	} else {
		ex := build(s, c)
		run = func(r Request) ([]string, []univ.Event, *graphql.Response, bool) { return runExecutor(s, ex, r) }
	}
	nAcc, nRej := 0, 0
	for _, r := range c.Requests {
		if r.Invalid == "" {
			nAcc++
		} else {
			nRej++
		}
	}
	if c.Goroutines <= 1 {
		for _, r := range c.Requests {
			evs, ue, resp, rej := run(r)
			vfrun.Eval()
			if f := verify(s, c, r, evs, ue, resp, rej); f != nil {
				return f
			}
		}
	} else {
		type out struct {
			r    Request
			evs  []string
			ue   []univ.Event
			resp *graphql.Response
			rej  bool
		}
		results := make([][]out, c.Goroutines)
		var wg sync.WaitGroup
		for g := 0; g < c.Goroutines; g++ {
			wg.Add(1)
			go func(g int) {
				defer wg.Done()
				for i := range c.Requests {
					r := c.Requests[(i+g)%len(c.Requests)]
					evs, ue, resp, rej := run(r)
					results[g] = append(results[g], out{r, evs, ue, resp, rej})
				}
			}(g)
		}
		wg.Wait()
		for _, rs := range results {
			for _, o := range rs {
				vfrun.Eval()
				if f := verify(s, c, o.r, o.evs, o.ue, o.resp, o.rej); f != nil {
					f.Msg = fmt.Sprintf("[%d goroutines] %s", c.Goroutines, f.Msg)
					return f
				}
			}
		}
		vfrun.Label("concurrent-batch")
	}
	overlapping := 0
	for _, es := range c.Exts {
		if len(hooks[es.Kind]) >= 2 {
			overlapping++
		}
	}
	if nAcc > 0 && nRej > 0 && len(c.Exts) >= 2 && overlapping >= 1 {
		vfrun.NonTrivial(fmt.Sprintf("%+v", c))
	}
	vfrun.SampleCat(fmt.Sprintf("g%d", c.Goroutines), c)
	return nil
}

// damage turns a valid request into a rejected one, by construction.
func damage(t *rapid.T, r Request) Request {
	kind := rapid.SampledFrom([]string{"parse", "unknown-field", "unknown-operation", "missing-argument", "variable-type", "fragment-cycle", "undefined-variable", "required-variable-missing", "required-variable-missing", "required-variable-null",
		"unknown-argument", "unknown-directive-argument", "unknown-type", "wrong-literal", "unknown-directive", "duplicate-operation-name"}).Draw(t, "damage")
	r.Invalid = kind
	switch kind {
	case "parse":
		r.Query = r.Query + " {{"
	case "unknown-field":
		r.Query = strings.Replace(r.Query, "{", "{ definitelyNotAField ", 1)
	case "unknown-operation":
		r.OpName = "NoSuchOperation"
	case "missing-argument":
		r.Query, r.OpName, r.Variables = "query($x: Int) { echo(n: $x) }", "", nil // n: Int! cannot take Int
		r.Invalid = "variable-position"
	case "variable-type":
		r.Query, r.OpName = "query($n: Int!) { echo(n: $n) }", ""
		r.Variables = map[string]any{"n": "not a number"}
	case "unknown-argument":
		// every class of validation error that can carry a "Did you mean" suggestion has its own rule;
		// a server with suggestions disabled swaps those rules and must still reject all of them
		r.Query, r.OpName, r.Variables = "{ echo(n: 1, nosuchargument: 2) }", "", nil
	case "unknown-directive-argument":
		r.Query, r.OpName, r.Variables = "{ s @include(if: true, unless: false) }", "", nil
	case "unknown-type":
		r.Query, r.OpName, r.Variables = "{ a { ... on NoSuchType { id } } }", "", nil
	case "wrong-literal":
		r.Query, r.OpName, r.Variables = "{ echo(n: \"seven\", e: NOSUCHVALUE) }", "", nil
	case "unknown-directive":
		r.Query, r.OpName, r.Variables = "{ s @nosuchdirective }", "", nil
	case "duplicate-operation-name":
		r.Query, r.OpName, r.Variables = "query A { s } query A { i }", "A", nil
	case "required-variable-missing":
		// the same operation a valid request of the pool uses, with no variables member at all
		r.Query, r.OpName, r.Variables = "query($n: Int!) { echo(n: $n) }", "", nil
	case "required-variable-null":
		r.Query, r.OpName, r.Variables = "query($n: Int!) { echo(n: $n) }", "", map[string]any{"n": nil}
	case "fragment-cycle":
		r.Query, r.OpName, r.Variables = "{ a { ...X } } fragment X on A { id ...Y } fragment Y on A { ...X }", "", nil
	case "undefined-variable":
		r.Query, r.OpName, r.Variables = "{ echo(n: $undefined) }", "", nil
	}
	return r
}

func genCase(t *rapid.T, concurrent bool) Case {
	ss, err := kit.Servers("core")
	if err != nil {
		t.Fatalf("harness: %v", err)
	}
	s := ss[0]
	var c Case
	n := rapid.IntRange(0, 6).Draw(t, "nexts")
	for i := 0; i < n; i++ {
		es := ExtSpec{Kind: rapid.SampledFrom(kinds).Draw(t, "kind")}
		if rapid.IntRange(0, 11).Draw(t, "rejp") == 0 {
			es.RejectParams = true
		}
		if rapid.IntRange(0, 11).Draw(t, "rejc") == 0 {
			es.RejectCtx = true
		}
		c.Exts = append(c.Exts, es)
	}
	c.Cache = rapid.SampledFrom([]string{"none", "map", "lru2", "lru1000"}).Draw(t, "cache")
	nreq := rapid.IntRange(1, 12).Draw(t, "nreq")
	pool := []Request{}
	for len(pool) < 4 {
		op := opgen.Generate(t, s.Schema, opgen.Options{MaxFields: 8, MaxDepth: 3, Mutation: rapid.IntRange(0, 4).Draw(t, "mut") == 0})
		r := Request{Query: op.Query, OpName: op.OpName, Variables: op.Variables}
		if _, f := kit.Prepare(s, kit.Case{Query: r.Query, OpName: r.OpName, Variables: r.Variables}); f != nil {
			continue
		}
		pool = append(pool, r)
	}
	// documents with several operations, one of them selected by name
	pool = append(pool,
		Request{Query: "query Q { s } mutation M { m3 }", OpName: "M"},
		Request{Query: "query Q { s } mutation M { m3 }", OpName: "Q"},
		Request{Query: "mutation M { m3 } query Q { i }", OpName: "Q"})
	// a valid request that does carry the required variable (what a pooled decoder could leak)
	pool = append(pool, Request{Query: "query($n: Int!) { echo(n: $n) }", Variables: map[string]any{"n": 5}})
	for i := 0; i < nreq; i++ {
		r := pool[rapid.IntRange(0, len(pool)-1).Draw(t, "which")]
		if rapid.IntRange(0, 2).Draw(t, "damage?") == 0 {
			r = damage(t, r)
		}
		c.Requests = append(c.Requests, r)
	}
	if concurrent {
		c.Goroutines = rapid.IntRange(2, 8).Draw(t, "goroutines")
	}
	if rapid.IntRange(0, 2).Draw(t, "via") == 0 {
		c.Via = rapid.SampledFrom([]string{"post", "post", "sse", "mixed", "get"}).Draw(t, "transport")
	}
	return c
}

func TestHistories(t *testing.T) {
	vfrun.Run(t, vfrun.Prop[Case]{Property: "C03", Name: "TestHistories", Gen: func(t *rapid.T) Case { return genCase(t, false) }, Check: check}, vfrun.N(600, 120000))
}

func TestConcurrent(t *testing.T) {
	vfrun.Run(t, vfrun.Prop[Case]{Property: "C03", Name: "TestConcurrent", Gen: func(t *rapid.T) Case { return genCase(t, true) }, Check: check}, vfrun.N(120, 15000))
}
