package c03

import (
	"context"
	"fmt"
	"sync"

	"github.com/99designs/gqlgen/graphql"
	"github.com/vektah/gqlparser/v2/gqlerror"
)

// reqLog is the per-request event log (carried by the request context).
type reqLog struct {
	mu     sync.Mutex
	events []string
}

func (l *reqLog) add(format string, a ...any) {
	l.mu.Lock()
	l.events = append(l.events, fmt.Sprintf(format, a...))
	l.mu.Unlock()
}

func (l *reqLog) snapshot() []string {
	l.mu.Lock()
	defer l.mu.Unlock()
	return append([]string(nil), l.events...)
}

type logKey struct{}

func withLog(ctx context.Context, l *reqLog) context.Context {
	return context.WithValue(ctx, logKey{}, l)
}

func logOf(ctx context.Context) *reqLog {
	if l, ok := ctx.Value(logKey{}).(*reqLog); ok {
		return l
	}
	return &reqLog{}
}

// base is the identity and behaviour of one instrumented extension.
type base struct {
	id           int
	rejectParams bool
	rejectCtx    bool
}

type named struct{ b *base }

func (n named) ExtensionName() string                          { return fmt.Sprintf("E%d", n.b.id) }
func (n named) Validate(schema graphql.ExecutableSchema) error { return nil }

type pm struct{ b *base }

func (m pm) MutateOperationParameters(ctx context.Context, p *graphql.RawParams) *gqlerror.Error {
	logOf(ctx).add("params %d", m.b.id)
	if m.b.rejectParams {
		return gqlerror.Errorf("rejected by E%d (parameters)", m.b.id)
	}
	return nil
}

type cm struct{ b *base }

func (m cm) MutateOperationContext(ctx context.Context, oc *graphql.OperationContext) *gqlerror.Error {
	logOf(ctx).add("ctx %d", m.b.id)
	if m.b.rejectCtx {
		return gqlerror.Errorf("rejected by E%d (context)", m.b.id)
	}
	return nil
}

type oi struct{ b *base }

func (m oi) InterceptOperation(ctx context.Context, next graphql.OperationHandler) graphql.ResponseHandler {
	logOf(ctx).add("op-enter %d", m.b.id)
	defer logOf(ctx).add("op-exit %d", m.b.id)
	return next(ctx)
}

type ri struct{ b *base }

func (m ri) InterceptResponse(ctx context.Context, next graphql.ResponseHandler) *graphql.Response {
	logOf(ctx).add("resp-enter %d", m.b.id)
	defer logOf(ctx).add("resp-exit %d", m.b.id)
	return next(ctx)
}

type rfi struct{ b *base }

func (m rfi) InterceptRootField(ctx context.Context, next graphql.RootResolver) graphql.Marshaler {
	p := graphql.GetRootFieldContext(ctx).Field.Alias
	logOf(ctx).add("root-enter %d @%s", m.b.id, p)
	defer logOf(ctx).add("root-exit %d @%s", m.b.id, p)
	return next(ctx)
}

type fi struct{ b *base }

func (m fi) InterceptField(ctx context.Context, next graphql.Resolver) (any, error) {
	p := graphql.GetPath(ctx).String()
	logOf(ctx).add("field-enter %d @%s", m.b.id, p)
	defer logOf(ctx).add("field-exit %d @%s", m.b.id, p)
	return next(ctx)
}

// the fixed repertoire of hook subsets (a Go type is needed per subset)
type (
	xAll struct {
		named
		pm
		cm
		oi
		ri
		rfi
		fi
	}
	xParams struct {
		named
		pm
	}
	xCtx struct {
		named
		cm
	}
	xOpResp struct {
		named
		oi
		ri
	}
	xFields struct {
		named
		rfi
		fi
	}
	xField struct {
		named
		fi
	}
	xOp struct {
		named
		oi
	}
	xMutators struct {
		named
		pm
		cm
	}
	xRespField struct {
		named
		ri
		fi
	}
	xRoot struct {
		named
		rfi
	}
)

var kinds = []string{"all", "params", "ctx", "opresp", "fields", "field", "op", "mutators", "respfield", "root"}

// hooks lists the hooks of a kind.
var hooks = map[string][]string{
	"all": {"params", "ctx", "op", "resp", "root", "field"}, "params": {"params"}, "ctx": {"ctx"}, "opresp": {"op", "resp"},
	"fields": {"root", "field"}, "field": {"field"}, "op": {"op"}, "mutators": {"params", "ctx"}, "respfield": {"resp", "field"}, "root": {"root"},
}

func newExt(kind string, b *base) graphql.HandlerExtension {
	n := named{b}
	switch kind {
	case "all":
		return xAll{n, pm{b}, cm{b}, oi{b}, ri{b}, rfi{b}, fi{b}}
	case "params":
		return xParams{n, pm{b}}
	case "ctx":
		return xCtx{n, cm{b}}
	case "opresp":
		return xOpResp{n, oi{b}, ri{b}}
	case "fields":
		return xFields{n, rfi{b}, fi{b}}
	case "field":
		return xField{n, fi{b}}
	case "op":
		return xOp{n, oi{b}}
	case "mutators":
		return xMutators{n, pm{b}, cm{b}}
	case "respfield":
		return xRespField{n, ri{b}, fi{b}}
	default:
		return xRoot{n, rfi{b}}
	}
}
