package c04

import (
	"context"
	"fmt"
	"strings"
	"testing"
	"time"

	"pgregory.net/rapid"

	"vh/deferchk"
	"vh/kit"
	"vh/opgen"
	"vh/oracle"
	"vh/plan"
	"vh/proj"
	"vh/refexec"
	"vh/univ"
	"vh/vfrun"
)

// Case: an operation (the corpus element) and optionally a fixed fault set. With Faults == nil the
// check enumerates every single fault point of the operation.
type Case struct {
	kit.Case
	// Multi: a drawn multi-fault set (overrides are in Case.Overrides); otherwise single faults are
	// enumerated exhaustively over the operation's invocation keys
	Multi bool `json:"multi,omitempty"`
	// Only: restrict the enumeration to this fault (set when a failing fault is written to a replay)
	Only *Fault `json:"only,omitempty"`
}

type Fault struct {
	Key  string    `json:"key"`
	Kind plan.Kind `json:"kind"`
}

func placement(key string, ref *refexec.Result) string {
	switch {
	case strings.Contains(key, "["):
		return "list-element-goroutine"
	case strings.Contains(key, "."):
		return "nested-field"
	default:
		return "root-field"
	}
}

// runOne executes the case with the plan on every vector and compares with the reference.
func runOne(srvs []*proj.Server, pr *kit.Prepared, c kit.Case, p *plan.Plan, npanics int, what string) *vfrun.Failure {
	ref := kit.Reference(srvs[0], pr, p)
	for _, s := range srvs {
		kit.Journal(map[string]any{"case": c, "fault": what, "vector": s.P.Vec})
		e := univ.NewExec(p)
		ctx, cancel := context.WithCancel(context.Background())
		done := make(chan *proj.Response, 1)
		// set before the operation starts and left alone while it runs (an operation that outlives
		// its verdict must not flip it under the next one)
		s.DefaultRecover = c.DefaultRecover
		go func() { done <- s.Do(ctx, e, c.Query, c.OpName, c.Variables) }()
		var resp *proj.Response
		select {
		case resp = <-done:
			cancel()
		case <-time.After(20 * time.Second):
			// every universal resolver returns within milliseconds: an operation that is still not
			// answered has been wedged by the fault (a failure that is not contained)
			inflight := e.Inflight()
			cancel()
			select {
			case <-done:
			case <-time.After(5 * time.Second):
			}
			if inflight > 0 {
				return vfrun.Failf("harness.inconclusive", "[%s %s] a universal resolver is still running after 20s", s.P.Vec, what)
			}
			return vfrun.Failf("contain.operation-hangs-after-fault", "[%s %s] every resolver has returned but the operation is not answered after 20s (it ends only when its context is cancelled)", s.P.Vec, what)
		}
		if e.Unrepresentable > 0 {
			vfrun.Label("discarded:unrepresentable")
			continue
		}
		vfrun.Eval()
		if f := oracle.Compare(s.P.Vec+" "+what, ref, resp, e.Keys("R"), e.Keys("D")); f != nil {
			return f
		}
		if npanics > 0 {
			// the same value can be reached through several aliases: one panic per failing position
			// the reference reports
			npanics = 0
			for _, e := range ref.Errors {
				if e.Class == "panic" || e.Class == "foreign" {
					npanics++
				}
			}
		}
		if npanics >= 0 && resp.Recovers >= 0 && resp.Recovers != npanics {
			return vfrun.Failf("recover.count", "[%s %s] recover hook ran %d times for %d panics", s.P.Vec, what, resp.Recovers, npanics)
		}
	}
	return nil
}

func check(c Case) *vfrun.Failure {
	srvs, err := kit.Servers(c.Project)
	if err != nil {
		return vfrun.Failf("harness.no-project", "%v", err)
	}
	pr, f := kit.Prepare(srvs[0], c.Case)
	if f != nil {
		return f
	}
	base := c.Case.Plan()
	if c.Multi {
		n := 0
		for _, o := range c.Overrides {
			if o.Kind == plan.Panic || o.Kind == plan.Foreign {
				n++
			}
		}
		// several panics can hide each other (a panicking parent never starts its children), so
		// only containment and the reference response are asserted, not the count
		if f := runOne(srvs, pr, c.Case, base, -1, "multi"); f != nil {
			return f
		}
		vfrun.Label("multi-fault")
		if n > 0 {
			vfrun.NonTrivial(fmt.Sprintf("M|%s|%d|%v", c.Query, c.PlanSeed, c.Overrides))
		}
		return probe(srvs, pr, c.Case, base)
	}
	// fault-free run first: learn the invocation keys
	ref0 := kit.Reference(srvs[0], pr, base)
	if f := runOne(srvs, pr, c.Case, base, 0, "fault-free"); f != nil {
		return f
	}
	var faults []Fault
	for _, cd := range kit.Candidates(ref0) {
		if cd.Kind == "V" {
			continue // value positions hold no user code
		}
		if cd.Kind == "R" {
			faults = append(faults, Fault{cd.Key, plan.Error}, Fault{cd.Key, plan.Panic})
			if cd.Pos.Abstract && !cd.Pos.List {
				faults = append(faults, Fault{cd.Key, plan.Foreign})
			}
		} else if strings.HasPrefix(cd.Key, "@") {
			// a directive on the operation wraps the whole execution: a panic there is outside every
			// field and is the transport's to contain (covered through the HTTP handlers elsewhere)
			faults = append(faults, Fault{"D:" + cd.Key, plan.Error})
		} else {
			faults = append(faults, Fault{"D:" + cd.Key, plan.Error}, Fault{"D:" + cd.Key, plan.Panic})
		}
	}
	for _, el := range ref0.Elems {
		if el.Abstract {
			faults = append(faults, Fault{el.Key, plan.Foreign})
		}
	}
	for _, ft := range faults {
		if c.Only != nil && *c.Only != ft {
			continue
		}
		p := c.Case.Plan()
		p.Overrides[ft.Key] = plan.Outcome{Kind: ft.Kind, Msg: "fault!"}
		np := 0
		if ft.Kind == plan.Panic || ft.Kind == plan.Foreign {
			np = 1
		}
		what := fmt.Sprintf("%s@%s", ft.Kind, ft.Key)
		if f := runOne(srvs, pr, c.Case, p, np, what); f != nil {
			f.Msg = fmt.Sprintf("single fault %s: %s", what, f.Msg)
			return f
		}
		pl := placement(strings.TrimPrefix(ft.Key, "D:"), ref0)
		vfrun.Label(fmt.Sprintf("fault:%s:%s", ft.Kind, pl))
		if pl != "root-field" {
			vfrun.NonTrivial(fmt.Sprintf("%s|%d|%s|%s", c.Query, c.PlanSeed, ft.Key, ft.Kind))
		}
		// the server keeps serving: the same operation without the fault is answered correctly
		if f := probe(srvs, pr, c.Case, base); f != nil {
			f.Msg = fmt.Sprintf("after single fault %s: %s", what, f.Msg)
			return f
		}
	}
	vfrun.SampleCat("enumerated", map[string]any{"query": c.Query, "plan_seed": c.PlanSeed, "single_faults": len(faults), "first_faults": head(faults, 6)})
	return nil
}

func head(f []Fault, n int) []Fault {
	if len(f) > n {
		return f[:n]
	}
	return f
}

func probe(srvs []*proj.Server, pr *kit.Prepared, c kit.Case, base *plan.Plan) *vfrun.Failure {
	clean := plan.New(base.Seed)
	ref := kit.Reference(srvs[0], pr, clean)
	for _, s := range srvs {
		e := univ.NewExec(clean)
		resp := s.Do(context.Background(), e, c.Query, c.OpName, c.Variables)
		if e.Unrepresentable > 0 {
			continue
		}
		if f := oracle.Compare(s.P.Vec+" probe-after-fault", ref, resp, nil, nil); f != nil {
			f.Key = "contain.not-serving-after-fault"
			return f
		}
	}
	return nil
}

func genOp(t *rapid.T) Case {
	c := Case{}
	c.Project = kit.DrawProject(t)
	srvs, err := kit.Servers(c.Project)
	if err != nil {
		t.Fatalf("harness: %v", err)
	}
	s := srvs[0]
	op := opgen.Generate(t, s.Schema, opgen.Options{Mutation: rapid.IntRange(0, 4).Draw(t, "mutation?") == 0, MaxFields: 14, MaxDepth: 4})
	c.Query, c.OpName, c.Variables = op.Query, op.OpName, op.Variables
	c.PlanSeed = rapid.Uint64Range(1, 1<<32).Draw(t, "planseed")
	if _, f := kit.Prepare(s, c.Case); f != nil {
		t.Skip("generated operation is not valid: " + f.Msg)
	}
	// a sixth of the cases keep gqlgen's own recover hook (every panic is then "internal system
	// error" at the path of its own position; the hook is not counted)
	if rapid.IntRange(0, 5).Draw(t, "defaultrecover") == 0 {
		c.DefaultRecover = true
		vfrun.Label("default-recover-hook")
	}
	return c
}

// TestSingleFaults: for every generated operation, every single fault point x {error, panic,
// foreign-type} is enumerated.
func TestSingleFaults(t *testing.T) {
	vfrun.Run(t, vfrun.Prop[Case]{Property: "C04", Name: "TestSingleFaults", Gen: genOp, Check: check}, vfrun.N(500, 8000))
}

// TestDeferredFaults: operations with @defer; every single fault point (error / panic) is injected,
// the whole payload sequence is read and merged, and compared with the reference (a failure inside a
// deferred group nulls the object the group belongs to); a panic runs the recover hook once.
func TestDeferredFaults(t *testing.T) {
	type DCase struct {
		deferchk.Case
	}
	checkD := func(c DCase) *vfrun.Failure {
		srvs, err := kit.Servers(c.Project)
		if err != nil {
			return vfrun.Failf("harness.no-project", "%v", err)
		}
		pr, f := kit.Prepare(srvs[0], c.Case.Case)
		if f != nil {
			return f
		}
		ref0 := kit.Reference(srvs[0], pr, c.Case.Case.Plan())
		if f := deferchk.Check(c.Case); f != nil {
			return f
		}
		for _, cd := range kit.Candidates(ref0) {
			if cd.Kind != "R" {
				continue
			}
			for _, kind := range []plan.Kind{plan.Error, plan.Panic} {
				fc := c.Case
				fc.Overrides = map[string]plan.Outcome{}
				for k, v := range c.Overrides {
					fc.Overrides[k] = v
				}
				fc.Overrides[cd.Key] = plan.Outcome{Kind: kind, Msg: "fault!"}
				if kind == plan.Panic {
					fc.WantRecovers = 1
				}
				kit.Journal(map[string]any{"case": fc})
				if f := deferchk.Check(fc); f != nil {
					f.Msg = fmt.Sprintf("single fault %s@%s in a query with @defer: %s", kind, cd.Key, f.Msg)
					return f
				}
				vfrun.Label(fmt.Sprintf("deferred-op-fault:%s", kind))
				vfrun.NonTrivial(fmt.Sprintf("D|%s|%d|%s|%s", c.Query, c.PlanSeed, cd.Key, kind))
			}
		}
		return nil
	}
	vfrun.Run(t, vfrun.Prop[DCase]{Property: "C04", Name: "TestDeferredFaults",
		Gen: func(t *rapid.T) DCase {
			c := deferchk.Gen(t)
			c.Overrides = nil
			return DCase{c}
		}, Check: checkD}, vfrun.N(250, 5000))
}

// TestMultiFaults: random fault sets including panics.
func TestMultiFaults(t *testing.T) {
	vfrun.Run(t, vfrun.Prop[Case]{Property: "C04", Name: "TestMultiFaults",
		Gen: func(t *rapid.T) Case {
			c := genOp(t)
			srvs, _ := kit.Servers(c.Project)
			pr, _ := kit.Prepare(srvs[0], c.Case)
			ref := kit.Reference(srvs[0], pr, c.Case.Plan())
			c.Overrides = kit.DrawOverrides(t, kit.Candidates(ref), 4, true)
			c.Multi = true
			return c
		}, Check: check}, vfrun.N(4000, 80000))
}
