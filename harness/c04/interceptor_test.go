package c04

import (
	"context"
	"errors"
	"fmt"
	"sync/atomic"
	"testing"

	"github.com/99designs/gqlgen/graphql"
	"github.com/99designs/gqlgen/graphql/executor"
	"github.com/vektah/gqlparser/v2/gqlerror"

	"vh/kit"
	"vh/oracle"
	"vh/plan"
	"vh/proj"
	"vh/univ"
	"vh/vfrun"
)

// A field interceptor (AroundFields) that returns an error or panics at one response path is user
// code failing at that position: the field completes to null with one error at its path and ordinary
// null propagation, exactly as if its resolver had failed - the reference executor with that outcome
// at the resolver's key is the oracle. Every resolver position of the generated operation is tried.

type fieldFault struct {
	path  string
	panic bool
}

func (f fieldFault) ExtensionName() string                   { return "FieldFault" }
func (f fieldFault) Validate(graphql.ExecutableSchema) error { return nil }
func (f fieldFault) InterceptField(ctx context.Context, next graphql.Resolver) (any, error) {
	if graphql.GetPath(ctx).String() == f.path {
		if f.panic {
			panic("interceptor!")
		}
		return nil, errors.New("interceptor!")
	}
	return next(ctx)
}

func doWith(ex *executor.Executor, s *proj.Server, e *univ.Exec, c kit.Case) (*proj.Response, int64) {
	s.U.SetExec(e)
	var recovers atomic.Int64
	ex.SetRecoverFunc(func(ctx context.Context, err any) error {
		recovers.Add(1)
		return gqlerror.Errorf("%s", proj.RecoverMsg(err))
	})
	ctx := graphql.StartOperationTrace(context.Background())
	rc, errs := ex.CreateOperationContext(ctx, &graphql.RawParams{Query: c.Query, OperationName: c.OpName, Variables: c.Variables})
	if errs != nil {
		resp := ex.DispatchError(graphql.WithOperationContext(ctx, rc), errs)
		return &proj.Response{Errors: resp.Errors, Rejected: true}, recovers.Load()
	}
	rh, ctx2 := ex.DispatchOperation(ctx, rc)
	resp := rh(ctx2)
	if resp == nil {
		return &proj.Response{}, recovers.Load()
	}
	return &proj.Response{Data: resp.Data, Errors: resp.Errors}, recovers.Load()
}

func checkInterceptor(c Case) *vfrun.Failure {
	srvs, err := kit.Servers(c.Project)
	if err != nil {
		return vfrun.Failf("harness.no-project", "%v", err)
	}
	pr, f := kit.Prepare(srvs[0], c.Case)
	if f != nil {
		return f
	}
	base := c.Case.Plan()
	ref0 := kit.Reference(srvs[0], pr, base)
	for _, cd := range kit.Candidates(ref0) {
		if cd.Kind != "R" {
			continue
		}
		for _, pn := range []bool{false, true} {
			kind := plan.Error
			if pn {
				kind = plan.Panic
			}
			ft := Fault{Key: cd.Key, Kind: kind}
			if c.Only != nil && *c.Only != ft {
				continue
			}
			p := c.Case.Plan()
			p.Overrides[cd.Key] = plan.Outcome{Kind: kind, Msg: "interceptor!"}
			ref := kit.Reference(srvs[0], pr, p)
			for _, s := range srvs {
				kit.Journal(map[string]any{"case": c, "interceptor-fault": ft, "vector": s.P.Vec})
				ex := executor.New(s.ES)
				ex.Use(fieldFault{path: cd.Key, panic: pn})
				e := univ.NewExec(base)
				resp, recovers := doWith(ex, s, e, c.Case)
				if e.Unrepresentable > 0 {
					continue
				}
				vfrun.Eval()
				what := fmt.Sprintf("%s interceptor %s@%s", s.P.Vec, kind, cd.Key)
				if f := oracle.Compare(what, ref, resp, nil, nil); f != nil {
					f.Msg = "field interceptor fault: " + f.Msg
					return f
				}
				want := int64(0)
				if pn {
					want = 1
				}
				if recovers != want {
					return vfrun.Failf("recover.count", "[%s] recover hook ran %d times, want %d", what, recovers, want)
				}
			}
			pl := placement(cd.Key, ref0)
			vfrun.Label(fmt.Sprintf("interceptor-fault:%s:%s", kind, pl))
			if pl != "root-field" {
				vfrun.NonTrivial(fmt.Sprintf("I|%s|%d|%s|%s", c.Query, c.PlanSeed, cd.Key, kind))
			}
		}
	}
	return nil
}

func TestInterceptorFaults(t *testing.T) {
	vfrun.Run(t, vfrun.Prop[Case]{Property: "C04", Name: "TestInterceptorFaults", Gen: genOp, Check: checkInterceptor}, vfrun.N(160, 6000))
}
