package c04

import (
	"fmt"
	"strings"
	"testing"

	"pgregory.net/rapid"

	"vh/kit"
	"vh/plan"
	"vh/vfrun"
)

// Many positions failing at the same instant (concurrent siblings, list-element goroutines): each of
// them still completes to null with exactly one error at its path. The probe used declares an
// executable directive, so its fields resolve through the generated field middleware; the `tick`
// schedule makes resolvers that are in flight together return together.

var stormQueries = []string{
	`{ as { id rsnn } }`,
	`{ asnn { rsnn name } s }`,
	`{ asn { x: rsnn y: rsnn } }`,
	`{ as { bnn { id } rs } }`,
	`{ a { as { rsnn bnn { id } } } }`,
	`{ nodes { id ... on A { rsnn } } }`,
	`{ as { guardedNN id } }`,
}

type StormCase struct {
	kit.Case
	Repeat int `json:"repeat"`
}

func checkStorm(c StormCase) *vfrun.Failure {
	srvs, err := kit.Servers(c.Project)
	if err != nil {
		return vfrun.Failf("harness.no-project", "%v", err)
	}
	pr, f := kit.Prepare(srvs[0], c.Case)
	if f != nil {
		return f
	}
	for i := 0; i < c.Repeat; i++ {
		p := c.Case.Plan()
		p.Schedule = &plan.Schedule{Mode: "tick", Seed: uint64(i + 1)}
		if f := runOne(srvs, pr, c.Case, p, -1, fmt.Sprintf("storm round %d", i)); f != nil {
			return f
		}
	}
	vfrun.Label("failure-storm")
	vfrun.NonTrivial(fmt.Sprintf("%s|%d|%d", c.Query, c.PlanSeed, len(c.Overrides)))
	return nil
}

func genStorm(t *rapid.T) StormCase {
	var c StormCase
	c.Project = "roots"
	srvs, err := kit.Servers(c.Project)
	if err != nil {
		c.Project = "core"
		if srvs, err = kit.Servers(c.Project); err != nil {
			t.Fatalf("harness: %v", err)
		}
	}
	s := srvs[0]
	c.Query = rapid.SampledFrom(stormQueries).Draw(t, "stormquery")
	c.PlanSeed = rapid.Uint64Range(1, 1<<32).Draw(t, "planseed")
	pr, f := kit.Prepare(s, c.Case)
	if f != nil {
		t.Fatalf("harness: storm query invalid: %s", f.Msg)
	}
	c.Overrides = map[string]plan.Outcome{}
	n := rapid.IntRange(4, 16).Draw(t, "stormwidth")
	for round := 0; round < 3; round++ {
		ref := kit.Reference(s, pr, c.Case.Plan())
		for _, k := range ref.Resolvers {
			if ref.Pos[k].List {
				if _, set := c.Overrides[k]; !set {
					c.Overrides[k] = plan.Outcome{Kind: plan.Value, Len: &n}
				}
			}
		}
	}
	ref := kit.Reference(s, pr, c.Case.Plan())
	i := 0
	for _, k := range ref.Resolvers {
		if strings.Contains(k, "[") && ref.Pos[k].NonNull && !ref.Pos[k].List && i < 24 {
			c.Overrides[k] = plan.Outcome{Kind: plan.Error, Msg: fmt.Sprintf("storm%d", i)}
			i++
		}
	}
	c.Repeat = 16
	return c
}

func TestFailureStorm(t *testing.T) {
	vfrun.Run(t, vfrun.Prop[StormCase]{Property: "C04", Name: "TestFailureStorm", Gen: genStorm, Check: checkStorm}, vfrun.N(160, 4000))
}
