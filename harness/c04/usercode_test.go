package c04

import (
	"context"
	"encoding/json"
	"fmt"
	"net/http"
	"net/http/httptest"
	"strings"
	"sync/atomic"
	"testing"
	"time"

	"github.com/99designs/gqlgen/graphql"
	"github.com/99designs/gqlgen/graphql/handler"
	"github.com/99designs/gqlgen/graphql/handler/transport"
	"github.com/gorilla/websocket"
	"github.com/vektah/gqlparser/v2/gqlerror"
	"pgregory.net/rapid"

	"vh/hsrv"
	"vh/kit"
	"vh/plan"
	"vh/proj"
	"vh/refexec"
	"vh/strictjson"
	"vh/univ"
	"vh/vfrun"
)

// ---------------------------------------------------------------------------------------------------
// User code at scalar positions: an input unmarshaler (custom scalar UnmarshalGQL) that returns an
// error or panics while an argument is coerced, and a marshaler (MarshalGQL) that panics while the
// response is serialised. The probe's `scalar Tok` fails on demand (vh/scalars) and the *Echo fields
// return their first argument, so the literal or variable the client sends decides the fault point.
// Oracle: the same request with the hostile value replaced by a benign one (metamorphic).

// Slot is one selection with a Tok input position.
type Slot struct {
	Kind string `json:"kind"` // root rootList rootInput rootInputInner rootInputList nested nestedList
	Hot  bool   `json:"hot"`  // carries the fault value
	Var  bool   `json:"var"`  // the value travels in a variable
}

type UCase struct {
	Slots     []Slot `json:"slots"`
	Fault     string `json:"fault"` // err-u panic-u panic-m badjson-m
	Transport string `json:"transport"`
	PlanSeed  uint64 `json:"plan_seed"`
	Siblings  bool   `json:"siblings"`
}

// render builds the query; hot decides whether hot slots carry the fault value or the benign one.
func (c UCase) render(hot bool) (query string, vars map[string]any, keys [][]string) {
	var sels, decls []string
	vars = map[string]any{}
	for i, sl := range c.Slots {
		val := fmt.Sprintf("ok%d", i)
		if sl.Hot && hot {
			val = fmt.Sprintf("!%s %d", c.Fault, i)
		}
		lit := fmt.Sprintf("%q", val)
		if sl.Var {
			v := fmt.Sprintf("v%d", i)
			typ := "Tok"
			if sl.Kind == "rootInputList" {
				typ = "Tok!" // TokIn.ts is [Tok!]
			}
			decls = append(decls, "$"+v+": "+typ)
			vars[v] = val
			lit = "$" + v
		}
		k := fmt.Sprintf("k%d", i)
		switch sl.Kind {
		case "root":
			sels = append(sels, fmt.Sprintf("%s: tokEcho(t: %s)", k, lit))
			keys = append(keys, []string{k})
		case "rootList":
			sels = append(sels, fmt.Sprintf("%s: toksEcho(ts: [\"first\", %s, \"last\"])", k, lit))
			keys = append(keys, []string{k})
		case "rootInput":
			sels = append(sels, fmt.Sprintf("%s: tokInEcho(in: {t: %s})", k, lit))
			keys = append(keys, []string{k})
		case "rootInputInner":
			sels = append(sels, fmt.Sprintf("%s: tokInEcho(in: {t: \"outer\", inner: {t: %s}})", k, lit))
			keys = append(keys, []string{k})
		case "rootInputList":
			sels = append(sels, fmt.Sprintf("%s: tokInEcho(in: {t: \"outer\", ts: [\"e0\", %s]})", k, lit))
			keys = append(keys, []string{k})
		case "nested":
			sels = append(sels, fmt.Sprintf("p%d: a { id %s: tokEcho(t: %s) n }", i, k, lit))
			keys = append(keys, []string{fmt.Sprintf("p%d", i), k})
		case "nestedList":
			sels = append(sels, fmt.Sprintf("p%d: asnn { id %s: tokEcho(t: %s) n }", i, k, lit))
			keys = append(keys, []string{fmt.Sprintf("p%d", i), "*", k})
		}
	}
	if c.Siblings {
		sels = append([]string{"s0: s"}, append(sels, "i9: i", "a9: a { name }")...)
	}
	head := "query"
	if len(decls) > 0 {
		head += "(" + strings.Join(decls, ", ") + ")"
	}
	return head + " { " + strings.Join(sels, " ") + " }", vars, keys
}

// echoes reports whether the slot's value appears in the response (a marshal site).
func (s Slot) echoes() bool {
	switch s.Kind {
	case "rootInputInner", "rootInputList":
		return false
	}
	return true
}

type served struct {
	status   int
	body     []byte
	data     *strictjson.Value
	errors   []*gqlerror.Error
	recovers int64
	calls    []string
}

// serveWS runs the operation as one graphql-transport-ws session: init, subscribe, frames until the
// operation is terminated.
func serveWS(h http.Handler, query string, vars map[string]any) (data *strictjson.Value, errs []*gqlerror.Error, raw string, fail *vfrun.Failure) {
	srv := httptest.NewServer(h)
	defer srv.Close()
	d := websocket.Dialer{Subprotocols: []string{"graphql-transport-ws"}, HandshakeTimeout: 5 * time.Second}
	conn, _, err := d.Dial("ws"+strings.TrimPrefix(srv.URL, "http"), nil)
	if err != nil {
		return nil, nil, "", vfrun.Failf("harness.dial", "%v", err)
	}
	defer conn.Close()
	send := func(v any) { b, _ := json.Marshal(v); _ = conn.WriteMessage(websocket.TextMessage, b) }
	send(map[string]any{"type": "connection_init"})
	send(map[string]any{"type": "subscribe", "id": "1", "payload": map[string]any{"query": query, "variables": vars}})
	_ = conn.SetReadDeadline(time.Now().Add(4 * time.Second))
	var frames []string
	for {
		_, b, err := conn.ReadMessage()
		if err != nil {
			return nil, nil, strings.Join(frames, " | "), vfrun.Failf("contain.ws-operation-not-terminated", "websocket: %q: the operation received neither error nor complete (%v); frames %v", query, err, frames)
		}
		frames = append(frames, string(b))
		if verr := strictjson.Valid(b); verr != nil {
			return nil, nil, "", vfrun.Failf("contain.body-not-json", "websocket frame %q: %v", b, verr)
		}
		var f struct {
			Type    string          `json:"type"`
			ID      string          `json:"id"`
			Payload json.RawMessage `json:"payload"`
		}
		_ = json.Unmarshal(b, &f)
		switch f.Type {
		case "next":
			root, perr := strictjson.Parse(f.Payload)
			if perr != nil || root.Kind != strictjson.Object {
				return nil, nil, "", vfrun.Failf("contain.body-not-json", "websocket next payload %q", f.Payload)
			}
			data = root.Get("data")
			var env struct {
				Errors []*gqlerror.Error `json:"errors"`
			}
			_ = json.Unmarshal(f.Payload, &env)
			errs = env.Errors
		case "error":
			_ = json.Unmarshal(f.Payload, &errs)
			return data, errs, strings.Join(frames, " | "), nil
		case "complete":
			return data, errs, strings.Join(frames, " | "), nil
		}
	}
}

func serveU(s *proj.Server, c UCase, query string, vars map[string]any) (*served, *vfrun.Failure) {
	var rec atomic.Int64
	h := hsrv.New(s, hsrv.Config{Transports: []string{"websocket", "get", "sse", "post"}, Recovers: &rec})
	e := univ.NewExec(plan.New(c.PlanSeed))
	s.U.SetExec(e)
	if c.Transport == "ws" {
		data, errs, raw, f := serveWS(h, query, vars)
		if f != nil {
			return nil, f
		}
		return &served{status: 200, body: []byte(raw), data: data, errors: errs, recovers: rec.Load(), calls: e.Keys("R")}, nil
	}
	vj := ""
	if len(vars) > 0 {
		b, _ := json.Marshal(vars)
		vj = string(b)
	}
	hreq := hsrv.Req{Transport: c.Transport, Query: query, HasQuery: true, Variables: vj}
	if c.Transport == "sse" {
		hreq.Transport, hreq.Headers = "post", map[string]string{"Accept": "text/event-stream"}
	}
	req := hreq.Build()
	var escaped any
	type ret struct {
		r hsrv.Result
		p any
	}
	done := make(chan ret, 1)
	go func() {
		var out ret
		defer func() { out.p = recover(); done <- out }()
		out.r = hsrv.Serve(h, req)
	}()
	var res hsrv.Result
	select {
	case x := <-done:
		res, escaped = x.r, x.p
	case <-time.After(10 * time.Second):
		return nil, vfrun.Failf("contain.handler-never-returns", "%s over %s, variables %s: the handler has not returned after 10 s (every resolver returns at once)", query, c.Transport, vj)
	}
	if escaped != nil {
		return nil, vfrun.Failf("contain.panic-escaped-handler", "%s variables %s: panic escaped ServeHTTP: %v", query, vj, escaped)
	}
	if c.Transport == "sse" {
		// the answer is the last JSON document of the stream: the payload of the last event, or the
		// error body the server's recover wrote after a failed write
		last := ""
		for _, ln := range strings.Split(string(res.Body), "\n") {
			ln = strings.TrimSpace(strings.TrimPrefix(ln, "data: "))
			if strings.HasPrefix(ln, "{") {
				last = ln
			}
		}
		res.Body = []byte(last)
		if res.Status == 0 {
			res.Status = 200
		}
	}
	out := &served{status: res.Status, body: res.Body, recovers: rec.Load(), calls: e.Keys("R")}
	root, err := strictjson.Parse(res.Body)
	if err != nil || root.Kind != strictjson.Object {
		return out, vfrun.Failf("contain.body-not-json", "%s variables %s: status %d body %q is not a JSON object: %v", query, vj, res.Status, res.Body, err)
	}
	out.data = root.Get("data")
	var env struct {
		Errors []*gqlerror.Error `json:"errors"`
	}
	if err := json.Unmarshal(res.Body, &env); err != nil {
		return out, vfrun.Failf("contain.body-not-json", "%s: errors of %q do not decode: %v", query, res.Body, err)
	}
	out.errors = env.Errors
	return out, nil
}

// nullAt returns a copy of v with the positions matching the key path (with "*" = every element) set
// to null, and how many positions matched.
func nullAt(v *strictjson.Value, path []string) (*strictjson.Value, int) {
	if v == nil {
		return nil, 0
	}
	if len(path) == 0 {
		return &strictjson.Value{Kind: strictjson.Null}, 1
	}
	cp := *v
	n := 0
	switch {
	case path[0] == "*" && v.Kind == strictjson.Array:
		cp.Arr = make([]*strictjson.Value, len(v.Arr))
		for i, el := range v.Arr {
			var k int
			cp.Arr[i], k = nullAt(el, path[1:])
			n += k
		}
	case v.Kind == strictjson.Object:
		cp.Vals = make([]*strictjson.Value, len(v.Vals))
		copy(cp.Vals, v.Vals)
		for i, key := range v.Keys {
			if key == path[0] {
				var k int
				cp.Vals[i], k = nullAt(v.Vals[i], path[1:])
				n += k
			}
		}
	}
	return &cp, n
}

func pathMatches(p []any, pat []string) bool {
	// the error path starts with the slot's response path ("*" matches an index)
	if len(p) < len(pat) {
		return false
	}
	for i, seg := range pat {
		switch x := p[i].(type) {
		case string:
			if seg != x {
				return false
			}
		default:
			if seg != "*" {
				return false
			}
		}
	}
	return true
}

func errPath(e *gqlerror.Error) []any {
	var out []any
	for _, seg := range e.Path {
		switch x := seg.(type) {
		case interface{ String() string }:
			out = append(out, x.String())
		default:
			out = append(out, fmt.Sprint(x))
		}
	}
	// ast.PathName / ast.PathIndex: decode through JSON to tell them apart
	b, _ := json.Marshal(e.Path)
	var raw []any
	if json.Unmarshal(b, &raw) == nil {
		return raw
	}
	return out
}

func checkUserCode(c UCase) *vfrun.Failure {
	srvs, err := kit.Servers("core")
	if err != nil {
		return vfrun.Failf("harness.no-project", "%v", err)
	}
	kit.Journal(map[string]any{"usercode": c})
	for _, s := range srvs {
		qB, vB, keys := c.render(false)
		qF, vF, _ := c.render(true)
		vfrun.Eval()
		b, f := serveU(s, c, qB, vB)
		if f != nil {
			return f
		}
		if b.status != 200 || len(b.errors) > 0 || b.data == nil || b.data.Kind != strictjson.Object {
			return vfrun.Failf("harness.benign-request-failed", "[%s] %s variables %v: %d %s", s.P.Vec, qB, vB, b.status, b.body)
		}
		if b.recovers != 0 {
			return vfrun.Failf("recover.count", "[%s] benign request %s: recover hook ran %d times", s.P.Vec, qB, b.recovers)
		}
		fr, f := serveU(s, c, qF, vF)
		if f != nil {
			return f
		}
		what := fmt.Sprintf("[%s %s fault=%s] %s variables %v", s.P.Vec, c.Transport, c.Fault, qF, vF)
		// a hot slot is reached as often as its position exists in the benign answer (a parent that
		// is null or an empty list reaches it never, a list of n elements n times)
		nhot, marshalSite := 0, false
		for i, sl := range c.Slots {
			if sl.Hot {
				_, n := nullAt(b.data, keys[i])
				nhot += n
				if sl.echoes() && n > 0 {
					marshalSite = true
				}
			}
		}
		switch {
		case nhot == 0 || ((c.Fault == "panic-m" || c.Fault == "badjson-m") && !marshalSite):
			// nothing hostile is reached: same answer as the benign request but for the echoed values
			if fr.status != 200 || len(fr.errors) > 0 || fr.recovers != 0 {
				return vfrun.Failf("contain.error-without-fault", "%s: no fault point is reached, answer %d %s (recover hook %d)", what, fr.status, fr.body, fr.recovers)
			}
		case c.Fault == "panic-m" || c.Fault == "badjson-m":
			// a panic while serialising fails this response as a whole, with a well-formed error body
			if len(fr.errors) == 0 {
				return vfrun.Failf("serialize.panic-without-error", "%s: a marshaler panicked, answer %d %s has no errors", what, fr.status, fr.body)
			}
			if fr.data != nil && fr.data.Kind != strictjson.Null {
				return vfrun.Failf("serialize.panic-with-data", "%s: a marshaler panicked, answer %d %s still carries data", what, fr.status, fr.body)
			}
			if fr.recovers != 1 {
				return vfrun.Failf("recover.count", "%s: one panic while serialising, recover hook ran %d times", what, fr.recovers)
			}
		default:
			// unmarshal error / panic: the field of every hot slot is null with one error per failed
			// invocation at its path, its resolver is not called, everything else keeps its value
			if fr.status != 200 {
				return vfrun.Failf("contain.status", "%s: execution started, answer status %d %s", what, fr.status, fr.body)
			}
			exp := b.data
			wantErrs := 0
			for i, sl := range c.Slots {
				if !sl.Hot {
					continue
				}
				var n int
				exp, n = nullAt(exp, keys[i])
				wantErrs += n
				cnt := 0
				for _, ge := range fr.errors {
					if pathMatches(errPath(ge), keys[i]) {
						cnt++
					}
				}
				if cnt != n {
					return vfrun.Failf("contain.errors-at-position", "%s: slot %d (%v) has %d failing invocation(s) but %d error(s) at its path; errors %v", what, i, keys[i], n, cnt, fr.errors)
				}
			}
			if fr.data == nil || !refexec.SameData(fr.data, exp) {
				got := "<absent>"
				if fr.data != nil {
					got = fr.data.Canon()
				}
				return vfrun.Failf("contain.data", "%s: data differs from the benign answer with the failing fields nulled\n got: %s\nwant: %s", what, got, exp.Canon())
			}
			if len(fr.errors) != wantErrs {
				return vfrun.Failf("contain.error-count", "%s: %d failing invocations, %d errors: %v", what, wantErrs, len(fr.errors), fr.errors)
			}
			wantRec := int64(0)
			if c.Fault == "panic-u" {
				wantRec = int64(wantErrs)
			}
			if fr.recovers != wantRec {
				return vfrun.Failf("recover.count", "%s: %d panics while unmarshaling, recover hook ran %d times", what, wantRec, fr.recovers)
			}
			// the resolvers of the failing fields did not run: the faulty run has exactly that many
			// resolver calls fewer
			if len(b.calls)-len(fr.calls) != wantErrs {
				return vfrun.Failf("contain.resolver-called-after-failed-unmarshal", "%s: benign run made %d resolver calls, faulty run %d, %d invocations failed to coerce", what, len(b.calls), len(fr.calls), wantErrs)
			}
		}
		// the process keeps serving: the benign request again
		b2, f := serveU(s, c, qB, vB)
		if f != nil {
			return f
		}
		if b2.status != 200 || b2.data == nil || !refexec.SameData(b2.data, b.data) || len(b2.errors) > 0 {
			return vfrun.Failf("contain.not-serving-after-fault", "%s: the benign request after it is answered %d %s", what, b2.status, b2.body)
		}
		vfrun.Label("usercode:" + c.Fault)
		if nhot > 0 {
			vfrun.NonTrivial(qF + fmt.Sprint(vF) + c.Transport)
		}
	}
	vfrun.SampleCat("usercode-"+c.Fault, c)
	return nil
}

func genUserCode(t *rapid.T) UCase {
	c := UCase{
		Fault:     rapid.SampledFrom([]string{"err-u", "panic-u", "panic-m", "badjson-m"}).Draw(t, "fault"),
		Transport: rapid.SampledFrom([]string{"post", "get", "ws", "sse"}).Draw(t, "transport"),
		PlanSeed:  rapid.Uint64Range(1, 1<<20).Draw(t, "planseed"),
		Siblings:  rapid.Bool().Draw(t, "siblings"),
	}
	if c.Fault == "badjson-m" && c.Transport == "ws" {
		// (what a websocket session does with a payload it cannot encode is left to C11)
		c.Transport = "sse"
	}
	n := rapid.IntRange(1, 4).Draw(t, "nslots")
	for i := 0; i < n; i++ {
		sl := Slot{Kind: rapid.SampledFrom([]string{"root", "rootList", "rootInput", "rootInputInner", "rootInputList", "nested", "nestedList"}).Draw(t, "slot")}
		sl.Var = rapid.Bool().Draw(t, "var")
		c.Slots = append(c.Slots, sl)
	}
	// one hot slot most of the time, sometimes none or two
	switch rapid.IntRange(0, 7).Draw(t, "nhot") {
	case 0:
	case 1:
		for i := 0; i < 2 && i < n; i++ {
			c.Slots[i].Hot = true
		}
	default:
		c.Slots[rapid.IntRange(0, n-1).Draw(t, "hot")].Hot = true
	}
	return c
}

func TestScalarUserCode(t *testing.T) {
	vfrun.Run(t, vfrun.Prop[UCase]{Property: "C04", Name: "TestScalarUserCode", Gen: genUserCode, Check: checkUserCode}, vfrun.N(1500, 60000))
}

var _ = context.Background
var _ = http.StatusOK
var _ = httptest.NewRecorder
var _ graphql.Marshaler
var _ = handler.New
var _ transport.POST
