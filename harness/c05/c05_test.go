package c05

import (
	"context"
	"fmt"
	"strings"
	"testing"
	"time"

	"pgregory.net/rapid"

	"vh/kit"
	"vh/opgen"
	"vh/plan"
	"vh/proj"
	"vh/sched"
	"vh/univ"
	"vh/vfrun"
)

// Case: an operation; the check enumerates every cancellation point of it.
type Case struct {
	kit.Case
	Defer bool `json:"defer,omitempty"`
	// Only restricts the enumeration (set in replays): vector, k, after, hold
	Only *Point `json:"only,omitempty"`
}

type Point struct {
	Vec   string `json:"vec"`
	K     int64  `json:"k"`
	After bool   `json:"after"`
	Hold  bool   `json:"hold"`
	// Drain: the consumer keeps calling the response function until it returns nil (a streaming
	// transport); otherwise it reads one payload (a single-response transport)
	Drain bool `json:"drain,omitempty"`
}

const (
	returnWait = 4 * time.Second
	leakWait   = 3 * time.Second
)

func describe(gs []sched.G) string {
	var sb strings.Builder
	for _, g := range gs {
		sb.WriteString(sched.Signature(g))
		sb.WriteString("\n")
		sb.WriteString(g.Text)
		sb.WriteString("\n")
	}
	return sb.String()
}

// classify gives the finding key for a parked goroutine.
func classify(gs []sched.G, workerLimit string, deferred bool) string {
	for _, g := range gs {
		sig := sched.Signature(g)
		switch {
		case strings.Contains(g.Text, "processDeferredGroup") && g.State == "chan send":
			return "leak.deferred-group-send"
		case strings.Contains(g.Text, "sync.(*WaitGroup).Wait") && workerLimit != "" && workerLimit != "0":
			return "hang.worker-limit-acquire-cancel"
		case strings.Contains(sig, "chan receive") && deferred:
			return "hang.deferred-results-receive"
		}
	}
	return "hang-or-leak.other"
}

// runPoint executes the operation once with a cancellation point and checks both clauses.
func runPoint(s *proj.Server, c Case, pt Point) *vfrun.Failure {
	p := c.Case.Plan()
	e := univ.NewExec(p)
	e.CancelAt, e.CancelAfter, e.HoldEarlier = pt.K, pt.After, pt.Hold
	ctx, cancel := context.WithCancel(context.Background())
	e.Cancel = cancel
	defer cancel()
	kit.Journal(map[string]any{"case": c, "point": pt})
	before := sched.GqlgenIDs("vh/vfrun.", "pgregory.net/rapid.")
	done := make(chan *proj.Response, 1)
	go func() {
		if pt.Drain {
			out, _ := s.DoAll(ctx, e, c.Query, c.OpName, c.Variables, 1000)
			if len(out) > 0 {
				done <- out[len(out)-1]
			} else {
				done <- nil
			}
			return
		}
		done <- s.Do(ctx, e, c.Query, c.OpName, c.Variables)
	}()
	wl := s.P.Options["worker_limit"]
	what := fmt.Sprintf("[%s worker_limit=%s cancel %s resolver call #%d hold=%v drain=%v]", s.P.Vec, wl, map[bool]string{false: "before", true: "after"}[pt.After], pt.K, pt.Hold, pt.Drain)
	select {
	case r := <-done:
		if r != nil && r.HasNext != nil && *r.HasNext {
			vfrun.Label("deferred-groups-pending-when-transport-stopped")
		}
	case <-time.After(returnWait):
		// (a) the response function has not returned: is it a deadlock?
		if e.Inflight() > 0 {
			return vfrun.Failf("harness.inconclusive", "%s a universal resolver is still running after %v", what, returnWait)
		}
		st, running := sched.SurvivorsIgnoring(2*time.Second, before, "vh/vfrun.", "pgregory.net/rapid.")
		if len(st) == 0 || running {
			return vfrun.Failf("harness.inconclusive", "%s response function not back after %v but no stable witness", what, returnWait)
		}
		key := classify(st, wl, c.Defer)
		return vfrun.Failf(key, "%s every resolver has returned (%d calls) but the response function does not return; parked:\n%s", what, e.Calls(), describe(st))
	}
	// (b) request ended, context cancelled: nothing of gqlgen may survive
	cancel()
	st, running := sched.SurvivorsIgnoring(leakWait, before, "vh/vfrun.", "pgregory.net/rapid.")
	if running {
		return vfrun.Failf("harness.inconclusive", "%s goroutines still running %v after the request ended", what, leakWait)
	}
	if len(st) > 0 {
		key := classify(st, wl, c.Defer)
		return vfrun.Failf(key, "%s request ended and context cancelled, but %d goroutine(s) of gqlgen are still parked:\n%s", what, len(st), describe(st))
	}
	return nil
}

func check(c Case) *vfrun.Failure {
	srvs, err := kit.Servers(c.Project)
	if err != nil {
		return vfrun.Failf("harness.no-project", "%v", err)
	}
	pr, f := kit.Prepare(srvs[0], c.Case)
	if f != nil {
		return f
	}
	ref := kit.Reference(srvs[0], pr, c.Case.Plan())
	ncalls := int64(len(ref.Resolvers))
	fanout := 0
	for _, el := range ref.Elems {
		if el.ListLen > fanout {
			fanout = el.ListLen
		}
	}
	for _, s := range srvs {
		for k := int64(0); k <= ncalls; k++ {
			for _, after := range []bool{false, true} {
				for _, hold := range []bool{false, true} {
					if k == 0 && (after || hold) {
						continue
					}
					for _, drain := range []bool{false, true} {
						if drain && !c.Defer {
							continue
						}
						pt := Point{Vec: s.P.Vec, K: k, After: after, Hold: hold, Drain: drain}
						if c.Only != nil && *c.Only != pt {
							continue
						}
						vfrun.Eval()
						f := runPoint(s, c, pt)
						for retry := 0; f != nil && f.Key == "harness.inconclusive" && retry < 2; retry++ {
							// no verdict (a loaded machine: goroutines runnable but not yet run): again
							vfrun.Label("inconclusive-point-retried")
							time.Sleep(500 * time.Millisecond)
							f = runPoint(s, c, pt)
						}
						if f != nil {
							if vfrun.IsKnown(f.Key) {
								continue
							}
							return f
						}
						if k > 0 {
							vfrun.Label("cancel-point")
							if drain {
								vfrun.Label("cancel-point:draining-consumer")
							}
							if fanout >= 2 || c.Defer {
								vfrun.NonTrivial(fmt.Sprintf("%s|%d|%s|%d|%v|%v|%v", c.Query, c.PlanSeed, s.P.Vec, k, after, hold, drain))
							}
						}
					}
				}
			}
		}
	}
	if c.Defer {
		vfrun.Label("with-defer")
	}
	if fanout >= 3 {
		vfrun.Label("list-fanout>=3")
	}
	vfrun.SampleCat(fmt.Sprintf("defer=%v", c.Defer), map[string]any{"query": c.Query, "plan_seed": c.PlanSeed, "resolver_calls": ncalls, "vectors": len(srvs), "cancel_points": (ncalls*4 + 1) * int64(len(srvs))})
	return nil
}

func gen(t *rapid.T) Case {
	var c Case
	c.Project = kit.DrawProject(t)
	srvs, err := kit.Servers(c.Project)
	if err != nil {
		t.Fatalf("harness: %v", err)
	}
	s := srvs[0]
	c.Defer = rapid.Bool().Draw(t, "defer")
	op := opgen.Generate(t, s.Schema, opgen.Options{MaxFields: 10, MaxDepth: 4, Defer: c.Defer, Resolver: s.U.IsResolver})
	c.Query, c.OpName, c.Variables = op.Query, op.OpName, op.Variables
	c.PlanSeed = rapid.Uint64Range(1, 1<<32).Draw(t, "planseed")
	if _, f := kit.Prepare(s, c.Case); f != nil {
		t.Skip("generated operation is not valid: " + f.Msg)
	}
	c.Defer = strings.Contains(c.Query, "@defer")
	// a third of the operations also meet failures of user code while they run: resolver errors and
	// panics, and list elements of abstract type that no implementor matches (the generated type
	// switch panics inside the element's goroutine, under the concurrency limit)
	if rapid.Bool().Draw(t, "faults?") {
		pr, _ := kit.Prepare(s, c.Case)
		ref := kit.Reference(s, pr, c.Case.Plan())
		c.Overrides = kit.DrawOverrides(t, kit.Candidates(ref), 2, true)
		var abstract []string
		for _, el := range ref.Elems {
			if el.Abstract && el.ListLen >= 2 {
				abstract = append(abstract, el.Key)
			}
		}
		if len(abstract) > 0 && rapid.IntRange(0, 3).Draw(t, "foreign?") != 0 {
			if c.Overrides == nil {
				c.Overrides = map[string]plan.Outcome{}
			}
			n := rapid.IntRange(1, 3).Draw(t, "nforeign")
			for i := 0; i < n; i++ {
				c.Overrides[abstract[rapid.IntRange(0, len(abstract)-1).Draw(t, "foreignelem")]] = plan.Outcome{Kind: plan.Foreign}
			}
			vfrun.Label("foreign-list-elements")
		}
		if len(c.Overrides) > 0 {
			vfrun.Label("operation-with-failing-user-code")
		}
	}
	return c
}

// foreignOps: operations whose lists have elements of abstract type.
var foreignOps = []string{
	"{ nodes { id } }",
	"{ us { __typename ... on A { id } ... on B { v } } s }",
	"{ a { id } nodes { __typename id } us { __typename } }",
	"{ nodes { id ... on A { name b { v } } } }",
}

// genForeign: lists of abstract type in which one to three elements are Go values no implementor
// matches. The generated type switch panics inside the goroutine (and the worker slot) of each such
// element; the operation still has to end by itself, under every worker limit, and leave nothing
// behind - without any cancellation (point 0) as well as with one.
func genForeign(t *rapid.T) Case {
	var c Case
	c.Project = "core"
	srvs, err := kit.Servers(c.Project)
	if err != nil {
		t.Fatalf("harness: %v", err)
	}
	s := srvs[0]
	c.Query = rapid.SampledFrom(foreignOps).Draw(t, "op")
	c.PlanSeed = rapid.Uint64Range(1, 1<<32).Draw(t, "planseed")
	pr, f := kit.Prepare(s, c.Case)
	if f != nil {
		t.Fatalf("harness: %v", f.Msg)
	}
	ref := kit.Reference(s, pr, c.Case.Plan())
	var abstract []string
	for _, el := range ref.Elems {
		if el.Abstract && el.ListLen >= 2 {
			abstract = append(abstract, el.Key)
		}
	}
	if len(abstract) == 0 {
		t.Skip("no list of abstract type with two elements under this plan")
	}
	c.Overrides = map[string]plan.Outcome{}
	n := rapid.IntRange(1, 3).Draw(t, "nforeign")
	for i := 0; i < n; i++ {
		c.Overrides[abstract[rapid.IntRange(0, len(abstract)-1).Draw(t, "foreignelem")]] = plan.Outcome{Kind: plan.Foreign}
	}
	vfrun.Label("foreign-list-elements")
	return c
}

// TestForeignElements: see genForeign.
func TestForeignElements(t *testing.T) {
	vfrun.Run(t, vfrun.Prop[Case]{Property: "C05", Name: "TestForeignElements", Gen: genForeign, Check: check}, vfrun.N(24, 400))
}

func TestCancel(t *testing.T) {
	vfrun.Run(t, vfrun.Prop[Case]{Property: "C05", Name: "TestCancel", Gen: gen, Check: check}, vfrun.N(80, 2500))
}
