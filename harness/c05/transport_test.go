package c05

import (
	"context"
	"encoding/json"
	"fmt"
	"net/http/httptest"
	"strings"
	"testing"
	"time"

	"pgregory.net/rapid"

	"vh/hsrv"
	"vh/kit"
	"vh/opgen"
	"vh/proj"
	"vh/sched"
	"vh/univ"
	"vh/vfrun"
)

// TCase: an operation served through gqlgen's HTTP transports; the check enumerates the transports
// and the cancellation points of the request context.
type TCase struct {
	kit.Case
	Defer bool `json:"defer,omitempty"`
	// KeepAliveUS: SSE keep-alive ping interval (0 = none)
	KeepAliveUS int     `json:"keepalive_us,omitempty"`
	Only        *TPoint `json:"only,omitempty"`
}

type TPoint struct {
	Vec       string `json:"vec"`
	Transport string `json:"transport"` // post get graphql sse multipartmixed
	K         int64  `json:"k"`
	After     bool   `json:"after"`
}

// (the urlencoded transport only decodes bodies of one shape and carries no variables; the
// application/graphql one carries the document only and is used when the case needs nothing else)
var httpTransports = []string{"post", "get", "graphql", "sse", "multipartmixed"}

func (c TCase) request(tr string) *hsrv.Req {
	vars := ""
	if len(c.Variables) > 0 {
		b, _ := json.Marshal(c.Variables)
		vars = string(b)
	}
	r := &hsrv.Req{Transport: "post", Query: c.Query, HasQuery: true, OpName: c.OpName, HasOpName: c.OpName != "", Variables: vars, Headers: map[string]string{}}
	switch tr {
	case "get", "graphql":
		r.Transport = tr
	case "sse":
		r.Headers["Accept"] = "text/event-stream"
	case "multipartmixed":
		r.Headers["Accept"] = "multipart/mixed"
	}
	return r
}

// runTransportPoint serves the request once; the request context is cancelled at the point.
func runTransportPoint(s *proj.Server, c TCase, pt TPoint) *vfrun.Failure {
	e := univ.NewExec(c.Case.Plan())
	e.CancelAt, e.CancelAfter = pt.K, pt.After
	ctx, cancel := context.WithCancel(context.Background())
	e.Cancel = cancel
	defer cancel()
	kit.Journal(map[string]any{"case": c, "point": pt})
	s.U.SetExec(e)
	// the streaming transports are registered before POST, as the documentation says
	h := hsrv.New(s, hsrv.Config{Transports: []string{"options", "sse", "multipartmixed", "get", "graphql", "post"}, KeepAlive: time.Duration(c.KeepAliveUS) * time.Microsecond})
	before := sched.GqlgenIDs("vh/vfrun.", "pgregory.net/rapid.")
	req := c.request(pt.Transport).Build().WithContext(ctx)
	w := httptest.NewRecorder()
	done := make(chan struct{})
	go func() {
		defer close(done)
		h.ServeHTTP(w, req)
	}()
	wl := s.P.Options["worker_limit"]
	what := fmt.Sprintf("[%s worker_limit=%s transport=%s keepalive=%dus cancel %s resolver call #%d]", s.P.Vec, wl, pt.Transport, c.KeepAliveUS, map[bool]string{false: "before", true: "after"}[pt.After], pt.K)
	select {
	case <-done:
	case <-time.After(returnWait):
		if e.Inflight() > 0 {
			return vfrun.Failf("harness.inconclusive", "%s a universal resolver is still running after %v", what, returnWait)
		}
		st, running := sched.SurvivorsIgnoring(2*time.Second, before, "vh/vfrun.", "pgregory.net/rapid.")
		if len(st) == 0 || running {
			return vfrun.Failf("harness.inconclusive", "%s handler not back after %v but no stable witness", what, returnWait)
		}
		return vfrun.Failf("transport."+classify(st, wl, c.Defer), "%s every resolver has returned (%d calls) but ServeHTTP does not return; parked:\n%s", what, e.Calls(), describe(st))
	}
	// the request has ended: net/http cancels its context now
	cancel()
	st, running := sched.SurvivorsIgnoring(leakWait, before, "vh/vfrun.", "pgregory.net/rapid.")
	if running {
		return vfrun.Failf("harness.inconclusive", "%s goroutines still running %v after the request ended", what, leakWait)
	}
	if len(st) > 0 {
		return vfrun.Failf("transport."+classify(st, wl, c.Defer), "%s ServeHTTP returned and the request context is cancelled, but %d goroutine(s) of gqlgen are still parked:\n%s", what, len(st), describe(st))
	}
	if pt.K == 0 && w.Code != 200 {
		return vfrun.Failf("harness.transport-request", "%s uncancelled request answered %d %s", what, w.Code, w.Body.String())
	}
	return nil
}

func checkTransport(c TCase) *vfrun.Failure {
	srvs, err := kit.Servers(c.Project)
	if err != nil {
		return vfrun.Failf("harness.no-project", "%v", err)
	}
	pr, f := kit.Prepare(srvs[0], c.Case)
	if f != nil {
		return f
	}
	ref := kit.Reference(srvs[0], pr, c.Case.Plan())
	ncalls := int64(len(ref.Resolvers))
	for _, s := range srvs {
		for _, tr := range httpTransports {
			if tr == "graphql" && (len(c.Variables) > 0 || c.OpName != "") {
				continue
			}
			for k := int64(0); k <= ncalls; k++ {
				for _, after := range []bool{false, true} {
					if k == 0 && after {
						continue
					}
					pt := TPoint{Vec: s.P.Vec, Transport: tr, K: k, After: after}
					if c.Only != nil && *c.Only != pt {
						continue
					}
					vfrun.Eval()
					f := runTransportPoint(s, c, pt)
					for retry := 0; f != nil && f.Key == "harness.inconclusive" && retry < 2; retry++ {
						vfrun.Label("inconclusive-point-retried")
						time.Sleep(500 * time.Millisecond)
						f = runTransportPoint(s, c, pt)
					}
					if f != nil {
						if vfrun.IsKnown(f.Key) {
							continue
						}
						return f
					}
					vfrun.Label("transport:" + tr)
					if k > 0 {
						vfrun.Label("transport-cancel-point")
						if c.Defer {
							vfrun.Label("transport-cancel-point:with-defer:" + tr)
						}
						vfrun.NonTrivial(fmt.Sprintf("%s|%d|%s|%s|%d|%v", c.Query, c.PlanSeed, s.P.Vec, tr, k, after))
					}
				}
			}
		}
	}
	vfrun.SampleCat(fmt.Sprintf("transport defer=%v", c.Defer), map[string]any{"query": c.Query, "plan_seed": c.PlanSeed, "resolver_calls": ncalls, "keepalive_us": c.KeepAliveUS})
	return nil
}

func genTransport(t *rapid.T) TCase {
	var c TCase
	c.Project = kit.DrawProject(t)
	srvs, err := kit.Servers(c.Project)
	if err != nil {
		t.Fatalf("harness: %v", err)
	}
	s := srvs[0]
	c.Defer = rapid.Bool().Draw(t, "defer")
	op := opgen.Generate(t, s.Schema, opgen.Options{MaxFields: 8, MaxDepth: 4, Defer: c.Defer, Resolver: s.U.IsResolver})
	c.Query, c.OpName, c.Variables = op.Query, op.OpName, op.Variables
	c.PlanSeed = rapid.Uint64Range(1, 1<<32).Draw(t, "planseed")
	c.KeepAliveUS = rapid.SampledFrom([]int{0, 0, 200, 2000}).Draw(t, "keepalive")
	if _, f := kit.Prepare(s, c.Case); f != nil {
		t.Skip("generated operation is not valid: " + f.Msg)
	}
	c.Defer = strings.Contains(c.Query, "@defer")
	return c
}

func TestTransportCancel(t *testing.T) {
	vfrun.Run(t, vfrun.Prop[TCase]{Property: "C05", Name: "TestTransportCancel", Gen: genTransport, Check: checkTransport}, vfrun.N(24, 600))
}
