package c05

import (
	"context"
	"encoding/json"
	"fmt"
	"net/http"
	"net/http/httptest"
	"strings"
	"sync"
	"testing"
	"time"

	"github.com/gorilla/websocket"
	"pgregory.net/rapid"

	"vh/hsrv"
	"vh/kit"
	"vh/opgen"
	"vh/plan"
	"vh/proj"
	"vh/sched"
	"vh/univ"
	"vh/vfrun"
)

// The websocket transport: an operation started on a connection is ended at every cancellation point
// (before / after the k-th resolver call) in one of the ways a session can end it - the client stops
// the operation, the client goes away, the server's context is cancelled - or it is left to complete
// and stopped afterwards. Then the connection ends. Websocket.Do has to return and nothing gqlgen
// started for the connection may be alive.

type WCase struct {
	kit.Case
	Proto string  `json:"proto"`
	Only  *WPoint `json:"only,omitempty"`
}

type WPoint struct {
	Vec string `json:"vec"`
	K   int64  `json:"k"`
	How string `json:"how"` // stop abrupt servercancel stop-after-complete
	// Second: another operation is started right after the cancellation
	Second bool `json:"second,omitempty"`
}

func runWSPoint(s *proj.Server, c WCase, pt WPoint) *vfrun.Failure {
	e := univ.NewExec(c.Case.Plan())
	e.CancelAt = pt.K
	s.U.SetExec(e)
	kit.Journal(map[string]any{"case": c, "point": pt})
	h := hsrv.New(s, hsrv.Config{Transports: []string{"websocket", "post"}, KeepAlive: time.Millisecond})
	before := sched.GqlgenIDs("vh/vfrun.", "pgregory.net/rapid.", "net/http.(*Server).Serve", "net/http/httptest.")
	srvCtx, cancelSrv := context.WithCancel(context.Background())
	defer cancelSrv()
	var handlers sync.WaitGroup
	srv := httptest.NewServer(http.HandlerFunc(func(w http.ResponseWriter, r *http.Request) {
		handlers.Add(1)
		defer handlers.Done()
		ctx, cancel := context.WithCancel(r.Context())
		defer cancel()
		go func() {
			select {
			case <-srvCtx.Done():
				cancel()
			case <-ctx.Done():
			}
		}()
		h.ServeHTTP(w, r.WithContext(ctx))
	}))
	defer srv.Close()
	d := websocket.Dialer{Subprotocols: []string{c.Proto}, HandshakeTimeout: 5 * time.Second}
	conn, _, err := d.Dial("ws"+strings.TrimPrefix(srv.URL, "http"), nil)
	if err != nil {
		return vfrun.Failf("harness.dial", "%v", err)
	}
	var wmu sync.Mutex
	send := func(v any) {
		b, _ := json.Marshal(v)
		wmu.Lock()
		_ = conn.WriteMessage(websocket.TextMessage, b)
		wmu.Unlock()
	}
	start, stop := "start", "stop"
	if c.Proto == "graphql-transport-ws" {
		start, stop = "subscribe", "complete"
	}
	payload := map[string]any{"query": c.Query}
	if c.OpName != "" {
		payload["operationName"] = c.OpName
	}
	if len(c.Variables) > 0 {
		payload["variables"] = c.Variables
	}
	act := func() {
		switch pt.How {
		case "stop":
			send(map[string]any{"type": stop, "id": "1"})
		case "abrupt":
			_ = conn.UnderlyingConn().Close()
		case "servercancel":
			cancelSrv()
		}
		if pt.Second && pt.How == "stop" {
			send(map[string]any{"type": start, "id": "2", "payload": map[string]any{"query": "{ __typename }"}})
		}
	}
	e.Cancel = act
	terminal := make(chan struct{}, 1)
	closed := make(chan struct{})
	go func() {
		defer close(closed)
		for {
			_, b, err := conn.ReadMessage()
			if err != nil {
				return
			}
			var f struct{ Type, ID string }
			_ = json.Unmarshal(b, &f)
			if f.ID == "1" && (f.Type == "complete" || f.Type == "error") {
				select {
				case terminal <- struct{}{}:
				default:
				}
			}
		}
	}()
	send(map[string]any{"type": "connection_init"})
	send(map[string]any{"type": start, "id": "1", "payload": payload})
	what := fmt.Sprintf("[%s %s cancel at resolver call #%d by %s second=%v]", s.P.Vec, c.Proto, pt.K, pt.How, pt.Second)
	// let the operation run to its end (or to its cancellation)
	select {
	case <-terminal:
	case <-closed:
	case <-time.After(returnWait):
		if e.Inflight() > 0 {
			conn.Close()
			return vfrun.Failf("harness.inconclusive", "%s a universal resolver is still running after %v", what, returnWait)
		}
	}
	if pt.How == "stop-after-complete" {
		// a stop for an operation the server has already completed, then one more operation
		send(map[string]any{"type": stop, "id": "1"})
		if pt.Second {
			send(map[string]any{"type": start, "id": "2", "payload": map[string]any{"query": "{ __typename }"}})
		}
		time.Sleep(2 * time.Millisecond)
	}
	// the client ends the session
	wmu.Lock()
	_ = conn.WriteControl(websocket.CloseMessage, websocket.FormatCloseMessage(websocket.CloseNormalClosure, "done"), time.Now().Add(time.Second))
	wmu.Unlock()
	select {
	case <-closed:
	case <-time.After(returnWait):
	}
	conn.Close()
	srv.CloseClientConnections()
	done := make(chan struct{})
	go func() { handlers.Wait(); close(done) }()
	select {
	case <-done:
	case <-time.After(returnWait):
		st, running := sched.SurvivorsIgnoring(2*time.Second, before, "vh/vfrun.", "pgregory.net/rapid.", "net/http.(*Server).Serve", "net/http/httptest.")
		if e.Inflight() > 0 || running || len(st) == 0 {
			return vfrun.Failf("harness.inconclusive", "%s the connection handler is not back after %v, no stable witness", what, returnWait)
		}
		return vfrun.Failf("transport.websocket-handler-does-not-return", "%s the session has ended but Websocket.Do does not return; parked:\n%s", what, describe(st))
	}
	cancelSrv()
	st, running := sched.SurvivorsIgnoring(leakWait, before, "vh/vfrun.", "pgregory.net/rapid.", "net/http.(*Server).Serve", "net/http/httptest.")
	if running {
		return vfrun.Failf("harness.inconclusive", "%s goroutines still running %v after the session ended", what, leakWait)
	}
	if len(st) > 0 {
		return vfrun.Failf("transport.websocket-goroutine-left", "%s the session has ended, yet %d goroutine(s) of gqlgen are still parked:\n%s", what, len(st), describe(st))
	}
	return nil
}

func checkWS(c WCase) *vfrun.Failure {
	srvs, err := kit.Servers(c.Project)
	if err != nil {
		return vfrun.Failf("harness.no-project", "%v", err)
	}
	pr, f := kit.Prepare(srvs[0], c.Case)
	if f != nil {
		return f
	}
	ref := kit.Reference(srvs[0], pr, c.Case.Plan())
	ncalls := int64(len(ref.Resolvers))
	s := srvs[0]
	for k := int64(0); k <= ncalls; k++ {
		hows := []string{"stop", "abrupt", "servercancel"}
		if k == 0 {
			hows = []string{"stop-after-complete"}
		}
		for _, how := range hows {
			for _, second := range []bool{false, true} {
				if second && (how == "abrupt" || how == "servercancel") {
					continue
				}
				pt := WPoint{Vec: s.P.Vec, K: k, How: how, Second: second}
				if c.Only != nil && *c.Only != pt {
					continue
				}
				vfrun.Eval()
				f := runWSPoint(s, c, pt)
				for retry := 0; f != nil && f.Key == "harness.inconclusive" && retry < 2; retry++ {
					vfrun.Label("inconclusive-point-retried")
					time.Sleep(500 * time.Millisecond)
					f = runWSPoint(s, c, pt)
				}
				if f != nil {
					return f
				}
				vfrun.Label("websocket-cancel-point:" + how)
				vfrun.NonTrivial(fmt.Sprintf("%s|%d|%s|%d|%s|%v", c.Query, c.PlanSeed, c.Proto, k, how, second))
			}
		}
	}
	vfrun.SampleCat("websocket", map[string]any{"query": c.Query, "proto": c.Proto, "resolver_calls": ncalls})
	return nil
}

func genWS(t *rapid.T) WCase {
	var c WCase
	c.Project = "core"
	srvs, err := kit.Servers(c.Project)
	if err != nil {
		t.Fatalf("harness: %v", err)
	}
	s := srvs[0]
	c.Proto = rapid.SampledFrom([]string{"graphql-ws", "graphql-transport-ws"}).Draw(t, "proto")
	if rapid.IntRange(0, 2).Draw(t, "subscription?") == 0 {
		op := opgen.GenerateSubscription(t, s.Schema, opgen.Options{MaxFields: 5, MaxDepth: 3}, "tick", "ev")
		c.Query, c.Variables = op.Query, op.Variables
		// the subscription resolver hands out its channel (a nil channel would never deliver)
		c.Overrides = map[string]plan.Outcome{"ev": {Kind: plan.Value}}
	} else {
		op := opgen.Generate(t, s.Schema, opgen.Options{MaxFields: 6, MaxDepth: 3, Resolver: s.U.IsResolver})
		c.Query, c.OpName, c.Variables = op.Query, op.OpName, op.Variables
	}
	c.PlanSeed = rapid.Uint64Range(1, 1<<32).Draw(t, "planseed")
	if _, f := kit.Prepare(s, c.Case); f != nil {
		t.Skip("generated operation is not valid: " + f.Msg)
	}
	return c
}

func TestWebsocketCancel(t *testing.T) {
	vfrun.Run(t, vfrun.Prop[WCase]{Property: "C05", Name: "TestWebsocketCancel", Gen: genWS, Check: checkWS}, vfrun.N(16, 400))
}
