package c06

import (
	"bytes"
	"context"
	"fmt"
	"regexp"
	"strconv"
	"strings"
	"testing"

	"pgregory.net/rapid"

	"vh/kit"
	"vh/opgen"
	"vh/oracle"
	"vh/plan"
	"vh/refexec"
	"vh/univ"
	"vh/vfrun"
)

type Case struct {
	kit.Case
	SchedSeed uint64 `json:"sched_seed"`
	// Storm: the case is a failure storm (many sibling failures at the same instant); the tick
	// schedule is then repeated this many times
	Storm int `json:"storm,omitempty"`
}

var modes = []string{"", "yield", "delay", "reverse", "mixed", "tick", "delay", "tick"}

var indexRe = regexp.MustCompile(`\[\d+\]`)

var lastIndex = regexp.MustCompile(`^(.*)\[(\d+)\]([^\[\]]*)$`)

// reverseMap makes every resolver wait (bounded) for the completion of its next sibling: the next
// resolver key with the same parent, or the same key in the next list element.
func reverseMap(ref *refexec.Result) map[string]string {
	next := map[string]string{}
	have := map[string]bool{}
	byParent := map[string][]string{}
	var order []string
	for _, k := range ref.ResolverOrder {
		if have[k] {
			continue
		}
		have[k] = true
		order = append(order, k)
		parent := ""
		if i := strings.LastIndex(k, "."); i >= 0 {
			parent = k[:i]
		}
		byParent[parent] = append(byParent[parent], k)
	}
	for _, sibs := range byParent {
		for i := 0; i+1 < len(sibs); i++ {
			next[sibs[i]] = sibs[i+1]
		}
	}
	for _, k := range order {
		if _, ok := next[k]; ok {
			continue
		}
		if m := lastIndex.FindStringSubmatch(k); m != nil {
			n, _ := strconv.Atoi(m[2])
			cand := fmt.Sprintf("%s[%d]%s", m[1], n+1, m[3])
			if have[cand] {
				next[k] = cand
			}
		}
	}
	return next
}

func completionOrder(e *univ.Exec) string {
	var sb strings.Builder
	for _, ev := range e.Events() {
		if ev.Kind == "RE" {
			sb.WriteString(ev.Key)
			sb.WriteByte(';')
		}
	}
	return sb.String()
}

// serialRoots checks that the subtree of root field i is finished before root field i+1 starts.
func serialRoots(e *univ.Exec, roots []string) *vfrun.Failure {
	idx := func(key string) int {
		for i, r := range roots {
			if key == r || strings.HasPrefix(key, r+".") || strings.HasPrefix(key, r+"[") {
				return i
			}
		}
		return -1
	}
	maxSeen := -1
	open := map[int]int{}
	for _, ev := range e.Events() {
		if ev.Kind != "R" && ev.Kind != "RE" {
			continue
		}
		i := idx(ev.Key)
		if i < 0 {
			continue
		}
		if i < maxSeen {
			return vfrun.Failf("mutation.not-serial", "event %s %s of root field #%d (%s) after root field #%d (%s) had started", ev.Kind, ev.Key, i, roots[i], maxSeen, roots[maxSeen])
		}
		if i > maxSeen {
			for j, n := range open {
				if n > 0 && j != i {
					return vfrun.Failf("mutation.not-serial", "root field #%d (%s) started while %d resolver(s) of root field #%d (%s) were still running", i, roots[i], n, j, roots[j])
				}
			}
			maxSeen = i
		}
		if ev.Kind == "R" {
			open[i]++
		} else {
			open[i]--
		}
	}
	return nil
}

func check(c Case) *vfrun.Failure {
	srvs, err := kit.Servers(c.Project)
	if err != nil {
		return vfrun.Failf("harness.no-project", "%v", err)
	}
	pr, f := kit.Prepare(srvs[0], c.Case)
	if f != nil {
		return f
	}
	base := c.Case.Plan()
	ref := kit.Reference(srvs[0], pr, base)
	rev := reverseMap(ref)
	isMutation := pr.Op.Operation == "mutation"
	orders := map[string]bool{}
	maxInflight := int64(0)
	var first []byte
	runModes := modes
	for i := 0; i < c.Storm; i++ {
		runModes = append(append([]string{}, runModes...), "tick")
	}
	for _, s := range srvs {
		for mi, mode := range runModes {
			p := c.Case.Plan()
			p.Schedule = &plan.Schedule{Mode: mode, Seed: c.SchedSeed + uint64(mi)}
			if mode == "reverse" {
				p.Schedule.Next = rev
			}
			e := univ.NewExec(p)
			s.DefaultRecover = c.DefaultRecover
			resp := s.Do(context.Background(), e, c.Query, c.OpName, c.Variables)
			s.DefaultRecover = false
			if e.Unrepresentable > 0 {
				vfrun.Label("discarded:unrepresentable")
				return nil
			}
			vfrun.Eval()
			what := fmt.Sprintf("%s schedule=%q", s.P.Vec, mode)
			if f := oracle.Compare(what, ref, resp, e.Keys("R"), e.Keys("D")); f != nil {
				f.Key = "sched." + f.Key
				return f
			}
			if first == nil {
				first = resp.Data
			} else if !bytes.Equal(first, resp.Data) {
				return vfrun.Failf("sched.data-differs", "[%s] data bytes differ from the first schedule:\n%s\n%s", what, first, resp.Data)
			}
			if isMutation {
				if f := serialRoots(e, ref.RootOrder); f != nil {
					f.Msg = "[" + what + "] " + f.Msg
					return f
				}
			}
			orders[completionOrder(e)] = true
			if e.MaxInflight > maxInflight {
				maxInflight = e.MaxInflight
			}
		}
	}
	if isMutation {
		vfrun.Label("mutation")
	}
	if len(orders) >= 2 {
		vfrun.Label("distinct-completion-orders")
	}
	if maxInflight >= 2 {
		vfrun.Label("resolvers-overlapped")
	}
	if len(orders) >= 2 && (maxInflight >= 2 || len(ref.Elems) >= 2) {
		vfrun.NonTrivial(fmt.Sprintf("%s|%d|%v|%d", c.Query, c.PlanSeed, c.Overrides, c.SchedSeed))
	}
	vfrun.SampleCat(string(pr.Op.Operation), map[string]any{"case": c, "distinct_completion_orders": len(orders), "max_resolvers_in_flight": maxInflight})
	return nil
}

func gen(t *rapid.T) Case {
	var c Case
	c.Project = kit.DrawProject(t)
	srvs, err := kit.Servers(c.Project)
	if err != nil {
		t.Fatalf("harness: %v", err)
	}
	s := srvs[0]
	op := opgen.Generate(t, s.Schema, opgen.Options{Mutation: rapid.IntRange(0, 2).Draw(t, "mutation?") == 0, MaxFields: 20, MaxDepth: 4})
	c.Query, c.OpName, c.Variables = op.Query, op.OpName, op.Variables
	c.PlanSeed = rapid.Uint64Range(1, 1<<32).Draw(t, "planseed")
	// a quarter of the cases keep gqlgen's own recover hook
	if rapid.IntRange(0, 3).Draw(t, "defaultrecover") == 0 {
		c.DefaultRecover = true
		vfrun.Label("default-recover-hook")
	}
	c.SchedSeed = rapid.Uint64Range(1, 1<<32).Draw(t, "schedseed")
	pr, f := kit.Prepare(s, c.Case)
	if f != nil {
		t.Skip("generated operation is not valid: " + f.Msg)
	}
	ref := kit.Reference(s, pr, c.Case.Plan())
	c.Overrides = kit.DrawOverrides(t, kit.Candidates(ref), 3, true)
	// a storm: the same resolver field under every element of a list fails, so that under the tick
	// schedule several failures are recorded at the same instant
	if rapid.IntRange(0, 3).Draw(t, "storm?") == 0 {
		groups := map[string][]string{}
		var order []string
		for _, k := range ref.Resolvers {
			pat := indexRe.ReplaceAllString(k, "[*]")
			if pat == k {
				continue
			}
			if len(groups[pat]) == 0 {
				order = append(order, pat)
			}
			groups[pat] = append(groups[pat], k)
		}
		var big []string
		for _, pat := range order {
			if len(groups[pat]) >= 2 {
				big = append(big, pat)
			}
		}
		if len(big) > 0 {
			pat := big[rapid.IntRange(0, len(big)-1).Draw(t, "stormgroup")]
			if c.Overrides == nil {
				c.Overrides = map[string]plan.Outcome{}
			}
			// make the innermost list of the pattern long, then fail the field under every element
			keys := groups[pat]
			if i := strings.LastIndex(pat, "[*]"); i >= 0 {
				parent := keys[0][:strings.LastIndex(keys[0], "[")]
				if _, isResolver := ref.Pos[parent]; isResolver {
					n := 12
					o := c.Overrides[parent]
					if o.Kind == "" || o.Kind == plan.Value {
						o.Kind, o.Len = plan.Value, &n
						c.Overrides[parent] = o
						ref2 := kit.Reference(s, pr, c.Case.Plan())
						keys = nil
						for _, k := range ref2.Resolvers {
							if indexRe.ReplaceAllString(k, "[*]") == pat {
								keys = append(keys, k)
							}
						}
					}
				}
				_ = i
			}
			for i, k := range keys {
				if i >= 16 {
					break
				}
				c.Overrides[k] = plan.Outcome{Kind: plan.Error, Msg: fmt.Sprintf("storm%d", i)}
			}
			c.Storm = 12
			vfrun.Label("failure-storm")
		}
	}
	// a list element of abstract type that no implementor matches: the generated type switch panics
	// in the element's goroutine and the list-level handler has to contain it - under every schedule
	var abstract []string
	for _, el := range ref.Elems {
		if el.Abstract && el.ListLen >= 2 {
			abstract = append(abstract, el.Key)
		}
	}
	if len(abstract) > 0 && rapid.IntRange(0, 2).Draw(t, "foreign?") == 0 {
		if c.Overrides == nil {
			c.Overrides = map[string]plan.Outcome{}
		}
		c.Overrides[abstract[rapid.IntRange(0, len(abstract)-1).Draw(t, "foreignelem")]] = plan.Outcome{Kind: plan.Foreign}
		vfrun.Label("foreign-list-element")
	}
	return c
}

// stormQueries: selections in which one non-null resolver field sits under every element of a list
// (on the probe whose schema declares an executable directive, so that fields resolve through the
// generated field middleware as well).
var stormQueries = []string{
	`{ as { id rsnn } }`,
	`{ asnn { rsnn name } s }`,
	`{ asn { x: rsnn y: rsnn } }`,
	`{ as { bnn { id } rs } }`,
	`{ a { as { rsnn bnn { id } } } }`,
	`{ nodes { id ... on A { rsnn } } }`,
	`{ as { guardedNN id } }`,
}

func genStorm(t *rapid.T) Case {
	var c Case
	c.Project = "roots"
	srvs, err := kit.Servers(c.Project)
	if err != nil {
		c.Project = "core"
		if srvs, err = kit.Servers(c.Project); err != nil {
			t.Fatalf("harness: %v", err)
		}
	}
	s := srvs[0]
	c.Query = rapid.SampledFrom(stormQueries).Draw(t, "stormquery")
	c.PlanSeed = rapid.Uint64Range(1, 1<<32).Draw(t, "planseed")
	// a quarter of the cases keep gqlgen's own recover hook
	if rapid.IntRange(0, 3).Draw(t, "defaultrecover") == 0 {
		c.DefaultRecover = true
		vfrun.Label("default-recover-hook")
	}
	c.SchedSeed = rapid.Uint64Range(1, 1<<32).Draw(t, "schedseed")
	pr, f := kit.Prepare(s, c.Case)
	if f != nil {
		t.Fatalf("harness: storm query invalid: %s", f.Msg)
	}
	c.Overrides = map[string]plan.Outcome{}
	n := rapid.IntRange(4, 16).Draw(t, "stormwidth")
	// every list resolver the default plan reaches is made n long, then every non-null resolver
	// field below a list element fails
	for round := 0; round < 3; round++ {
		ref := kit.Reference(s, pr, c.Case.Plan())
		for _, k := range ref.Resolvers {
			if ref.Pos[k].List {
				if _, set := c.Overrides[k]; !set {
					c.Overrides[k] = plan.Outcome{Kind: plan.Value, Len: &n}
				}
			}
		}
	}
	ref := kit.Reference(s, pr, c.Case.Plan())
	i := 0
	for _, k := range ref.Resolvers {
		if strings.Contains(k, "[") && ref.Pos[k].NonNull && !ref.Pos[k].List && i < 24 {
			c.Overrides[k] = plan.Outcome{Kind: plan.Error, Msg: fmt.Sprintf("storm%d", i)}
			i++
		}
	}
	c.Storm = 16
	vfrun.Label("failure-storm")
	return c
}

// twinQueries: the same selection under two root aliases, so that the two subtrees have equal paths
// below the root key; positions of one subtree must never be taken for the other's.
var twinQueries = []string{
	`{ ta: a { rsnn bnn { id } } tb: a { rsnn bnn { id } } }`,
	`{ ta: as { rsnn id } tb: as { rsnn id } }`,
	`{ ta: ann { rsnn nn } tb: a { rsnn nn } }`,
	`{ ta: asnn { bnn { id ann { id } } } tb: asnn { bnn { id ann { id } } } }`,
	`{ ta: a { x: bnn { id } } tb: a { x: bnn { id } } s }`,
}

func genTwin(t *rapid.T) Case {
	var c Case
	c.Project = rapid.SampledFrom([]string{"core", "roots"}).Draw(t, "project")
	srvs, err := kit.Servers(c.Project)
	if err != nil {
		c.Project = "core"
		if srvs, err = kit.Servers(c.Project); err != nil {
			t.Fatalf("harness: %v", err)
		}
	}
	s := srvs[0]
	c.Query = rapid.SampledFrom(twinQueries).Draw(t, "twinquery")
	c.PlanSeed = rapid.Uint64Range(1, 1<<32).Draw(t, "planseed")
	// a quarter of the cases keep gqlgen's own recover hook
	if rapid.IntRange(0, 3).Draw(t, "defaultrecover") == 0 {
		c.DefaultRecover = true
		vfrun.Label("default-recover-hook")
	}
	c.SchedSeed = rapid.Uint64Range(1, 1<<32).Draw(t, "schedseed")
	pr, f := kit.Prepare(s, c.Case)
	if f != nil {
		t.Fatalf("harness: twin query invalid: %s", f.Msg)
	}
	c.Overrides = map[string]plan.Outcome{"ta": {Kind: plan.Value}, "tb": {Kind: plan.Value}}
	ref := kit.Reference(s, pr, c.Case.Plan())
	// the same non-null resolver position fails under both aliases: with nil (the runtime adds the
	// null error itself, after asking whether the field already has one) or with an error
	var under []string
	for _, k := range ref.Resolvers {
		if strings.HasPrefix(k, "ta") && k != "ta" && ref.Pos[k].NonNull && !ref.Pos[k].List {
			under = append(under, k)
		}
	}
	if len(under) == 0 {
		t.Skip("no non-null resolver position below the twins under this plan")
	}
	k := under[rapid.IntRange(0, len(under)-1).Draw(t, "twinpos")]
	kinds := []plan.Outcome{{Kind: plan.Nil}, {Kind: plan.Error, Msg: "twin"}}
	c.Overrides[k] = kinds[rapid.IntRange(0, 1).Draw(t, "kinda")]
	c.Overrides["tb"+k[2:]] = kinds[rapid.IntRange(0, 1).Draw(t, "kindb")]
	vfrun.Label("twin-paths")
	return c
}

// TestTwinPaths: equal paths below two different root keys.
func TestTwinPaths(t *testing.T) {
	vfrun.Run(t, vfrun.Prop[Case]{Property: "C06", Name: "TestTwinPaths", Gen: genTwin, Check: check}, vfrun.N(160, 4000))
}

// TestFailureStorm: many sibling failures recorded at the same instant (tick schedule, repeated): the
// multiset of errors has to be the reference's every time.
func TestFailureStorm(t *testing.T) {
	vfrun.Run(t, vfrun.Prop[Case]{Property: "C06", Name: "TestFailureStorm", Gen: genStorm, Check: check}, vfrun.N(160, 4000))
}

func TestSchedules(t *testing.T) {
	vfrun.Run(t, vfrun.Prop[Case]{Property: "C06", Name: "TestSchedules", Gen: gen, Check: check}, vfrun.N(1200, 30000))
}
