package c07

import (
	"bytes"
	"context"
	"crypto/sha256"
	"encoding/hex"
	"fmt"
	"mime/multipart"
	"net/http"
	"net/http/httptest"
	"strings"
	"sync"
	"testing"

	"github.com/99designs/gqlgen/graphql/handler"
	"github.com/99designs/gqlgen/graphql/handler/extension"
	"github.com/99designs/gqlgen/graphql/handler/lru"
	"github.com/vektah/gqlparser/v2/ast"
	"pgregory.net/rapid"

	"vh/hsrv"
	"vh/kit"
	"vh/plan"
	"vh/proj"
	"vh/univ"
	"vh/vfrun"
)

// the pool deliberately shares query text between requests that differ in everything else
var texts = []string{
	`query A($n: Int = 1, $f: Boolean = true) { echo(n: $n) s @include(if: $f) } query B { i echo(s: "b") }`,
	`query($s: String) { echo(s: $s) snn }`,
	`mutation M($x: Int) { m1(x: $x) { id rs arg(x: 2) } m4 }`,
	`{ nope }`,
	`{ a { id rs arg(x: 2) b { v } } s }`,
	`{ s`,
	// texts that share a long prefix (or differ in one character) with another one
	`{ a { id rs arg(x: 2) b { v } } i }`,
	`query A($n: Int = 1, $f: Boolean = true) { echo(n: $n) s @include(if: $f) } query B { i echo(s: "c") }`,
	`query($s: String) { echo(s: $s) s }`,
	// the same response key selected several times in one selection set, merged under variables
	`query($f: Boolean = true) { a { id rs name } a @include(if: $f) { b { v } } a @skip(if: $f) { n nn } s }`,
	`query($f: Boolean = true) { nodes { id __typename ... on A { rs name n } } nodes @include(if: $f) { ... on A { nn } } nodes @skip(if: $f) { ... on B { v } } }`,
	// pairs of texts that differ only in white space where white space matters: inside a string
	// value, inside a block string, and at the end of a comment
	`{ echo(s: "a  b") }`,
	`{ echo(s: "a b") }`,
	"{ echo(s: \"\"\"x\n  y\"\"\") }",
	`{ echo(s: """x y""") }`,
	"{ s # and\n i }",
	"{ s # and i\n }",
}

// textSibling: the text of the pool that is nearest to texts[i] (same text up to white space, or
// up to one character)
var textSibling = map[int]int{11: 12, 12: 11, 13: 14, 14: 13, 15: 16, 16: 15, 0: 7, 7: 0, 1: 8, 8: 1, 4: 6, 6: 4}

var opNames = []string{"", "A", "B", "M", "Zzz"}
var variables = []string{"", `{"f":false}`, `{"f":true}`, `{"n":2}`, `{"n":3,"f":false}`, `{"s":"x"}`, `{"x":7}`, `{"n":"bad"}`, `{}`, `null`, `"x"`, `[1,2]`, `5`}
var extensionsPool = []string{"", `{"echo":"e1"}`, `{"echo":"e2","other":[1]}`, "APQ", "APQHASHONLY", "APQWRONG", `"notanobject"`, `[{"echo":"e3"}]`}
var echoHeaders = []string{"", "h1", "h2"}

type Req struct {
	Transport string `json:"transport"` // post get graphql urlencoded multipart sse multipartmixed
	Text      int    `json:"text"`
	OpName    int    `json:"operation_name"`
	HasOpName bool   `json:"has_operation_name"`
	Vars      int    `json:"variables"`
	Ext       int    `json:"extensions"`
	Header    int    `json:"header"`
	Accept    string `json:"accept,omitempty"`
}

type Case struct {
	Requests   []Req `json:"requests"`
	Goroutines int   `json:"goroutines"`
	// RespHeaders: the transports are configured with response headers of their own (none of them
	// Content-Type, which stays negotiated per request)
	RespHeaders bool `json:"resp_headers,omitempty"`
	// Limit: the servers have a complexity limit, and the cost of echo depends on its argument n
	// (so on the request's variables)
	Limit bool `json:"complexity_limit,omitempty"`
}

func hashOf(t string) string {
	b := sha256.Sum256([]byte(t))
	return hex.EncodeToString(b[:])
}

func (r Req) build() *http.Request {
	hr := hsrv.Req{Transport: r.Transport, Query: texts[r.Text], HasQuery: true, OpName: opNames[r.OpName], HasOpName: r.HasOpName, Variables: variables[r.Vars], Headers: map[string]string{}}
	switch extensionsPool[r.Ext] {
	case "APQ":
		hr.Extensions = fmt.Sprintf(`{"persistedQuery":{"version":1,"sha256Hash":%q}}`, hashOf(texts[r.Text]))
	case "APQHASHONLY":
		hr.Extensions = fmt.Sprintf(`{"persistedQuery":{"version":1,"sha256Hash":%q}}`, hashOf(texts[r.Text]))
		hr.HasQuery, hr.Query = false, ""
	case "APQWRONG":
		// the hash of another text of the pool: a later hash-only request for that text must not
		// find this one (a rejected request leaves no memory)
		hr.Extensions = fmt.Sprintf(`{"persistedQuery":{"version":1,"sha256Hash":%q}}`, hashOf(texts[(r.Text+1)%len(texts)]))
	default:
		hr.Extensions = extensionsPool[r.Ext]
	}
	if echoHeaders[r.Header] != "" {
		hr.Headers["X-Echo"] = echoHeaders[r.Header]
	}
	if r.Accept != "" {
		hr.Headers["Accept"] = r.Accept
	}
	switch r.Transport {
	case "sse":
		hr.Transport = "post"
		hr.Headers["Accept"] = "text/event-stream"
	case "multipartmixed":
		hr.Transport = "post"
		hr.Headers["Accept"] = "multipart/mixed"
	case "multipart":
		var buf bytes.Buffer
		w := multipart.NewWriter(&buf)
		_ = w.SetBoundary("vhboundary")
		ops := hsrv.Req{Transport: "post", Query: hr.Query, HasQuery: hr.HasQuery, OpName: hr.OpName, HasOpName: hr.HasOpName, Variables: hr.Variables, Extensions: hr.Extensions}.Build()
		var body bytes.Buffer
		body.ReadFrom(ops.Body)
		_ = w.WriteField("operations", body.String())
		_ = w.WriteField("map", "{}")
		w.Close()
		req := httptest.NewRequest("POST", "/graphql", &buf)
		req.Header.Set("Content-Type", w.FormDataContentType())
		for k, v := range hr.Headers {
			req.Header.Set(k, v)
		}
		return req
	case "urlencoded":
		r2 := hr
		r2.Transport = "graphql"
		req := r2.Build()
		req.Header.Set("Content-Type", "application/x-www-form-urlencoded")
		return req
	}
	return hr.Build()
}

// limitOn: every handler built while it is set has the complexity limit (the servers of one case
// are all built the same way).
var limitOn bool

func newHandler(s *proj.Server, apq map[string]string, respHeaders bool) *handler.Server {
	cfg := hsrv.Config{}
	if respHeaders {
		// a fresh map per handler: what a server is configured with is its own
		cfg.ResponseHeaders = map[string][]string{"X-Harness": {"configured"}, "Cache-Control": {"no-store"}}
	}
	h := hsrv.New(s, cfg)
	h.SetQueryCache(lru.New[*ast.QueryDocument](3))
	c := lru.New[string](100)
	for k, v := range apq {
		c.Add(context.Background(), k, v)
	}
	h.Use(extension.AutomaticPersistedQuery{Cache: c})
	if limitOn {
		// echo(n: $n) costs 3n: n = 1 and 2 stay within the limit, n = 3 does not
		s.U.SetComplexity(map[string]univ.CSpec{"Query.echo": {B: 3}})
		h.Use(extension.FixedComplexityLimit(8))
	}
	return h
}

type answer struct {
	status int
	ct     string
	body   []byte
}

func serve(h http.Handler, s *proj.Server, r Req) answer {
	e := univ.NewExec(plan.New(21))
	e.Echo = true
	req := r.build()
	req = req.WithContext(univ.WithExec(req.Context(), e))
	res := hsrv.Serve(h, req)
	return answer{res.Status, res.Header.Get("Content-Type"), res.Body}
}

// registers: does this request register its text with APQ (model)?
func (r Req) registers() bool {
	if extensionsPool[r.Ext] != "APQ" {
		return false
	}
	// a request whose members have the wrong JSON type is rejected while the body is decoded,
	// before the persisted-query extension sees it
	if v := variables[r.Vars]; v != "" && v != "null" && !strings.HasPrefix(v, "{") {
		return false
	}
	return r.Transport == "post" || r.Transport == "get" || r.Transport == "multipart" || r.Transport == "sse" || r.Transport == "multipartmixed"
}

func check(c Case) *vfrun.Failure {
	ss, err := kit.Servers("core")
	if err != nil {
		return vfrun.Failf("harness.no-project", "%v", err)
	}
	s := ss[0]
	s.U.SetExec(univ.NewExec(plan.New(21))) // fallback; every request carries its own Exec
	limitOn = c.Limit
	defer func() { limitOn = false; s.U.SetComplexity(nil) }()
	if c.Limit {
		vfrun.Label("servers-with-complexity-limit")
	}
	long := newHandler(s, nil, c.RespHeaders)
	if c.Goroutines <= 1 {
		apq := map[string]string{}
		var prev *Req
		for i, r := range c.Requests {
			got := serve(long, s, r)
			fresh := serve(newHandler(s, apq, c.RespHeaders), s, r)
			vfrun.Eval()
			if got.status != fresh.status || got.ct != fresh.ct || !bytes.Equal(got.body, fresh.body) {
				return vfrun.Failf("isolation.response-differs-from-fresh-server", "request %d of the history (%+v) answered\n  %d %q %s\nbut a fresh server answers it alone with\n  %d %q %s\nhistory: %+v", i, r, got.status, got.ct, got.body, fresh.status, fresh.ct, fresh.body, c.Requests[:i+1])
			}
			if r.registers() {
				apq[hashOf(texts[r.Text])] = texts[r.Text]
			}
			if prev != nil && prev.Transport == r.Transport && prev.Text == r.Text && (prev.Vars != r.Vars || prev.OpName != r.OpName || prev.HasOpName != r.HasOpName || prev.Ext != r.Ext || prev.Header != r.Header) {
				vfrun.Label("same-text-different-members")
				superset := (variables[prev.Vars] != "" && variables[r.Vars] == "") || (prev.HasOpName && !r.HasOpName) || (extensionsPool[prev.Ext] != "" && extensionsPool[r.Ext] == "") || (prev.Header != 0 && r.Header == 0)
				if superset {
					vfrun.Label("predecessor-had-superset-of-optional-members")
					vfrun.NonTrivial(fmt.Sprintf("%+v|%+v", *prev, r))
				}
			}
			rr := r
			prev = &rr
		}
		vfrun.SampleCat("sequential", c)
		return nil
	}
	// concurrent: every request is registered with APQ up front, so that registration order does
	// not matter; every answer must equal the fresh server's
	apq := map[string]string{}
	for _, t := range texts {
		apq[hashOf(t)] = t
	}
	long = newHandler(s, apq, c.RespHeaders)
	type out struct {
		r   Req
		got answer
	}
	res := make([][]out, c.Goroutines)
	var wg sync.WaitGroup
	for g := 0; g < c.Goroutines; g++ {
		wg.Add(1)
		go func(g int) {
			defer wg.Done()
			for i := range c.Requests {
				r := c.Requests[(i+g*3)%len(c.Requests)]
				res[g] = append(res[g], out{r, serve(long, s, r)})
			}
		}(g)
	}
	wg.Wait()
	for _, rs := range res {
		for _, o := range rs {
			fresh := serve(newHandler(s, apq, c.RespHeaders), s, o.r)
			vfrun.Eval()
			if o.got.status != fresh.status || o.got.ct != fresh.ct || !bytes.Equal(o.got.body, fresh.body) {
				return vfrun.Failf("isolation.response-differs-from-fresh-server", "[%d goroutines] request %+v answered\n  %d %q %s\nbut a fresh server answers it alone with\n  %d %q %s", c.Goroutines, o.r, o.got.status, o.got.ct, o.got.body, fresh.status, fresh.ct, fresh.body)
			}
		}
	}
	vfrun.Label("concurrent-batch")
	vfrun.NonTrivial(fmt.Sprintf("%+v", c))
	vfrun.SampleCat("concurrent", c)
	return nil
}

func genReq(t *rapid.T, pin *Req) Req {
	r := Req{
		Transport: rapid.SampledFrom([]string{"post", "post", "post", "get", "graphql", "urlencoded", "multipart", "sse", "multipartmixed"}).Draw(t, "transport"),
		Text:      rapid.IntRange(0, len(texts)-1).Draw(t, "text"),
		OpName:    rapid.IntRange(0, len(opNames)-1).Draw(t, "opname"),
		HasOpName: rapid.Bool().Draw(t, "hasop"),
		Vars:      rapid.IntRange(0, len(variables)-1).Draw(t, "vars"),
		Ext:       rapid.IntRange(0, len(extensionsPool)-1).Draw(t, "ext"),
		Header:    rapid.IntRange(0, len(echoHeaders)-1).Draw(t, "hdr"),
		Accept:    rapid.SampledFrom([]string{"", "", "application/json", "application/graphql-response+json", "*/*"}).Draw(t, "accept"),
	}
	if pin != nil {
		if sib, ok := textSibling[pin.Text]; ok && rapid.IntRange(0, 3).Draw(t, "sibling") == 0 {
			// the nearest other text right after its neighbour, while that one is still cached
			r.Transport, r.Text = pin.Transport, sib
			return r
		}
	}
	if pin != nil && rapid.IntRange(0, 2).Draw(t, "sticky") != 0 {
		// stay on the predecessor's transport and text: that is where leaks would show
		r.Transport, r.Text = pin.Transport, pin.Text
		if rapid.Bool().Draw(t, "drop") {
			// drop optional members the predecessor had
			r.Vars, r.HasOpName, r.Ext, r.Header = 0, false, 0, 0
		}
	}
	return r
}

func gen(concurrent bool) func(t *rapid.T) Case {
	return func(t *rapid.T) Case {
		var c Case
		n := rapid.IntRange(2, 25).Draw(t, "n")
		var prev *Req
		for i := 0; i < n; i++ {
			r := genReq(t, prev)
			if concurrent && extensionsPool[r.Ext] == "APQWRONG" {
				r.Ext = 0
			}
			c.Requests = append(c.Requests, r)
			prev = &c.Requests[len(c.Requests)-1]
		}
		if concurrent {
			c.Goroutines = rapid.IntRange(2, 8).Draw(t, "goroutines")
		}
		c.RespHeaders = rapid.Bool().Draw(t, "respheaders")
		c.Limit = rapid.IntRange(0, 2).Draw(t, "limit") == 0
		if c.Limit {
			// several requests for the same operation of the same text whose variables put it on
			// either side of the limit
			for i := range c.Requests {
				if rapid.IntRange(0, 2).Draw(t, "costly") == 0 {
					r := &c.Requests[i]
					r.Text = rapid.SampledFrom([]int{0, 7}).Draw(t, "costlytext")
					r.OpName, r.HasOpName = 1, true
					r.Vars = rapid.SampledFrom([]int{0, 3, 4}).Draw(t, "costlyvars")
					if extensionsPool[r.Ext] != "" && !strings.HasPrefix(extensionsPool[r.Ext], "{") {
						r.Ext = 0
					}
				}
			}
		}
		return c
	}
}

func TestHistories(t *testing.T) {
	vfrun.Run(t, vfrun.Prop[Case]{Property: "C07", Name: "TestHistories", Gen: gen(false), Check: check}, vfrun.N(1200, 120000))
}

func TestConcurrent(t *testing.T) {
	vfrun.Run(t, vfrun.Prop[Case]{Property: "C07", Name: "TestConcurrent", Gen: gen(true), Check: check}, vfrun.N(150, 12000))
}
