package c07

import (
	"encoding/json"
	"fmt"
	"net/http/httptest"
	"strings"
	"testing"
	"time"

	"github.com/gorilla/websocket"
	"pgregory.net/rapid"

	"vh/hsrv"
	"vh/kit"
	"vh/plan"
	"vh/proj"
	"vh/univ"
	"vh/vfrun"
)

// Operations in flight beside each other on ONE websocket connection: each of them is answered, under
// its own id, with exactly the frames a fresh server sends when it runs that operation alone on a
// connection of its own.

type WSOp struct {
	Text   int `json:"text"`
	OpName int `json:"operation_name"`
	Vars   int `json:"variables"`
}

type WSCase struct {
	Proto string `json:"proto"`
	Ops   []WSOp `json:"ops"`
}

var wsTexts = append(append([]string{}, texts...), `subscription { tick { id rs } }`, `subscription S($n: Int) { tick(n: $n) { id } }`)

func (o WSOp) payload() map[string]any {
	p := map[string]any{"query": wsTexts[o.Text]}
	if opNames[o.OpName] != "" {
		p["operationName"] = opNames[o.OpName]
	}
	if v := variables[o.Vars]; v != "" {
		p["variables"] = json.RawMessage(v)
	}
	return p
}

// session starts every operation back to back on one connection and returns, per id, the frames
// (type + payload) it received, in order.
func session(s *proj.Server, proto string, ops []WSOp) (map[string][]string, *vfrun.Failure) {
	e := univ.NewExec(plan.New(21))
	e.Echo = true
	s.U.SetExec(e)
	h := hsrv.New(s, hsrv.Config{Transports: []string{"websocket", "post"}})
	srv := httptest.NewServer(h)
	defer srv.Close()
	d := websocket.Dialer{Subprotocols: []string{proto}, HandshakeTimeout: 5 * time.Second}
	conn, _, err := d.Dial("ws"+strings.TrimPrefix(srv.URL, "http"), nil)
	if err != nil {
		return nil, vfrun.Failf("harness.dial", "%v", err)
	}
	defer conn.Close()
	send := func(v any) { b, _ := json.Marshal(v); _ = conn.WriteMessage(websocket.TextMessage, b) }
	start := "start"
	if proto == "graphql-transport-ws" {
		start = "subscribe"
	}
	send(map[string]any{"type": "connection_init"})
	for i, o := range ops {
		send(map[string]any{"type": start, "id": fmt.Sprint(i), "payload": o.payload()})
	}
	got := map[string][]string{}
	done := map[string]bool{}
	errored := map[string]bool{}
	_ = conn.SetReadDeadline(time.Now().Add(6 * time.Second))
	for len(done) < len(ops) {
		if len(done)+len(errored) >= len(ops) {
			// every operation has at least its error: a completion may still follow, briefly
			_ = conn.SetReadDeadline(time.Now().Add(400 * time.Millisecond))
		}
		_, b, err := conn.ReadMessage()
		if err != nil {
			if len(done)+len(errored) >= len(ops) {
				break
			}
			return got, vfrun.Failf("isolation.ws-operation-not-terminated", "%s: %d operations started on one connection, %d terminated (%v); frames %v", proto, len(ops), len(done), err, got)
		}
		var f struct {
			Type    string          `json:"type"`
			ID      string          `json:"id"`
			Payload json.RawMessage `json:"payload"`
		}
		if json.Unmarshal(b, &f) != nil || f.ID == "" {
			continue // ack, keep-alive
		}
		got[f.ID] = append(got[f.ID], f.Type+" "+string(f.Payload))
		switch f.Type {
		case "complete":
			done[f.ID] = true
			delete(errored, f.ID)
		case "error":
			if !done[f.ID] {
				errored[f.ID] = true
			}
		}
	}
	return got, nil
}

func checkWSOps(c WSCase) *vfrun.Failure {
	ss, err := kit.Servers("core")
	if err != nil {
		return vfrun.Failf("harness.no-project", "%v", err)
	}
	s := ss[0]
	together, f := session(s, c.Proto, c.Ops)
	vfrun.Eval()
	if f != nil {
		return f
	}
	for i, o := range c.Ops {
		alone, f := session(s, c.Proto, []WSOp{o})
		if f != nil {
			return vfrun.Failf("harness.ws-alone", "operation %+v alone: %s", o, f.Msg)
		}
		a, b := strings.Join(together[fmt.Sprint(i)], "\n"), strings.Join(alone["0"], "\n")
		if a != b {
			return vfrun.Failf("isolation.response-differs-from-fresh-server", "[%s, %d operations on one connection] operation %d (%+v) received\n%s\nbut a fresh server answers it alone with\n%s\nall frames: %v", c.Proto, len(c.Ops), i, o, a, b, together)
		}
	}
	for id := range together {
		var n int
		if _, err := fmt.Sscanf(id, "%d", &n); err != nil || n < 0 || n >= len(c.Ops) {
			return vfrun.Failf("isolation.ws-frame-for-unknown-id", "[%s] frames for id %q, which no operation has: %v", c.Proto, id, together[id])
		}
	}
	vfrun.Label("websocket-operations-on-one-connection")
	if len(c.Ops) >= 2 {
		vfrun.NonTrivial(fmt.Sprintf("%+v", c))
	}
	vfrun.SampleCat("websocket", c)
	return nil
}

func genWSOps(t *rapid.T) WSCase {
	c := WSCase{Proto: rapid.SampledFrom([]string{"graphql-ws", "graphql-transport-ws"}).Draw(t, "proto")}
	n := rapid.IntRange(1, 6).Draw(t, "nops")
	valid := []int{0, 1, 2, 3, 4, 5, 6, 8} // variables that are absent or an object (a websocket payload is decoded strictly)
	for i := 0; i < n; i++ {
		c.Ops = append(c.Ops, WSOp{Text: rapid.IntRange(0, len(wsTexts)-1).Draw(t, "text"), OpName: rapid.IntRange(0, len(opNames)-1).Draw(t, "opname"), Vars: valid[rapid.IntRange(0, len(valid)-1).Draw(t, "vars")]})
	}
	return c
}

func TestWebsocketOperations(t *testing.T) {
	vfrun.Run(t, vfrun.Prop[WSCase]{Property: "C07", Name: "TestWebsocketOperations", Gen: genWSOps, Check: checkWSOps}, vfrun.N(300, 12000))
}
