package c08

import (
	"bytes"
	"context"
	"encoding/json"
	"fmt"
	"math"
	"strconv"
	"strings"
	"testing"
	"time"
	"unicode/utf8"

	"github.com/99designs/gqlgen/graphql"
	"github.com/google/uuid"
	"github.com/vektah/gqlparser/v2/ast"
	"github.com/vektah/gqlparser/v2/gqlerror"
	"pgregory.net/rapid"

	"vh/deferchk"
	"vh/strictjson"
	"vh/vfrun"
)

func marshal(m graphql.Marshaler) []byte {
	var b bytes.Buffer
	m.MarshalGQL(&b)
	return b.Bytes()
}

// expectedDecode is what the property prescribes for a Go string: itself when valid UTF-8, otherwise
// each offending byte replaced by U+FFFD.
func expectedDecode(s string) string { return string([]rune(s)) }

// ---------------------------------------------------------------------------------------------
// strings

type StringCase struct {
	B []byte `json:"b"`
}

var hostileChunks = [][]byte{
	{0x80}, {0xbf}, {0xc0, 0x80}, {0xc3}, {0xe2, 0x82}, {0xed, 0xa0, 0x80}, {0xed, 0xbf, 0xbf}, {0xf0, 0x9f, 0x98},
	{0xf4, 0x90, 0x80, 0x80}, {0xff}, {0xfe}, {0xf8, 0x88, 0x80, 0x80, 0x80},
	[]byte("\""), []byte("\\"), []byte("\\\""), []byte("/"), []byte(" "), []byte(" "), []byte("�"),
	[]byte("\x00"), []byte("\x01"), []byte("\x1f"), []byte("\x7f"), []byte("\b"), []byte("\f"), []byte("\n"), []byte("\r"), []byte("\t"),
	[]byte("\\u0000"), []byte("\\n"), []byte("é"), []byte("😀"), []byte("\U0010ffff"), []byte("</script>"), []byte("&"),
}

func genBytes(t *rapid.T) []byte {
	n := rapid.IntRange(0, 8).Draw(t, "chunks")
	var out []byte
	for i := 0; i < n; i++ {
		switch rapid.IntRange(0, 4).Draw(t, "kind") {
		case 0:
			out = append(out, rapid.SampledFrom(hostileChunks).Draw(t, "hostile")...)
		case 1:
			out = append(out, rapid.SliceOfN(rapid.Byte(), 0, 6).Draw(t, "raw")...)
		case 2:
			out = append(out, rapid.StringN(0, 6, -1).Draw(t, "uni")...)
		case 3:
			out = append(out, byte(rapid.IntRange(0, 0x20).Draw(t, "ctl")))
		default:
			out = append(out, rapid.StringMatching(`[a-zA-Z0-9 "\\]{0,6}`).Draw(t, "ascii")...)
		}
	}
	return out
}

func stringClass(b []byte) (nontrivial bool, label string) {
	if !utf8.Valid(b) {
		return true, "string:invalid-utf8"
	}
	for _, r := range string(b) {
		if r < 0x20 || r == '"' || r == '\\' {
			return true, "string:needs-escape"
		}
	}
	for _, c := range b {
		if c >= 0x80 {
			return true, "string:non-ascii"
		}
	}
	return false, "string:plain"
}

func checkString(c StringCase) *vfrun.Failure {
	s := string(c.B)
	nt, label := stringClass(c.B)
	vfrun.Label(label)
	if nt {
		vfrun.NonTrivial("s:" + s)
	}
	vfrun.SampleCat("string", map[string]any{"kind": "string", "bytes": fmt.Sprintf("%q", s)})
	want := expectedDecode(s)
	for i, m := range []graphql.Marshaler{graphql.MarshalString(s), graphql.MarshalID(s)} {
		name := []string{"MarshalString", "MarshalID"}[i]
		out := marshal(m)
		v, err := strictjson.Parse(out)
		if err != nil {
			key := "string.not-json"
			if !utf8.Valid(c.B) && !utf8.Valid(out) {
				key = "string.invalid-utf8-verbatim"
			}
			return vfrun.Failf(key, "%s(%q) wrote %q: %v", name, s, out, err)
		}
		if v.Kind != strictjson.String || v.Str != want {
			return vfrun.Failf("string.roundtrip", "%s(%q) wrote %q which decodes to %q, want %q", name, s, out, v.Str, want)
		}
		// encoding/json must agree with the strict parser
		var js string
		if err := json.Unmarshal(out, &js); err != nil || js != want {
			return vfrun.Failf("string.roundtrip", "%s(%q) wrote %q; encoding/json decodes %q err=%v", name, s, out, js, err)
		}
	}
	back, err := graphql.UnmarshalString(want)
	if err != nil || back != want {
		return vfrun.Failf("string.unmarshal", "UnmarshalString(%q) = %q, %v", want, back, err)
	}
	backID, err := graphql.UnmarshalID(want)
	if err != nil || backID != want {
		return vfrun.Failf("string.unmarshal", "UnmarshalID(%q) = %q, %v", want, backID, err)
	}
	return nil
}

func TestString(t *testing.T) {
	vfrun.Run(t, vfrun.Prop[StringCase]{Property: "C08", Name: "TestString",
		Gen:   func(t *rapid.T) StringCase { return StringCase{B: genBytes(t)} },
		Check: checkString}, vfrun.N(60000, 16000000))
}

// ---------------------------------------------------------------------------------------------
// integers

type IntCase struct {
	Kind string `json:"kind"`
	I    int64  `json:"i"`
	U    uint64 `json:"u"`
}

var intKinds = []string{"Int", "Int32", "Int64", "Uint", "Uint32", "Uint64", "IntID", "UintID"}

var intBoundaries = []int64{0, 1, -1, math.MaxInt8, math.MinInt8, math.MaxInt16, math.MinInt16, math.MaxInt32, math.MinInt32,
	math.MaxUint32, math.MaxInt64, math.MinInt64, 1 << 53, -(1 << 53), math.MaxUint16, math.MaxUint8, 10, 100, 1e9, 1e18}

func genInt64(t *rapid.T) (int64, bool) {
	switch rapid.IntRange(0, 2).Draw(t, "how") {
	case 0:
		b := rapid.SampledFrom(intBoundaries).Draw(t, "boundary")
		d := int64(rapid.IntRange(-2, 2).Draw(t, "delta"))
		if (d > 0 && b > math.MaxInt64-d) || (d < 0 && b < math.MinInt64-d) {
			d = 0
		}
		return b + d, true
	case 1:
		return rapid.Int64().Draw(t, "i64"), false
	default:
		return int64(rapid.Int32().Draw(t, "i32")), false
	}
}

func genUint64(t *rapid.T) (uint64, bool) {
	switch rapid.IntRange(0, 2).Draw(t, "how") {
	case 0:
		b := rapid.SampledFrom([]uint64{0, 1, math.MaxUint8, math.MaxUint16, math.MaxInt32, math.MaxUint32, math.MaxInt64, math.MaxUint64, 1 << 53}).Draw(t, "boundary")
		d := rapid.IntRange(-2, 2).Draw(t, "delta")
		if d >= 0 {
			if b > math.MaxUint64-uint64(d) {
				return b, true
			}
			return b + uint64(d), true
		}
		if b < uint64(-d) {
			return b, true
		}
		return b - uint64(-d), true
	case 1:
		return rapid.Uint64().Draw(t, "u64"), false
	default:
		return uint64(rapid.Uint32().Draw(t, "u32")), false
	}
}

func checkInt(c IntCase) *vfrun.Failure {
	var out []byte
	var wantTok string
	quoted := false
	var unmarshal func(v any) (string, error) // returns decimal rendering of the result
	switch c.Kind {
	case "Int":
		out, wantTok = marshal(graphql.MarshalInt(int(c.I))), strconv.FormatInt(c.I, 10)
		unmarshal = func(v any) (string, error) {
			r, e := graphql.UnmarshalInt(v)
			return strconv.FormatInt(int64(r), 10), e
		}
	case "Int32":
		c.I = int64(int32(c.I))
		out, wantTok = marshal(graphql.MarshalInt32(int32(c.I))), strconv.FormatInt(c.I, 10)
		unmarshal = func(v any) (string, error) {
			r, e := graphql.UnmarshalInt32(v)
			return strconv.FormatInt(int64(r), 10), e
		}
	case "Int64":
		out, wantTok = marshal(graphql.MarshalInt64(c.I)), strconv.FormatInt(c.I, 10)
		unmarshal = func(v any) (string, error) { r, e := graphql.UnmarshalInt64(v); return strconv.FormatInt(r, 10), e }
	case "IntID":
		out, wantTok, quoted = marshal(graphql.MarshalIntID(int(c.I))), strconv.FormatInt(c.I, 10), true
		unmarshal = func(v any) (string, error) {
			r, e := graphql.UnmarshalIntID(v)
			return strconv.FormatInt(int64(r), 10), e
		}
	case "Uint":
		out, wantTok = marshal(graphql.MarshalUint(uint(c.U))), strconv.FormatUint(c.U, 10)
		unmarshal = func(v any) (string, error) {
			r, e := graphql.UnmarshalUint(v)
			return strconv.FormatUint(uint64(r), 10), e
		}
	case "Uint32":
		c.U = uint64(uint32(c.U))
		out, wantTok = marshal(graphql.MarshalUint32(uint32(c.U))), strconv.FormatUint(c.U, 10)
		unmarshal = func(v any) (string, error) {
			r, e := graphql.UnmarshalUint32(v)
			return strconv.FormatUint(uint64(r), 10), e
		}
	case "Uint64":
		out, wantTok = marshal(graphql.MarshalUint64(c.U)), strconv.FormatUint(c.U, 10)
		unmarshal = func(v any) (string, error) { r, e := graphql.UnmarshalUint64(v); return strconv.FormatUint(r, 10), e }
	case "UintID":
		out, wantTok, quoted = marshal(graphql.MarshalUintID(uint(c.U))), strconv.FormatUint(c.U, 10), true
		unmarshal = func(v any) (string, error) {
			r, e := graphql.UnmarshalUintID(v)
			return strconv.FormatUint(uint64(r), 10), e
		}
	default:
		return vfrun.Failf("harness.bad-case", "kind %q", c.Kind)
	}
	vfrun.Label("int:" + c.Kind)
	v, err := strictjson.Parse(out)
	if err != nil {
		return vfrun.Failf("int.not-json", "%s(%s) wrote %q: %v", c.Kind, wantTok, out, err)
	}
	var decoded any
	if quoted {
		if v.Kind != strictjson.String || v.Str != wantTok {
			return vfrun.Failf("int.roundtrip", "%s(%s) wrote %q", c.Kind, wantTok, out)
		}
		decoded = v.Str
	} else {
		if v.Kind != strictjson.Number || v.Num != wantTok {
			return vfrun.Failf("int.roundtrip", "%s(%s) wrote %q", c.Kind, wantTok, out)
		}
		decoded = json.Number(v.Num)
	}
	got, err := unmarshal(decoded)
	if err != nil || got != wantTok {
		return vfrun.Failf("int.unmarshal", "Unmarshal%s(%#v) = %s, %v; want %s", c.Kind, decoded, got, err, wantTok)
	}
	// the other decoded forms a transport can deliver for the same number: int64 (when it fits)
	if n, perr := strconv.ParseInt(wantTok, 10, 64); perr == nil {
		got, err := unmarshal(n)
		if err != nil || got != wantTok {
			return vfrun.Failf("int.unmarshal", "Unmarshal%s(int64 %d) = %s, %v; want %s", c.Kind, n, got, err, wantTok)
		}
		got, err = unmarshal(int(n))
		if err != nil || got != wantTok {
			return vfrun.Failf("int.unmarshal", "Unmarshal%s(int %d) = %s, %v; want %s", c.Kind, n, got, err, wantTok)
		}
	}
	return nil
}

func TestInt(t *testing.T) {
	vfrun.Run(t, vfrun.Prop[IntCase]{Property: "C08", Name: "TestInt",
		Gen: func(t *rapid.T) IntCase {
			c := IntCase{Kind: rapid.SampledFrom(intKinds).Draw(t, "kind")}
			var nearI, nearU bool
			c.I, nearI = genInt64(t)
			c.U, nearU = genUint64(t)
			signed := !strings.HasPrefix(c.Kind, "Uint")
			if (signed && nearI) || (!signed && nearU) {
				vfrun.NonTrivial(fmt.Sprintf("i:%s:%d:%d", c.Kind, c.I, c.U))
			}
			vfrun.SampleCat("int", c)
			return c
		},
		Check: checkInt}, vfrun.N(40000, 3000000))
}

// ---------------------------------------------------------------------------------------------
// floats

type FloatCase struct {
	Bits uint64 `json:"bits"`
}

var floatSpecials = []float64{0, math.Copysign(0, -1), 1, -1, math.MaxFloat64, -math.MaxFloat64, math.SmallestNonzeroFloat64,
	math.Inf(1), math.Inf(-1), math.NaN(), 1e21, 1e20, 1e-7, 1e-6, 0.1, 1 << 53, (1 << 53) + 2, 123456789.125, 1e100, 1e-320, 2.2250738585072014e-308}

func responseCtx() context.Context {
	ctx := graphql.WithResponseContext(context.Background(), graphql.DefaultErrorPresenter, graphql.DefaultRecover)
	return graphql.WithFieldContext(ctx, &graphql.FieldContext{Field: graphql.CollectedField{Field: &ast.Field{Alias: "f", Name: "f"}}})
}

func checkFloat(c FloatCase) *vfrun.Failure {
	f := math.Float64frombits(c.Bits)
	finite := !math.IsInf(f, 0) && !math.IsNaN(f)
	if !finite {
		vfrun.Label("float:non-finite")
		vfrun.NonTrivial(fmt.Sprintf("f:%x", c.Bits))
		var b bytes.Buffer
		err := graphql.MarshalFloatContext(f).MarshalGQLContext(context.Background(), &b)
		if err == nil {
			return vfrun.Failf("float.nonfinite-no-error", "MarshalFloatContext(%v) returned no error, wrote %q", f, b.Bytes())
		}
		if b.Len() != 0 {
			return vfrun.Failf("float.nonfinite-token", "MarshalFloatContext(%v) wrote %q besides the error", f, b.Bytes())
		}
		// through the adapter the generated code uses: null + one error
		ctx := responseCtx()
		out := marshal(graphql.WrapContextMarshaler(ctx, graphql.MarshalFloatContext(f)))
		if string(out) != "null" || len(graphql.GetErrors(ctx)) != 1 {
			return vfrun.Failf("float.nonfinite-token", "wrapped MarshalFloatContext(%v) wrote %q with %d errors", f, out, len(graphql.GetErrors(ctx)))
		}
		return nil
	}
	vfrun.Label("float:finite")
	if math.Abs(f) >= 1e21 || (f != 0 && math.Abs(f) < 1e-4) || f != math.Trunc(f) {
		vfrun.NonTrivial(fmt.Sprintf("f:%x", c.Bits))
	}
	var b bytes.Buffer
	if err := graphql.MarshalFloatContext(f).MarshalGQLContext(context.Background(), &b); err != nil {
		return vfrun.Failf("float.finite-error", "MarshalFloatContext(%v): %v", f, err)
	}
	for i, out := range [][]byte{b.Bytes(), marshal(graphql.MarshalFloat(f))} {
		name := []string{"MarshalFloatContext", "MarshalFloat"}[i]
		v, err := strictjson.Parse(out)
		if err != nil || v.Kind != strictjson.Number {
			return vfrun.Failf("float.not-json", "%s(%v) wrote %q: %v", name, f, out, err)
		}
		p, err := strconv.ParseFloat(v.Num, 64)
		if err != nil || math.Float64bits(p) != c.Bits {
			return vfrun.Failf("float.roundtrip", "%s(%v bits %x) wrote %q which parses to %v (bits %x) err=%v", name, f, c.Bits, out, p, math.Float64bits(p), err)
		}
		for _, dv := range []any{json.Number(v.Num), p} {
			back, err := graphql.UnmarshalFloatContext(context.Background(), dv)
			if err != nil || math.Float64bits(back) != c.Bits {
				return vfrun.Failf("float.unmarshal", "UnmarshalFloat(%#v) = %v, %v; want %v", dv, back, err, f)
			}
		}
	}
	return nil
}

func TestFloat(t *testing.T) {
	vfrun.Run(t, vfrun.Prop[FloatCase]{Property: "C08", Name: "TestFloat",
		Gen: func(t *rapid.T) FloatCase {
			var c FloatCase
			switch rapid.IntRange(0, 3).Draw(t, "how") {
			case 0:
				c.Bits = math.Float64bits(rapid.SampledFrom(floatSpecials).Draw(t, "special"))
			case 1:
				c.Bits = rapid.Uint64().Draw(t, "bits")
			case 2:
				c.Bits = math.Float64bits(rapid.Float64().Draw(t, "f"))
			default:
				// neighbours of specials
				b := math.Float64bits(rapid.SampledFrom(floatSpecials).Draw(t, "special"))
				c.Bits = b + uint64(rapid.IntRange(-2, 2).Draw(t, "ulp"))
			}
			vfrun.SampleCat("float", map[string]any{"kind": "float", "bits": fmt.Sprintf("%#x", c.Bits), "value": fmt.Sprint(math.Float64frombits(c.Bits))})
			return c
		},
		Check: checkFloat}, vfrun.N(40000, 3000000))
}

// ---------------------------------------------------------------------------------------------
// booleans (exhaustive, trivial) are folded into the nested test.

// ---------------------------------------------------------------------------------------------
// time

type TimeCase struct {
	Sec    int64 `json:"sec"`     // unix seconds
	Nsec   int64 `json:"nsec"`    // 0..999999999
	OffMin int   `json:"off_min"` // zone offset in whole minutes, |off| < 24h; 0 = UTC
}

const (
	minSec = -62167219200 // 0000-01-01T00:00:00Z
	maxSec = 253402300799 // 9999-12-31T23:59:59Z
)

func (c TimeCase) time() time.Time {
	t := time.Unix(c.Sec, c.Nsec).UTC()
	if c.OffMin != 0 {
		t = t.In(time.FixedZone("", c.OffMin*60))
	}
	return t
}

func checkTime(c TimeCase) *vfrun.Failure {
	t := c.time()
	if y := t.Year(); y < 0 || y > 9999 {
		vfrun.Label("time:out-of-rfc3339-range(skipped)")
		return nil
	}
	out := marshal(graphql.MarshalTime(t))
	v, err := strictjson.Parse(out)
	if err != nil {
		return vfrun.Failf("time.not-json", "MarshalTime(%v) wrote %q: %v", t, out, err)
	}
	if t.IsZero() {
		vfrun.Label("time:zero")
		if v.Kind != strictjson.Null {
			return vfrun.Failf("time.zero", "MarshalTime(zero) wrote %q", out)
		}
		return nil
	}
	if v.Kind != strictjson.String {
		return vfrun.Failf("time.roundtrip", "MarshalTime(%v) wrote %q", t, out)
	}
	back, err := graphql.UnmarshalTime(v.Str)
	if err != nil {
		return vfrun.Failf("time.unmarshal", "UnmarshalTime(%q): %v (from %v)", v.Str, err, t)
	}
	_, o1 := t.Zone()
	_, o2 := back.Zone()
	if !back.Equal(t) || o1 != o2 {
		return vfrun.Failf("time.roundtrip", "%v -> %q -> %v", t, v.Str, back)
	}
	vfrun.Label("time:value")
	if c.Nsec != 0 || c.OffMin != 0 {
		vfrun.NonTrivial(fmt.Sprintf("t:%d:%d:%d", c.Sec, c.Nsec, c.OffMin))
	}
	return nil
}

func TestTime(t *testing.T) {
	vfrun.Run(t, vfrun.Prop[TimeCase]{Property: "C08", Name: "TestTime",
		Gen: func(t *rapid.T) TimeCase {
			var c TimeCase
			switch rapid.IntRange(0, 2).Draw(t, "how") {
			case 0:
				c.Sec = rapid.Int64Range(minSec, maxSec).Draw(t, "sec")
			case 1:
				c.Sec = rapid.SampledFrom([]int64{minSec, maxSec, 0, -1, -62135596800, 951782400, 1e9, 4102444800}).Draw(t, "bsec") + int64(rapid.IntRange(-2, 2).Draw(t, "d"))
			default:
				c.Sec = rapid.Int64Range(0, 4102444800).Draw(t, "modern")
			}
			switch rapid.IntRange(0, 3).Draw(t, "nhow") {
			case 0:
				c.Nsec = 0
			case 1:
				c.Nsec = rapid.SampledFrom([]int64{1, 999999999, 1000, 1000000, 500000000, 100, 120000000}).Draw(t, "bnsec")
			default:
				c.Nsec = rapid.Int64Range(0, 999999999).Draw(t, "nsec")
			}
			if rapid.Bool().Draw(t, "zone") {
				c.OffMin = rapid.IntRange(-23*60-59, 23*60+59).Draw(t, "off")
			}
			vfrun.SampleCat("time", map[string]any{"kind": "time", "case": c})
			return c
		},
		Check: checkTime}, vfrun.N(20000, 2000000))
}

// ---------------------------------------------------------------------------------------------
// duration

type DurationCase struct {
	D int64 `json:"d"`
}

func checkDuration(c DurationCase) *vfrun.Failure {
	d := time.Duration(c.D)
	out := marshal(graphql.MarshalDuration(d))
	v, err := strictjson.Parse(out)
	if err != nil || v.Kind != strictjson.String {
		return vfrun.Failf("duration.not-json", "MarshalDuration(%d) wrote %q: %v", c.D, out, err)
	}
	back, err := graphql.UnmarshalDuration(v.Str)
	if err != nil || back != d {
		key := "duration.roundtrip"
		if c.D == math.MinInt64 {
			key = "duration.minint64"
		} else if strings.Contains(v.Str[1:], "-") {
			key = "duration.negative-component" // the formatter rounded up to the next unit
		}
		return vfrun.Failf(key, "MarshalDuration(%d ns) wrote %q which unmarshals to %d, err=%v", c.D, v.Str, int64(back), err)
	}
	vfrun.Label("duration")
	if c.D < 0 || c.D%int64(time.Second) != 0 {
		vfrun.NonTrivial(fmt.Sprintf("d:%d", c.D))
	}
	return nil
}

func TestDuration(t *testing.T) {
	vfrun.Run(t, vfrun.Prop[DurationCase]{Property: "C08", Name: "TestDuration",
		Gen: func(t *rapid.T) DurationCase {
			var c DurationCase
			switch rapid.IntRange(0, 3).Draw(t, "how") {
			case 0:
				c.D = rapid.Int64().Draw(t, "d")
			case 1:
				b := rapid.SampledFrom([]int64{0, 1, -1, 1e3, 1e6, 1e9, 60e9, 3600e9, 86400e9, 7 * 86400e9, 365 * 86400e9, math.MaxInt64, math.MinInt64, math.MinInt64 + 1}).Draw(t, "b")
				dl := int64(rapid.IntRange(-2, 2).Draw(t, "delta"))
				if (dl > 0 && b > math.MaxInt64-dl) || (dl < 0 && b < math.MinInt64-dl) {
					dl = 0
				}
				c.D = b + dl
			case 2:
				c.D = rapid.Int64Range(-1e12, 1e12).Draw(t, "small")
			default:
				// composed of calendar-ish units
				c.D = int64(rapid.IntRange(0, 400).Draw(t, "days"))*86400e9 + int64(rapid.IntRange(0, 23).Draw(t, "h"))*3600e9 +
					int64(rapid.IntRange(0, 59).Draw(t, "m"))*60e9 + int64(rapid.IntRange(0, 59).Draw(t, "s"))*1e9 + int64(rapid.IntRange(0, 999999999).Draw(t, "ns"))
				if rapid.Bool().Draw(t, "neg") {
					c.D = -c.D
				}
			}
			vfrun.SampleCat("duration", map[string]any{"kind": "duration", "ns": c.D})
			return c
		},
		Check: checkDuration}, vfrun.N(20000, 2000000))
}

// ---------------------------------------------------------------------------------------------
// UUID

type UUIDCase struct {
	B []byte `json:"b"` // 16 bytes
}

func checkUUID(c UUIDCase) *vfrun.Failure {
	var id uuid.UUID
	copy(id[:], c.B)
	out := marshal(graphql.MarshalUUID(id))
	v, err := strictjson.Parse(out)
	if err != nil {
		return vfrun.Failf("uuid.not-json", "MarshalUUID(%v) wrote %q: %v", id, out, err)
	}
	if id == uuid.Nil {
		if v.Kind != strictjson.Null {
			return vfrun.Failf("uuid.nil", "MarshalUUID(nil) wrote %q", out)
		}
		return nil
	}
	if v.Kind != strictjson.String {
		return vfrun.Failf("uuid.roundtrip", "MarshalUUID(%v) wrote %q", id, out)
	}
	back, err := graphql.UnmarshalUUID(v.Str)
	if err != nil || back != id {
		return vfrun.Failf("uuid.roundtrip", "%v -> %q -> %v, %v", id, v.Str, back, err)
	}
	vfrun.Label("uuid")
	vfrun.NonTrivial("u:" + id.String())
	return nil
}

func TestUUID(t *testing.T) {
	vfrun.Run(t, vfrun.Prop[UUIDCase]{Property: "C08", Name: "TestUUID",
		Gen: func(t *rapid.T) UUIDCase {
			b := rapid.SliceOfN(rapid.Byte(), 16, 16).Draw(t, "uuid")
			if rapid.IntRange(0, 9).Draw(t, "sparse") == 0 {
				for i := range b {
					if i != 15 {
						b[i] = 0
					}
				}
			}
			return UUIDCase{B: b}
		},
		Check: checkUUID}, vfrun.N(5000, 300000))
}

// ---------------------------------------------------------------------------------------------
// Map / Any: JSON-representable trees

type TreeCase struct {
	JSON string `json:"json"` // the tree as a JSON text (numbers decoded as json.Number)
}

func genTree(t *rapid.T, depth int) any {
	max := 7
	if depth >= 3 {
		max = 4
	}
	switch rapid.IntRange(0, max).Draw(t, "node") {
	case 0:
		return nil
	case 1:
		return rapid.Bool().Draw(t, "b")
	case 2:
		return string([]rune(string(genBytes(t)))) // valid UTF-8 by construction
	case 3:
		i, _ := genInt64(t)
		return json.Number(strconv.FormatInt(i, 10))
	case 4:
		f := rapid.Float64().Draw(t, "f")
		return json.Number(strconv.FormatFloat(f, 'g', -1, 64))
	case 5, 6:
		n := rapid.IntRange(0, 3).Draw(t, "len")
		out := make([]any, n)
		for i := range out {
			out[i] = genTree(t, depth+1)
		}
		return out
	default:
		n := rapid.IntRange(0, 3).Draw(t, "keys")
		out := map[string]any{}
		for i := 0; i < n; i++ {
			k := rapid.OneOf(rapid.StringMatching(`[a-z_]{0,4}`), rapid.Just("<&>"), rapid.Just(" "), rapid.Just("\"q\""), rapid.Just("é")).Draw(t, "key")
			out[k] = genTree(t, depth+1)
		}
		return out
	}
}

func decodeNum(s string) (any, error) {
	dec := json.NewDecoder(strings.NewReader(s))
	dec.UseNumber()
	var v any
	err := dec.Decode(&v)
	return v, err
}

func treeDepth(v any) int {
	switch x := v.(type) {
	case []any:
		d := 0
		for _, e := range x {
			d = max(d, treeDepth(e))
		}
		return d + 1
	case map[string]any:
		d := 0
		for _, e := range x {
			d = max(d, treeDepth(e))
		}
		return d + 1
	}
	return 0
}

// sameTree compares a strictjson value with an `any` tree holding json.Number leaves.
func sameTree(v *strictjson.Value, w any) bool {
	switch x := w.(type) {
	case nil:
		return v.Kind == strictjson.Null
	case bool:
		return v.Kind == strictjson.Bool && v.B == x
	case string:
		return v.Kind == strictjson.String && v.Str == x
	case json.Number:
		if v.Kind != strictjson.Number {
			return false
		}
		if v.Num == string(x) {
			return true
		}
		a, e1 := strconv.ParseFloat(v.Num, 64)
		b, e2 := strconv.ParseFloat(string(x), 64)
		return e1 == nil && e2 == nil && a == b && !strings.ContainsAny(string(x), ".eE") == !strings.ContainsAny(v.Num, ".eE")
	case []any:
		if v.Kind != strictjson.Array || len(v.Arr) != len(x) {
			return false
		}
		for i := range x {
			if !sameTree(v.Arr[i], x[i]) {
				return false
			}
		}
		return true
	case map[string]any:
		if v.Kind != strictjson.Object || len(v.Keys) != len(x) {
			return false
		}
		for i, k := range v.Keys {
			e, ok := x[k]
			if !ok || !sameTree(v.Vals[i], e) {
				return false
			}
		}
		return true
	}
	return false
}

func checkTree(c TreeCase) *vfrun.Failure {
	tree, err := decodeNum(c.JSON)
	if err != nil {
		return vfrun.Failf("harness.bad-case", "%v", err)
	}
	d := treeDepth(tree)
	vfrun.Label(fmt.Sprintf("tree:depth%d", d))
	if d >= 2 {
		vfrun.NonTrivial("T:" + c.JSON)
	}
	names := []string{"MarshalAny"}
	outs := [][]byte{marshal(graphql.MarshalAny(tree))}
	if m, ok := tree.(map[string]any); ok {
		names = append(names, "MarshalMap")
		outs = append(outs, marshal(graphql.MarshalMap(m)))
	}
	for i, out := range outs {
		name := names[i]
		v, err := strictjson.Parse(out)
		if err != nil {
			return vfrun.Failf("tree.not-json", "%s(%s) wrote %q: %v", name, c.JSON, out, err)
		}
		if !sameTree(v, tree) {
			return vfrun.Failf("tree.roundtrip", "%s(%s) wrote %q", name, c.JSON, out)
		}
		decoded, err := decodeNum(string(out))
		if err != nil {
			return vfrun.Failf("tree.not-json", "%s(%s) wrote %q: encoding/json: %v", name, c.JSON, out, err)
		}
		back, err := graphql.UnmarshalAny(decoded)
		if err != nil || !jsonEqual(back, tree) {
			return vfrun.Failf("tree.unmarshal", "UnmarshalAny of decoded %q differs from %s", out, c.JSON)
		}
		if m, ok := decoded.(map[string]any); ok {
			bm, err := graphql.UnmarshalMap(m)
			if err != nil || !jsonEqual(bm, tree) {
				return vfrun.Failf("tree.unmarshal", "UnmarshalMap of decoded %q differs from %s", out, c.JSON)
			}
		}
	}
	return nil
}

func jsonEqual(a, b any) bool {
	x, _ := json.Marshal(a)
	y, _ := json.Marshal(b)
	return bytes.Equal(x, y)
}

func TestTree(t *testing.T) {
	vfrun.Run(t, vfrun.Prop[TreeCase]{Property: "C08", Name: "TestTree",
		Gen: func(t *rapid.T) TreeCase {
			tree := genTree(t, 0)
			b, err := json.Marshal(tree)
			if err != nil {
				t.Fatalf("harness: %v", err)
			}
			vfrun.SampleCat("any/map", map[string]any{"kind": "any/map", "json": string(b)})
			return TreeCase{JSON: string(b)}
		},
		Check: checkTree}, vfrun.N(15000, 4000000))
}

// ---------------------------------------------------------------------------------------------
// Compositions: FieldSet / Array / Omittable / Response

type Node struct {
	Kind string   `json:"k"` // obj list str id int int64 uint float bool null time uuid dur any omit
	Keys []string `json:"keys,omitempty"`
	Kids []*Node  `json:"kids,omitempty"`
	S    []byte   `json:"s,omitempty"`
	I    int64    `json:"i,omitempty"`
	F    uint64   `json:"f,omitempty"`
	Set  bool     `json:"set,omitempty"`
}

var keyPool = []string{"a", "b", "id", "__typename", "x_1", "Zed", "a1", "_"}

func genNode(t *rapid.T, depth int) *Node {
	kinds := []string{"str", "id", "int", "int64", "uint", "float", "bool", "null", "time", "uuid", "dur", "any", "omit", "omitptr"}
	if depth < 4 {
		kinds = append(kinds, "obj", "obj", "obj", "list", "list", "list")
	}
	if depth == 0 {
		kinds = []string{"obj", "list"}
	}
	n := &Node{Kind: rapid.SampledFrom(kinds).Draw(t, "kind")}
	switch n.Kind {
	case "obj":
		cnt := rapid.IntRange(0, 4).Draw(t, "nfields")
		seen := map[string]bool{}
		for i := 0; i < cnt; i++ {
			k := rapid.SampledFrom(keyPool).Draw(t, "key")
			if seen[k] {
				continue
			}
			seen[k] = true
			n.Keys = append(n.Keys, k)
			n.Kids = append(n.Kids, genNode(t, depth+1))
		}
	case "list":
		cnt := rapid.IntRange(0, 3).Draw(t, "len")
		for i := 0; i < cnt; i++ {
			n.Kids = append(n.Kids, genNode(t, depth+1))
		}
	case "str", "id", "omit", "omitptr":
		n.S = genBytes(t)
		n.Set = rapid.Bool().Draw(t, "set")
	case "int", "int64", "dur":
		n.I, _ = genInt64(t)
		if n.Kind == "dur" && n.I == math.MinInt64 {
			n.I++
		}
	case "uint":
		u, _ := genUint64(t)
		n.F = u
	case "float":
		f := rapid.Float64().Draw(t, "f")
		n.F = math.Float64bits(f)
	case "bool":
		n.Set = rapid.Bool().Draw(t, "b")
	case "time":
		n.I = rapid.Int64Range(0, 4102444800).Draw(t, "sec")
	case "uuid":
		n.S = rapid.SliceOfN(rapid.Byte(), 16, 16).Draw(t, "uuid")
		n.S[0] |= 1
	case "any":
		b, _ := json.Marshal(genTree(t, 2))
		n.S = b
	}
	return n
}

// build returns gqlgen's marshaler for the node and the expected decoded tree.
func build(n *Node) (graphql.Marshaler, any) {
	switch n.Kind {
	case "obj":
		fields := make([]graphql.CollectedField, len(n.Keys))
		for i, k := range n.Keys {
			fields[i] = graphql.CollectedField{Field: &ast.Field{Alias: k, Name: k}}
		}
		fs := graphql.NewFieldSet(fields)
		exp := orderedObj{}
		for i, kid := range n.Kids {
			m, e := build(kid)
			fs.Values[i] = m
			exp.keys = append(exp.keys, n.Keys[i])
			exp.vals = append(exp.vals, e)
		}
		return fs, exp
	case "list":
		arr := make(graphql.Array, len(n.Kids))
		exp := make([]any, len(n.Kids))
		for i, kid := range n.Kids {
			arr[i], exp[i] = build(kid)
		}
		return arr, exp
	case "str":
		return graphql.MarshalString(string(n.S)), expectedDecode(string(n.S))
	case "id":
		return graphql.MarshalID(string(n.S)), expectedDecode(string(n.S))
	case "omit":
		s := expectedDecode(string(n.S)) // json.Marshal path coerces too; keep it valid
		if n.Set {
			return graphql.OmittableOf(s), s
		}
		return graphql.Omittable[string]{}, ""
	case "omitptr":
		s := expectedDecode(string(n.S))
		if n.Set {
			return graphql.OmittableOf(&s), s
		}
		return graphql.Omittable[*string]{}, nil
	case "int":
		return graphql.MarshalInt(int(n.I)), json.Number(strconv.FormatInt(n.I, 10))
	case "int64":
		return graphql.MarshalInt64(n.I), json.Number(strconv.FormatInt(n.I, 10))
	case "uint":
		return graphql.MarshalUint64(n.F), json.Number(strconv.FormatUint(n.F, 10))
	case "float":
		f := math.Float64frombits(n.F)
		return graphql.WrapContextMarshaler(context.Background(), graphql.MarshalFloatContext(f)), f
	case "bool":
		return graphql.MarshalBoolean(n.Set), n.Set
	case "null":
		return graphql.Null, nil
	case "time":
		t := time.Unix(n.I, 0).UTC()
		if t.IsZero() {
			return graphql.MarshalTime(t), nil
		}
		return graphql.MarshalTime(t), t.Format(time.RFC3339Nano)
	case "uuid":
		var id uuid.UUID
		copy(id[:], n.S)
		return graphql.MarshalUUID(id), id.String()
	case "dur":
		return graphql.MarshalDuration(time.Duration(n.I)), durT(n.I)
	case "any":
		v, _ := decodeNum(string(n.S))
		return graphql.MarshalAny(v), v
	}
	return graphql.Null, nil
}

type orderedObj struct {
	keys []string
	vals []any
}
type durT int64

func sameNode(v *strictjson.Value, w any) bool {
	switch x := w.(type) {
	case orderedObj:
		if v.Kind != strictjson.Object || len(v.Keys) != len(x.keys) {
			return false
		}
		for i := range x.keys {
			if v.Keys[i] != x.keys[i] || !sameNode(v.Vals[i], x.vals[i]) {
				return false
			}
		}
		return true
	case []any:
		if v.Kind != strictjson.Array || len(v.Arr) != len(x) {
			return false
		}
		for i := range x {
			if !sameNode(v.Arr[i], x[i]) {
				return false
			}
		}
		return true
	case float64:
		if v.Kind != strictjson.Number {
			return false
		}
		p, err := strconv.ParseFloat(v.Num, 64)
		return err == nil && math.Float64bits(p) == math.Float64bits(x)
	case durT:
		if v.Kind != strictjson.String {
			return false
		}
		d, err := graphql.UnmarshalDuration(v.Str)
		return err == nil && int64(d) == int64(x)
	default:
		return sameTree(v, w)
	}
}

type NestedCase struct {
	Root *Node `json:"root"`
}

func nodeDepth(n *Node) int {
	d := 0
	for _, k := range n.Kids {
		d = max(d, nodeDepth(k))
	}
	if n.Kind == "obj" || n.Kind == "list" {
		return d + 1
	}
	return 0
}

func checkNested(c NestedCase) *vfrun.Failure {
	m, exp := build(c.Root)
	out := marshal(m)
	d := nodeDepth(c.Root)
	vfrun.Label(fmt.Sprintf("nested:depth%d", d))
	desc, _ := json.Marshal(c.Root)
	if d >= 2 {
		vfrun.NonTrivial("N:" + string(desc))
	}
	v, err := strictjson.Parse(out)
	if err != nil {
		key := "nested.not-json"
		if !utf8.Valid(out) {
			key = "string.invalid-utf8-verbatim"
		}
		return vfrun.Failf(key, "composition %s wrote %q: %v", desc, out, err)
	}
	if !sameNode(v, exp) {
		return vfrun.Failf("nested.roundtrip", "composition %s wrote %q", desc, out)
	}
	// the same bytes as the data of a Response, serialised the way every transport does
	hasNext := true
	resp := &graphql.Response{Data: out, HasNext: &hasNext, Label: "l",
		Errors:     gqlerror.List{{Message: expectedDecode(string(c.Root.S)), Path: ast.Path{ast.PathName("a"), ast.PathIndex(1)}}},
		Extensions: map[string]any{"k": expectedDecode(string(c.Root.S))}}
	body, err := json.Marshal(resp)
	if err != nil {
		return vfrun.Failf("response.marshal-error", "json.Marshal(Response{Data:%q}): %v", out, err)
	}
	rv, err := strictjson.Parse(body)
	if err != nil {
		return vfrun.Failf("response.not-json", "response body %q: %v", body, err)
	}
	if dv := rv.Get("data"); dv == nil || !sameNode(dv, exp) {
		return vfrun.Failf("response.roundtrip", "response body %q does not carry data %q", body, out)
	}
	return nil
}

func TestNested(t *testing.T) {
	vfrun.Run(t, vfrun.Prop[NestedCase]{Property: "C08", Name: "TestNested",
		Gen: func(t *rapid.T) NestedCase {
			c := NestedCase{Root: genNode(t, 0)}
			vfrun.SampleCat("nested", map[string]any{"kind": "nested", "root": c.Root})
			return c
		},
		Check: checkNested}, vfrun.N(20000, 6000000))
}

// ---------------------------------------------------------------------------------------------
// Omittable JSON round trip

type OmitCase struct {
	S   []byte `json:"s"`
	I   int64  `json:"i"`
	Set bool   `json:"set"`
}

func checkOmit(c OmitCase) *vfrun.Failure {
	s := expectedDecode(string(c.S))
	type T struct {
		A graphql.Omittable[string]   `json:"a"`
		B graphql.Omittable[*int64]   `json:"b"`
		C graphql.Omittable[[]string] `json:"c"`
	}
	var in T
	if c.Set {
		in = T{A: graphql.OmittableOf(s), B: graphql.OmittableOf(&c.I), C: graphql.OmittableOf([]string{s})}
	}
	b, err := json.Marshal(in)
	if err != nil {
		return vfrun.Failf("omittable.marshal", "%v", err)
	}
	if err := strictjson.Valid(b); err != nil {
		return vfrun.Failf("omittable.not-json", "%q: %v", b, err)
	}
	var back T
	if err := json.Unmarshal(b, &back); err != nil {
		return vfrun.Failf("omittable.unmarshal", "%q: %v", b, err)
	}
	if back.A.Value() != in.A.Value() || !back.A.IsSet() {
		return vfrun.Failf("omittable.roundtrip", "A: %q -> %q", in.A.Value(), back.A.Value())
	}
	if c.Set && (back.B.Value() == nil || *back.B.Value() != c.I) {
		return vfrun.Failf("omittable.roundtrip", "B: %d", c.I)
	}
	// MarshalGQL of each member is valid JSON equal to the value
	for _, m := range []graphql.Marshaler{in.A, in.B, in.C} {
		if err := strictjson.Valid(marshal(m)); err != nil {
			return vfrun.Failf("omittable.not-json", "MarshalGQL wrote %q: %v", marshal(m), err)
		}
	}
	v, _ := strictjson.Parse(marshal(in.A))
	if v.Kind != strictjson.String || v.Str != in.A.Value() {
		return vfrun.Failf("omittable.roundtrip", "MarshalGQL(%q) wrote %q", in.A.Value(), marshal(in.A))
	}
	var o graphql.Omittable[string]
	if o.IsSet() {
		return vfrun.Failf("omittable.roundtrip", "zero value reports set")
	}
	if err := o.UnmarshalGQL(marshal(in.A)); err != nil || !o.IsSet() || o.Value() != in.A.Value() {
		return vfrun.Failf("omittable.roundtrip", "UnmarshalGQL(%q) = %q set=%v err=%v", marshal(in.A), o.Value(), o.IsSet(), err)
	}
	vfrun.Label("omittable")
	if c.Set {
		vfrun.NonTrivial("o:" + string(c.S) + strconv.FormatInt(c.I, 10))
	}
	return nil
}

func TestOmittable(t *testing.T) {
	vfrun.Run(t, vfrun.Prop[OmitCase]{Property: "C08", Name: "TestOmittable",
		Gen: func(t *rapid.T) OmitCase {
			i, _ := genInt64(t)
			return OmitCase{S: genBytes(t), I: i, Set: rapid.Bool().Draw(t, "set")}
		},
		Check: checkOmit}, vfrun.N(10000, 500000))
}

// TestGeneratedPayloads: what servers generated from /repo's templates (single-file and
// follow-schema layout) serialize for operations with @defer, read off the wire of the multipart/mixed
// and SSE transports: every payload must be valid JSON that decodes to the value the reference
// execution prescribes (the shared @defer oracle merges the payloads and compares), whatever the
// transport buffers between producing a payload and writing it.
func TestGeneratedPayloads(t *testing.T) {
	vfrun.Run(t, vfrun.Prop[deferchk.Case]{Property: "C08", Name: "TestGeneratedPayloads", Gen: func(t *rapid.T) deferchk.Case {
		c := deferchk.Gen(t)
		c.Via = rapid.SampledFrom([]string{"mixed", "mixed", "sse"}).Draw(t, "wire")
		return c
	}, Check: deferchk.Check}, vfrun.N(600, 30000))
}
