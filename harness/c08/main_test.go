package c08

import (
	"testing"

	_ "vh/gen/all"
	"vh/vfrun"
)

func TestMain(m *testing.M) { vfrun.Main(m) }
