package c09

import (
	"crypto/sha256"
	"encoding/hex"
	"fmt"
	"strings"
	"sync/atomic"
	"testing"

	"github.com/99designs/gqlgen/graphql/handler/extension"
	"github.com/99designs/gqlgen/graphql/handler/lru"
	"pgregory.net/rapid"

	"vh/hsrv"
	"vh/kit"
	"vh/plan"
	"vh/univ"
	"vh/vfrun"
)

// With automatic persisted queries a request may name its document by hash alone. Whatever was sent
// before - including requests that were refused - such a request over GET or POST executes exactly
// the document that hashes to what it names, or nothing: never another one, and over GET never a
// mutation.

type APQStep struct {
	Transport string `json:"transport"` // get post
	Doc       int    `json:"doc"`       // the document the request carries (-1: none, hash only)
	Hash      int    `json:"hash"`      // the document whose hash it names (-1: no persistedQuery extension)
}

type APQCase struct {
	Steps []APQStep `json:"steps"`
}

var apqDocs = []struct{ text, root, kind string }{
	{"{ s }", "s", "query"},
	{"{ i }", "i", "query"},
	{"mutation { m3 }", "m3", "mutation"},
	{"query Q { snn }", "snn", "query"},
}

func apqHash(i int) string {
	b := sha256.Sum256([]byte(apqDocs[i].text))
	return hex.EncodeToString(b[:])
}

func checkAPQ(c APQCase) *vfrun.Failure {
	ss, err := kit.Servers("core")
	if err != nil {
		return vfrun.Failf("harness.no-project", "%v", err)
	}
	s := ss[0]
	var recovers atomic.Int64
	h := hsrv.New(s, hsrv.Config{Transports: []string{"get", "post"}, Recovers: &recovers})
	h.Use(extension.AutomaticPersistedQuery{Cache: lru.New[string](100)})
	registered := map[int]bool{}
	for i, st := range c.Steps {
		e := univ.NewExec(plan.New(3))
		s.U.SetExec(e)
		r := hsrv.Req{Transport: st.Transport}
		if st.Doc >= 0 {
			r.Query, r.HasQuery = apqDocs[st.Doc].text, true
		}
		if st.Hash >= 0 {
			r.Extensions = fmt.Sprintf(`{"persistedQuery":{"version":1,"sha256Hash":%q}}`, apqHash(st.Hash))
		}
		res := hsrv.Serve(h, r.Build())
		vfrun.Eval()
		ran := e.Keys("R")
		desc := fmt.Sprintf("step %d of %+v -> %d %s (ran %v)", i, c.Steps, res.Status, res.Body, ran)
		if recovers.Load() != 0 {
			return vfrun.Failf("http.recover-hook", "%s: recover hook ran", desc)
		}
		// which document does the request name?
		named := st.Doc
		switch {
		case st.Doc >= 0 && st.Hash >= 0 && st.Doc != st.Hash:
			named = -1 // text and hash disagree: refused
		case st.Doc < 0 && st.Hash >= 0:
			if registered[st.Hash] {
				named = st.Hash
			} else {
				named = -1 // not found
			}
		case st.Doc < 0:
			named = -1
		}
		if named >= 0 && st.Transport == "get" && apqDocs[named].kind == "mutation" {
			named = -1 // GET never mutates
		}
		if named < 0 {
			if len(ran) > 0 {
				return vfrun.Failf("http.executed-operation-not-named", "%s: the request names no executable document, yet resolvers ran", desc)
			}
			if !strings.Contains(string(res.Body), `"errors"`) {
				return vfrun.Failf("http.refused-without-errors", "%s", desc)
			}
		} else {
			if len(ran) != 1 || ran[0] != apqDocs[named].root {
				return vfrun.Failf("http.executed-operation-not-named", "%s: the request names %q, whose root field is %s", desc, apqDocs[named].text, apqDocs[named].root)
			}
			if res.Status != 200 {
				return vfrun.Failf("http.executed-but-not-200", "%s", desc)
			}
		}
		if st.Doc >= 0 && st.Hash == st.Doc {
			registered[st.Doc] = true
		}
	}
	vfrun.Label("apq-history")
	if len(c.Steps) >= 3 {
		vfrun.NonTrivial(fmt.Sprintf("%+v", c.Steps))
	}
	vfrun.SampleCat("apq", c)
	return nil
}

func genAPQ(t *rapid.T) APQCase {
	var c APQCase
	n := rapid.IntRange(1, 8).Draw(t, "nsteps")
	for i := 0; i < n; i++ {
		st := APQStep{Transport: rapid.SampledFrom([]string{"get", "post"}).Draw(t, "transport")}
		switch rapid.IntRange(0, 4).Draw(t, "form") {
		case 0: // text only
			st.Doc, st.Hash = rapid.IntRange(0, len(apqDocs)-1).Draw(t, "doc"), -1
		case 1: // text with its own hash
			st.Doc = rapid.IntRange(0, len(apqDocs)-1).Draw(t, "doc")
			st.Hash = st.Doc
		case 2: // text with the hash of another document
			st.Doc = rapid.IntRange(0, len(apqDocs)-1).Draw(t, "doc")
			st.Hash = (st.Doc + rapid.IntRange(1, len(apqDocs)-1).Draw(t, "other")) % len(apqDocs)
		default: // hash only
			st.Doc, st.Hash = -1, rapid.IntRange(0, len(apqDocs)-1).Draw(t, "hash")
		}
		c.Steps = append(c.Steps, st)
	}
	return c
}

func TestPersistedQueryNames(t *testing.T) {
	vfrun.Run(t, vfrun.Prop[APQCase]{Property: "C09", Name: "TestPersistedQueryNames", Gen: genAPQ, Check: checkAPQ}, vfrun.N(3000, 200000))
}
