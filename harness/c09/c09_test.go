package c09

import (
	"fmt"
	"mime"
	"net/http"
	"net/http/httptest"
	"strings"
	"sync/atomic"
	"testing"

	"github.com/99designs/gqlgen/graphql/handler"
	"github.com/99designs/gqlgen/graphql/handler/lru"
	"github.com/99designs/gqlgen/graphql/handler/transport"
	"github.com/vektah/gqlparser/v2/ast"
	"github.com/vektah/gqlparser/v2/gqlerror"
	"pgregory.net/rapid"

	"context"

	"vh/hsrv"
	"vh/kit"
	"vh/plan"
	"vh/proj"
	"vh/strictjson"
	"vh/univ"
	"vh/vfrun"
)

// operation snippets: each uses a root field no other snippet uses, so the resolver log tells which
// operation ran.
type snippet struct {
	Kind   string // query mutation subscription
	Body   string
	Reveal string
	Vars   string // variable definitions
}

var snippets = []snippet{
	{"query", "{ s }", "s", ""},
	{"query", "{ i x: snn }", "i", ""},
	{"query", "{ echo(n: $n) }", "echo", "($n: Int!)"},
	{"mutation", "{ m3 }", "m3", ""},
	{"mutation", "{ m4 m1 { id } }", "m4", ""},
	{"subscription", "{ count }", "count", ""},
}

// getBodies: content type and body a GET request may carry besides its URL.
var getBodies = [][2]string{
	{"application/graphql", "mutation { m3 }"},
	{"application/graphql", "mutation { m4 m1 { id } }"},
	{"application/json", `{"query":"mutation { m3 }"}`},
	{"application/json", `{"query":"mutation A { m3 } query B { i }","operationName":"A"}`},
	{"application/x-www-form-urlencoded", "query=mutation+%7B+m3+%7D"},
	{"application/x-www-form-urlencoded", "mutation { m3 }"},
	{"multipart/form-data; boundary=b", "--b\r\nContent-Disposition: form-data; name=\"operations\"\r\n\r\n{\"query\":\"mutation { m3 }\"}\r\n--b\r\nContent-Disposition: form-data; name=\"map\"\r\n\r\n{}\r\n--b--\r\n"},
}

type Case struct {
	Ops       []int    `json:"ops"` // indices into snippets; operation k is named "Op<k>" unless Anonymous
	Anonymous bool     `json:"anonymous"`
	Damage    string   `json:"damage"` // "", "parse", "validation", "variable"
	OpName    string   `json:"operation_name"`
	HasOpName bool     `json:"has_operation_name"`
	Transport string   `json:"transport"` // get post graphql urlencoded
	Accept    string   `json:"accept"`
	HasAccept bool     `json:"has_accept"`
	RespCT    string   `json:"response_content_type"` // configured ResponseHeaders Content-Type ("" = none)
	ExtraHdr  bool     `json:"extra_header"`
	Order     []string `json:"transport_order"`
	Variables string   `json:"variables"`
	// QueryCache: the server caches parsed documents (as handler.NewDefaultServer does); Repeat: the
	// same request is sent this many times in a row, every answer must satisfy the contract
	QueryCache bool `json:"query_cache,omitempty"`
	Repeat     int  `json:"repeat,omitempty"`
	// GetBody / GetBodyCT: a GET request that also carries a body of this content type (the body
	// names a mutation; a GET is answered from its URL whatever else it carries)
	GetBody   string `json:"get_body,omitempty"`
	GetBodyCT string `json:"get_body_content_type,omitempty"`
	// TooLarge: the server is first sent a multipart upload request larger than MaxUploadSize
	TooLarge bool `json:"too_large,omitempty"`
}

func (c Case) document() string {
	var sb strings.Builder
	for k, si := range c.Ops {
		s := snippets[si]
		if c.Anonymous && len(c.Ops) == 1 {
			if s.Kind != "query" || s.Vars != "" {
				sb.WriteString(s.Kind + s.Vars + " ")
			}
			sb.WriteString(s.Body)
		} else {
			fmt.Fprintf(&sb, "%s Op%d%s %s\n", s.Kind, k, s.Vars, s.Body)
		}
	}
	doc := sb.String()
	switch c.Damage {
	case "parse":
		doc += " }}{"
	case "validation":
		doc = strings.Replace(doc, "{", "{ nosuchfield ", 1)
	}
	return doc
}

// negotiate is an independent statement of the documented negotiation rule.
func negotiate(respCT string, accept string, hasAccept bool) string {
	if respCT != "" {
		return respCT
	}
	if !hasAccept || accept == "" {
		return "application/json"
	}
	for _, part := range strings.Split(accept, ",") {
		mt, _, err := mime.ParseMediaType(strings.TrimSpace(part))
		if err != nil {
			continue
		}
		switch mt {
		case "*/*", "application/*", "application/graphql-response+json":
			return "application/graphql-response+json"
		case "application/json":
			return "application/json"
		}
	}
	return "application/graphql-response+json"
}

func buildHandler(s *proj.Server, c Case, recovers *atomic.Int64) *handler.Server {
	h := handler.New(s.ES)
	var hdr map[string][]string
	if c.RespCT != "" || c.ExtraHdr {
		hdr = map[string][]string{}
		if c.RespCT != "" {
			hdr["Content-Type"] = []string{c.RespCT}
		}
		if c.ExtraHdr {
			hdr["X-Harness"] = []string{"1", "2"}
		}
	}
	for _, n := range c.Order {
		switch n {
		case "get":
			h.AddTransport(transport.GET{ResponseHeaders: hdr})
		case "post":
			h.AddTransport(transport.POST{ResponseHeaders: hdr})
		case "graphql":
			h.AddTransport(transport.GRAPHQL{ResponseHeaders: hdr})
		case "urlencoded":
			h.AddTransport(transport.UrlEncodedForm{ResponseHeaders: hdr})
		case "multipart":
			h.AddTransport(transport.MultipartForm{ResponseHeaders: hdr, MaxUploadSize: 256})
		case "options":
			h.AddTransport(transport.Options{})
		}
	}
	if c.QueryCache {
		h.SetQueryCache(lru.New[*ast.QueryDocument](64))
	}
	h.SetRecoverFunc(func(ctx context.Context, err any) error {
		recovers.Add(1)
		return gqlerror.Errorf("%s", proj.RecoverMsg(err))
	})
	return h
}

func check(c Case) *vfrun.Failure {
	ss, err := kit.Servers("core")
	if err != nil {
		return vfrun.Failf("harness.no-project", "%v", err)
	}
	s := ss[0]
	var recovers atomic.Int64
	h := buildHandler(s, c, &recovers)
	if c.TooLarge {
		if f := checkTooLarge(c, s, h); f != nil {
			return f
		}
	}
	for attempt := 0; attempt <= c.Repeat; attempt++ {
		if f := checkAttempt(c, s, h, &recovers, attempt); f != nil {
			return f
		}
	}
	if c.Repeat > 0 && c.QueryCache {
		vfrun.Label("repeated-with-query-cache")
	}
	return nil
}

// checkTooLarge: an upload request whose declared length exceeds MaxUploadSize is refused - with
// a JSON GraphQL body under the transport's content type and configured headers, like every other
// answer, and with nothing run.
func checkTooLarge(c Case, s *proj.Server, h *handler.Server) *vfrun.Failure {
	supported := false
	for _, n := range c.Order {
		supported = supported || n == "multipart"
	}
	if !supported {
		return nil
	}
	body := "--b\r\nContent-Disposition: form-data; name=\"operations\"\r\n\r\n{\"query\":\"mutation { m3 }\"}\r\n--b\r\nContent-Disposition: form-data; name=\"map\"\r\n\r\n{}\r\n--b\r\nContent-Disposition: form-data; name=\"pad\"\r\n\r\n" + strings.Repeat("x", 400) + "\r\n--b--\r\n"
	hr := httptest.NewRequest("POST", "/graphql", strings.NewReader(body))
	hr.Header.Set("Content-Type", "multipart/form-data; boundary=b")
	e := univ.NewExec(plan.New(3))
	s.U.SetExec(e)
	res := hsrv.Serve(h, hr)
	vfrun.Eval()
	desc := fmt.Sprintf("multipart upload of %d bytes against MaxUploadSize 256, respCT=%q -> %d %q %s", len(body), c.RespCT, res.Status, res.Header.Get("Content-Type"), res.Body)
	if n := len(e.Keys("R")); n > 0 {
		return vfrun.Failf("http.non-2xx-but-executed", "%s: %d resolver calls ran", desc, n)
	}
	b, perr := strictjson.Parse(res.Body)
	if perr != nil || b.Kind != strictjson.Object || b.Get("errors") == nil {
		return vfrun.Failf("http.body-not-graphql-json", "%s: %v", desc, perr)
	}
	// (which status such a refusal carries is not part of the property: gqlgen answers 200)
	wantCT := "application/json"
	if c.RespCT != "" {
		wantCT = c.RespCT
	}
	if c.RespCT == "" && c.ExtraHdr {
		vfrun.Label("content-type-not-asserted(configured-headers-without-content-type)")
	} else if got := res.Header.Values("Content-Type"); len(got) != 1 || got[0] != wantCT {
		return vfrun.Failf("http.content-type", "%s: Content-Type %q, want %q", desc, got, wantCT)
	}
	if c.ExtraHdr && len(res.Header.Values("X-Harness")) != 2 {
		return vfrun.Failf("http.response-headers", "%s: configured header missing: %v", desc, res.Header)
	}
	vfrun.Label("rejected:upload-too-large")
	return nil
}

func checkAttempt(c Case, s *proj.Server, h *handler.Server, recoversP *atomic.Int64, attempt int) *vfrun.Failure {
	recovers := recoversP
	doc := c.document()
	req := hsrv.Req{Transport: c.Transport, Query: doc, HasQuery: true, OpName: c.OpName, HasOpName: c.HasOpName, Variables: c.Variables, Headers: map[string]string{}}
	if c.HasAccept {
		req.Headers["Accept"] = c.Accept
	}
	var hr *http.Request
	if c.Transport == "formjson" {
		// the JSON request object posted as a form: UrlEncodedForm decodes it like the POST transport
		r2 := req
		r2.Transport = "post"
		hr = r2.Build()
		hr.Header.Set("Content-Type", "application/x-www-form-urlencoded")
	} else if c.Transport == "urlencoded" {
		// this transport takes the query text as the body
		r2 := req
		r2.Transport = "graphql"
		hr = r2.Build()
		hr.Header.Set("Content-Type", "application/x-www-form-urlencoded")
	} else {
		hr = req.Build()
	}
	if c.Transport == "get" && c.GetBodyCT != "" {
		h2 := httptest.NewRequest("GET", hr.URL.String(), strings.NewReader(c.GetBody))
		for k, v := range hr.Header {
			h2.Header[k] = v
		}
		h2.Header.Set("Content-Type", c.GetBodyCT)
		hr = h2
	}
	e := univ.NewExec(plan.New(3))
	s.U.SetExec(e)
	res := hsrv.Serve(h, hr)
	vfrun.Eval()
	desc := fmt.Sprintf("[attempt %d, query cache %v] %s %q operationName=%v/%q accept=%v/%q respCT=%q vars=%s -> %d %q %s", attempt, c.QueryCache, c.Transport, doc, c.HasOpName, c.OpName, c.HasAccept, c.Accept, c.RespCT, c.Variables, res.Status, res.Header.Get("Content-Type"), res.Body)
	ran := e.Keys("R")
	if recovers.Load() != 0 {
		return vfrun.Failf("http.recover-hook", "%s: recover hook ran", desc)
	}
	// body: strict JSON with the GraphQL response shape
	if string(res.Body) == "null" && c.Transport != "get" && res.Status == 200 && len(ran) == 1 && ran[0] == "count" {
		f := vfrun.Failf("http.subscription-without-event-answers-null", "%s", desc)
		if vfrun.IsKnown(f.Key) {
			return nil
		}
		return f
	}
	body, perr := strictjson.Parse(res.Body)
	if perr != nil || body.Kind != strictjson.Object {
		return vfrun.Failf("http.body-not-graphql-json", "%s: %v", desc, perr)
	}
	for _, k := range body.Keys {
		switch k {
		case "data", "errors", "extensions", "hasNext", "label", "path":
		default:
			return vfrun.Failf("http.body-not-graphql-json", "%s: unexpected member %q", desc, k)
		}
	}
	if ev := body.Get("errors"); ev != nil {
		if ev.Kind != strictjson.Array || len(ev.Arr) == 0 {
			return vfrun.Failf("http.body-not-graphql-json", "%s: errors is not a non-empty list", desc)
		}
		for _, x := range ev.Arr {
			if m := x.Get("message"); m == nil || m.Kind != strictjson.String {
				return vfrun.Failf("http.body-not-graphql-json", "%s: error without message", desc)
			}
		}
	} else if body.Get("data") == nil {
		return vfrun.Failf("http.body-not-graphql-json", "%s: neither data nor errors", desc)
	}
	// content type
	wantCT := "application/json"
	if c.Transport == "get" || c.Transport == "post" {
		wantCT = negotiate(c.RespCT, c.Accept, c.HasAccept)
	} else if c.RespCT != "" {
		wantCT = c.RespCT
	}
	supported := false
	for _, n := range c.Order {
		if n == c.Transport || (n == "urlencoded" && c.Transport == "formjson") {
			supported = true
		}
	}
	if !supported {
		if res.Status != 400 || len(ran) > 0 {
			return vfrun.Failf("http.no-transport", "%s: no transport supports the request, want 400 and nothing run", desc)
		}
		vfrun.Label("no-transport")
		return nil
	}
	negotiating := c.Transport == "get" || c.Transport == "post"
	if !negotiating && c.RespCT == "" && c.ExtraHdr {
		// these transports document "if ResponseHeaders is not set, only Content-Type: application/json
		// is set": with a configured map that has no Content-Type nothing is promised
		vfrun.Label("content-type-not-asserted(configured-headers-without-content-type)")
	} else if got := res.Header.Values("Content-Type"); len(got) != 1 || got[0] != wantCT {
		return vfrun.Failf("http.content-type", "%s: Content-Type %q, negotiated %q", desc, got, wantCT)
	}
	if c.ExtraHdr && len(res.Header.Values("X-Harness")) != 2 {
		return vfrun.Failf("http.response-headers", "%s: configured header missing: %v", desc, res.Header)
	}
	// status <-> execution
	if len(ran) > 0 && res.Status != 200 {
		return vfrun.Failf("http.executed-but-not-200", "%s: resolvers %v ran", desc, ran)
	}
	if res.Status < 200 || res.Status > 299 {
		if len(ran) > 0 {
			return vfrun.Failf("http.non-2xx-but-executed", "%s: resolvers %v ran", desc, ran)
		}
	}
	// which operation
	sel := -1
	selectable := true
	switch {
	case c.Damage == "parse" || c.Damage == "validation":
		selectable = false
	case c.HasOpName && c.OpName != "" && (c.Transport == "get" || c.Transport == "post" || c.Transport == "formjson"):
		for k := range c.Ops {
			if c.OpName == fmt.Sprintf("Op%d", k) && !(c.Anonymous && len(c.Ops) == 1) {
				sel = k
			}
		}
	default:
		if len(c.Ops) == 1 {
			sel = 0
		}
	}
	clientErr := 422
	if wantCT == "application/graphql-response+json" && (c.Transport == "get" || c.Transport == "post") {
		clientErr = 400
	}
	if !selectable || sel < 0 {
		if res.Status != clientErr || len(ran) > 0 || body.Get("errors") == nil {
			return vfrun.Failf("http.client-error-status", "%s: document invalid or no operation selected: want status %d, errors only, nothing run", desc, clientErr)
		}
		vfrun.Label("rejected:" + map[bool]string{true: "no-operation-selected", false: c.Damage}[selectable])
		nontrivial(c, desc)
		return nil
	}
	sn := snippets[c.Ops[sel]]
	// variable coercion failures
	if sn.Vars != "" && (c.Damage == "variable" || c.Variables == "") {
		if res.Status != clientErr || len(ran) > 0 {
			return vfrun.Failf("http.client-error-status", "%s: variable coercion must fail with %d and run nothing", desc, clientErr)
		}
		vfrun.Label("rejected:variable")
		nontrivial(c, desc)
		return nil
	}
	if c.Transport == "get" && sn.Kind != "query" {
		if len(ran) > 0 {
			return vfrun.Failf("http.get-executed-non-query", "%s: a %s ran over GET: %v", desc, sn.Kind, ran)
		}
		if res.Status >= 200 && res.Status <= 299 || body.Get("errors") == nil {
			return vfrun.Failf("http.get-non-query-not-refused", "%s: a %s over GET must be refused", desc, sn.Kind)
		}
		vfrun.Label("get-refused-" + sn.Kind)
		nontrivial(c, desc)
		return nil
	}
	// executed: exactly the selected operation's root fields
	if res.Status != 200 {
		return vfrun.Failf("http.valid-request-not-200", "%s: want 200", desc)
	}
	for _, k := range ran {
		root := strings.SplitN(strings.SplitN(k, ".", 2)[0], "[", 2)[0]
		ok := root == sn.Reveal
		if sn.Reveal == "i" && root == "x" {
			ok = true
		}
		if sn.Reveal == "m4" && root == "m1" {
			ok = true
		}
		if !ok {
			return vfrun.Failf("http.wrong-operation-executed", "%s: selected operation #%d (%s) but resolver %q ran", desc, sel, sn.Reveal, k)
		}
	}
	found := false
	for _, k := range ran {
		if k == sn.Reveal {
			found = true
		}
	}
	if !found {
		return vfrun.Failf("http.wrong-operation-executed", "%s: selected operation #%d (%s) did not run; ran %v", desc, sel, sn.Reveal, ran)
	}
	vfrun.Label("executed:" + sn.Kind)
	nontrivial(c, desc)
	return nil
}

func nontrivial(c Case, desc string) {
	if len(c.Ops) > 1 || (c.HasAccept && c.Accept != "application/json") || c.Transport == "get" {
		vfrun.NonTrivial(desc)
	}
	vfrun.SampleCat(c.Transport+"-"+c.Damage, c)
}

var accepts = []string{"", "*/*", "application/*", "application/json", "application/graphql-response+json", "application/json, */*;q=0.5",
	"text/html, application/json;q=0.9", "application/graphql-response+json;charset=utf-8, application/json", "text/plain", "junk;;;", "application/json;q=0.1, application/graphql-response+json",
	"APPLICATION/JSON", " application/json ", "text/html,application/xhtml+xml,*/*;q=0.8"}

func gen(t *rapid.T) Case {
	var c Case
	n := rapid.SampledFrom([]int{1, 1, 1, 2, 2, 3, 4}).Draw(t, "nops")
	perm := rapid.Permutation([]int{0, 1, 2, 3, 4, 5}).Draw(t, "opsperm")
	c.Ops = perm[:n]
	c.Anonymous = n == 1 && rapid.Bool().Draw(t, "anon")
	c.Damage = rapid.SampledFrom([]string{"", "", "", "parse", "validation", "variable"}).Draw(t, "damage")
	c.Transport = rapid.SampledFrom([]string{"get", "get", "post", "post", "graphql", "urlencoded", "formjson"}).Draw(t, "transport")
	c.QueryCache = rapid.Bool().Draw(t, "querycache")
	c.Repeat = rapid.SampledFrom([]int{0, 0, 1, 2}).Draw(t, "repeat")
	switch rapid.IntRange(0, 7).Draw(t, "opname") {
	case 0:
	case 1, 2, 3, 4, 5:
		c.HasOpName = true
		c.OpName = fmt.Sprintf("Op%d", rapid.IntRange(0, n-1).Draw(t, "which"))
	default:
		c.HasOpName = true
		c.OpName = rapid.SampledFrom([]string{"Nope", "", "op0", "Op9"}).Draw(t, "unknown")
	}
	c.HasAccept = rapid.Bool().Draw(t, "hasaccept")
	if c.HasAccept {
		c.Accept = rapid.SampledFrom(accepts).Draw(t, "accept")
	}
	c.RespCT = rapid.SampledFrom([]string{"", "", "", "application/json", "application/graphql-response+json", "text/x-custom"}).Draw(t, "respct")
	c.ExtraHdr = rapid.Bool().Draw(t, "extrahdr")
	all := []string{"options", "get", "post", "graphql", "urlencoded", "multipart"}
	c.Order = rapid.Permutation(all).Draw(t, "order")
	if rapid.IntRange(0, 9).Draw(t, "droptransport") == 0 {
		c.Order = c.Order[:len(c.Order)-2]
	}
	c.TooLarge = rapid.IntRange(0, 7).Draw(t, "toolarge") == 0
	if c.Transport == "get" && rapid.IntRange(0, 2).Draw(t, "getbody") == 0 {
		i := rapid.IntRange(0, len(getBodies)-1).Draw(t, "whichgetbody")
		c.GetBodyCT, c.GetBody = getBodies[i][0], getBodies[i][1]
		vfrun.Label("get-with-body:" + c.GetBodyCT)
	}
	switch {
	case c.Damage == "variable":
		c.Variables = rapid.SampledFrom([]string{`{"n":"abc"}`, `{"n":null}`, `{"n":1.5}`, `{"n":[1,2]}`, `{}`}).Draw(t, "badvars")
	case rapid.Bool().Draw(t, "vars"):
		c.Variables = `{"n":5}`
	}
	if c.Transport == "graphql" || c.Transport == "urlencoded" {
		c.HasOpName = false
		c.OpName = ""
		c.Variables = ""
		if c.Damage == "variable" {
			c.Damage = ""
		}
	}
	return c
}

func TestHTTP(t *testing.T) {
	vfrun.Run(t, vfrun.Prop[Case]{Property: "C09", Name: "TestHTTP", Gen: gen, Check: check}, vfrun.N(20000, 4000000))
}
