package c10

import (
	"bytes"
	"encoding/json"
	"fmt"
	"github.com/99designs/gqlgen/graphql/handler/lru"
	"github.com/vektah/gqlparser/v2/ast"
	"io"
	"mime/multipart"
	"net/http"
	"net/http/httptest"
	"net/textproto"
	"net/url"
	"os"
	"strconv"
	"strings"
	"sync/atomic"
	"testing"

	"pgregory.net/rapid"

	"vh/hsrv"
	"vh/kit"
	"vh/plan"
	"vh/proj"
	"vh/strictjson"
	"vh/univ"
	"vh/vfrun"
)

// ---------------------------------------------------------------------------------------------
// raw requests: any bytes on the JSON / query-string / text transports

type RawCase struct {
	Transport string `json:"transport"` // post get graphql urlencoded sse multipartmixed
	Body      []byte `json:"body"`      // request body, or the raw query string for get
	// Twice: the server caches parsed documents and the request is sent twice
	Twice bool `json:"twice,omitempty"`
	// Primer: a well-formed request with variables that the same server answers first (JSON body);
	// MissingVar: the body declares a required variable and does not provide it - it must be
	// answered with errors and run nothing, whatever the server answered before
	Primer     []byte `json:"primer,omitempty"`
	MissingVar bool   `json:"missing_var,omitempty"`
}

var missingVarBodies = []string{
	`{"query":"query($n:Int!){ ok(n:$n) }"}`,
	`{"query":"query($n:Int!){ ok(n:$n) }","variables":{}}`,
	`{"query":"query($n:Int!){ ok(n:$n) }","variables":{"m":3}}`,
	`{"query":"query($n:Int!,$s:String!){ ok(n:$n,s:$s) }","variables":{"s":"x"}}`,
	`{"query":"query($n:Int!){ ok(n:$n) }","variables":null}`,
}

// documents that parse but are not valid against the schema (each for another validation rule)
var invalidDocs = []string{"{ nosuchfield }", "{ ok { x } }", "{ ...Missing }", "query($v: NoSuchType) { ok }", "{ ok @nosuchdirective }", "{ ok(nosucharg: 1) }",
	"{ ok ...F } fragment F on NoSuchType { x }", "query($v: Int) { ok } ", "{ ok(n: \"x\") }", "query A { ok } query A { ok }", "subscription { a b }", "{ __typename ... on Query { nope } }"}

var jsonAtoms = []string{`{"query":"{ nosuchfield }"}`, `{"query":"{ ok { x } }"}`, `{"query":"{ ...Missing }"}`, `{"query":"query($v: NoSuchType) { ok }"}`, `{"query":"{ ok @nosuchdirective }"}`,
	`{"query":"{ ok(nosucharg: 1) }"}`, `{"query":"{ ok ...F } fragment F on NoSuchType { x }"}`, `{"query":"query A { ok } query A { ok }"}`, `{"query":"{ __typename ... on Query { nope } }"}`,
	"null", "true", "1", "-0", "1e400", `""`, `"x"`, "[]", "{}", "[null]", `{"query":null}`, `{"query":1}`, `{"query":"{ ok }"}`,
	`{"query":"{ ok }","variables":null}`, `{"query":"{ ok }","variables":[]}`, `{"query":"{ ok }","variables":"x"}`, `{"query":"{ ok }","variables":{"a":{"b":[1,{"c":null}]}}}`,
	`{"query":"{ ok }","operationName":null}`, `{"query":"{ ok }","operationName":5}`, `{"query":"{ ok }","extensions":null}`, `{"query":"{ ok }","extensions":[1]}`,
	`{"query":"{ ok }","extensions":{"persistedQuery":null}}`, `{"query":"{ ok }","extensions":{"persistedQuery":{"version":"x"}}}`, `{"query":"{ ok }","headers":{"a":["b"]}}`,
	`{"query":"{ ok }","headers":5}`, `{"query":"query($n:Int){ ok(n:$n) }","variables":{"n":1e999}}`, `{"query":"{ ok }"} trailing`, `{"query":"{ ok }"}{"query":"{ ok }"}`,
	`{"query":"{ ok }","query":"{ nope }"}`, `{"QUERY":"{ ok }"}`, "\xff\xfe", `{"query":"\ud800"}`, `{"query":"{ ok(s: \"\u0000\") }"}`, ``}

func genJSONish(t *rapid.T) []byte {
	switch rapid.IntRange(0, 5).Draw(t, "jk") {
	case 0:
		return []byte(rapid.SampledFrom(jsonAtoms).Draw(t, "atom"))
	case 1:
		// truncation of a valid body
		s := rapid.SampledFrom(jsonAtoms).Draw(t, "atom")
		if len(s) == 0 {
			return nil
		}
		return []byte(s[:rapid.IntRange(0, len(s)).Draw(t, "cut")])
	case 2:
		// deep nesting
		n := rapid.IntRange(1, 3000).Draw(t, "depth")
		open := rapid.SampledFrom([]string{"[", `{"a":`, `{"query":`, `{"variables":`}).Draw(t, "open")
		return []byte(strings.Repeat(open, n))
	case 3:
		return rapid.SliceOfN(rapid.Byte(), 0, 40).Draw(t, "bytes")
	case 4:
		// a structurally valid object with random member values
		members := []string{"query", "operationName", "variables", "extensions", "headers", "other"}
		var parts []string
		for _, m := range members {
			if rapid.Bool().Draw(t, "has") {
				parts = append(parts, fmt.Sprintf("%q:%s", m, rapid.SampledFrom([]string{"null", "1", `"{ ok }"`, `"{"`, "[]", "{}", `{"a":1}`, "true", `"Op"`, `[{"x":[null]}]`}).Draw(t, "val")))
			}
		}
		return []byte("{" + strings.Join(parts, ",") + "}")
	default:
		// mutate one byte of a valid body
		s := []byte(rapid.SampledFrom(jsonAtoms).Draw(t, "atom"))
		if len(s) > 0 {
			s[rapid.IntRange(0, len(s)-1).Draw(t, "pos")] = rapid.Byte().Draw(t, "b")
		}
		return s
	}
}

func uploadsServer() (*proj.Server, *vfrun.Failure) {
	ss, err := kit.Servers("uploads")
	if err != nil {
		return nil, vfrun.Failf("harness.no-project", "%v", err)
	}
	return ss[0], nil
}

// serve runs one request; a panic that escapes ServeHTTP is caught and reported.
func serve(h http.Handler, req *http.Request) (res hsrv.Result, escaped any) {
	defer func() {
		if r := recover(); r != nil {
			escaped = r
		}
	}()
	return hsrv.Serve(h, req), nil
}

func wellFormedError(res hsrv.Result, what string) *vfrun.Failure {
	if len(res.Body) == 0 && (res.Status == 200 || res.Status == 405) {
		return nil // OPTIONS/HEAD style answers
	}
	// streaming transports answer with events / parts; only JSON bodies are parsed here
	ct := res.Header.Get("Content-Type")
	if strings.HasPrefix(ct, "text/event-stream") || strings.HasPrefix(ct, "multipart/mixed") {
		return nil
	}
	body, err := strictjson.Parse(res.Body)
	if err != nil {
		return vfrun.Failf("malformed.answer-not-json", "%s: answer %d %q is not JSON: %v", what, res.Status, res.Body, err)
	}
	if body.Kind != strictjson.Object || (body.Get("errors") == nil && body.Get("data") == nil) {
		return vfrun.Failf("malformed.answer-not-graphql", "%s: answer %d %q is not a GraphQL response", what, res.Status, res.Body)
	}
	return nil
}

func checkRaw(c RawCase) *vfrun.Failure {
	s, f := uploadsServer()
	if f != nil {
		return f
	}
	var recovers atomic.Int64
	h := hsrv.New(s, hsrv.Config{Recovers: &recovers})
	if c.Twice {
		h.SetQueryCache(lru.New[*ast.QueryDocument](64))
	}
	var req *http.Request
	switch c.Transport {
	case "get":
		req = httptest.NewRequest("GET", "/graphql", nil)
		req.URL.RawQuery = string(c.Body)
	case "graphql":
		req = httptest.NewRequest("POST", "/graphql", bytes.NewReader(c.Body))
		req.Header.Set("Content-Type", "application/graphql")
	case "urlencoded":
		req = httptest.NewRequest("POST", "/graphql", bytes.NewReader(c.Body))
		req.Header.Set("Content-Type", "application/x-www-form-urlencoded")
	case "sse":
		req = httptest.NewRequest("POST", "/graphql", bytes.NewReader(c.Body))
		req.Header.Set("Content-Type", "application/json")
		req.Header.Set("Accept", "text/event-stream")
	case "multipartmixed":
		req = httptest.NewRequest("POST", "/graphql", bytes.NewReader(c.Body))
		req.Header.Set("Content-Type", "application/json")
		req.Header.Set("Accept", "multipart/mixed")
	default:
		req = httptest.NewRequest("POST", "/graphql", bytes.NewReader(c.Body))
		req.Header.Set("Content-Type", "application/json")
	}
	if len(c.Primer) > 0 {
		s.U.SetExec(univ.NewExec(plan.New(5)))
		pr := req.Clone(req.Context())
		pr.Body = io.NopCloser(bytes.NewReader(c.Primer))
		pr.ContentLength = int64(len(c.Primer))
		_, _ = serve(h, pr)
	}
	e := univ.NewExec(plan.New(5))
	s.U.SetExec(e)
	res, escaped := serve(h, req)
	what := fmt.Sprintf("%s %q", c.Transport, c.Body)
	if len(c.Primer) > 0 {
		what += fmt.Sprintf(" (after %q)", c.Primer)
	}
	if c.MissingVar && escaped == nil {
		if n := len(e.Keys("R")); n > 0 {
			return vfrun.Failf("malformed.missing-variable-executed", "%s: the body does not provide the required variable it declares, yet %d resolver call(s) ran; answer %d %q", what, n, res.Status, res.Body)
		}
		if !bytes.Contains(res.Body, []byte(`"errors"`)) {
			return vfrun.Failf("malformed.missing-variable-executed", "%s: the body does not provide the required variable it declares; answer %d %q has no errors", what, res.Status, res.Body)
		}
		vfrun.Label("raw:missing-required-variable")
	}
	if c.Twice && escaped == nil && recovers.Load() == 0 {
		// the same bytes again, on a server that caches parsed documents (as NewDefaultServer does):
		// what was refused the first time must not be let through - or crash - the second time
		req2 := req.Clone(req.Context())
		req2.Body = io.NopCloser(bytes.NewReader(c.Body))
		if c.Transport == "get" {
			req2.Body = nil
		}
		res2, escaped2 := serve(h, req2)
		what += " (sent twice, query cache)"
		if escaped2 != nil {
			res, escaped = res2, escaped2
		} else if recovers.Load() != 0 || res2.Status != res.Status {
			if recovers.Load() == 0 {
				return vfrun.Failf("malformed.second-answer-differs", "%s: first answer %d %q, second %d %q", what, res.Status, res.Body, res2.Status, res2.Body)
			}
			res = res2
		}
	}
	isNull := strings.TrimSpace(string(c.Body)) == "null"
	if escaped != nil {
		return vfrun.Failf("malformed.panic-escaped-handler", "%s: panic escaped ServeHTTP: %v", what, escaped)
	}
	if recovers.Load() != 0 {
		key := "malformed.recover-hook-without-user-panic"
		if isNull {
			key = "decode.null-rawparams." + c.Transport
		}
		return vfrun.Failf(key, "%s: gqlgen's own code panicked (recover hook ran %d times); answer %d %q", what, recovers.Load(), res.Status, res.Body)
	}
	if f := wellFormedError(res, what); f != nil {
		return f
	}
	vfrun.Label("raw:" + c.Transport)
	if !json.Valid(c.Body) || isNull {
		vfrun.Label("raw:structural-defect")
		vfrun.NonTrivial(what)
	}
	vfrun.SampleCat("raw-"+c.Transport, map[string]any{"transport": c.Transport, "body": string(c.Body), "status": res.Status})
	return nil
}

func TestRaw(t *testing.T) {
	vfrun.Run(t, vfrun.Prop[RawCase]{Property: "C10", Name: "TestRaw",
		Gen: func(t *rapid.T) RawCase {
			c := RawCase{Transport: rapid.SampledFrom([]string{"post", "post", "get", "graphql", "urlencoded", "sse", "multipartmixed"}).Draw(t, "transport")}
			if c.Transport == "get" {
				switch rapid.IntRange(0, 2).Draw(t, "gk") {
				case 0:
					q := url.Values{}
					q.Set("query", rapid.SampledFrom(append([]string{"{ ok }", "{", "", "query($n:Int){ ok(n:$n) }"}, invalidDocs...)).Draw(t, "q"))
					if rapid.Bool().Draw(t, "v") {
						q.Set("variables", string(genJSONish(t)))
					}
					if rapid.Bool().Draw(t, "e") {
						q.Set("extensions", string(genJSONish(t)))
					}
					c.Body = []byte(q.Encode())
				case 1:
					c.Body = []byte(rapid.SampledFrom([]string{"query=%", "query=%7B+ok+%7D&variables=%ZZ", ";;;", "a=b&a=c&query", "query={ok}&operationName=%00"}).Draw(t, "rawq"))
				default:
					c.Body = rapid.SliceOfN(rapid.ByteRange(0x20, 0x7e), 0, 30).Draw(t, "qs")
				}
			} else {
				c.Body = genJSONish(t)
			}
			c.Twice = rapid.Bool().Draw(t, "twice")
			if (c.Transport == "post" || c.Transport == "sse" || c.Transport == "multipartmixed") && rapid.IntRange(0, 5).Draw(t, "missingvar") == 0 {
				c.Body = []byte(rapid.SampledFrom(missingVarBodies).Draw(t, "mvbody"))
				c.MissingVar = true
				if rapid.IntRange(0, 3).Draw(t, "primer") != 0 {
					c.Primer = []byte(`{"query":"query($n:Int!,$s:String){ ok(n:$n,s:$s) }","variables":{"n":7,"s":"p"}}`)
				}
			}
			return c
		}, Check: checkRaw}, vfrun.N(15000, 1500000))
}

// ---------------------------------------------------------------------------------------------
// multipart uploads

type Part struct {
	Name        string `json:"name"`
	Filename    string `json:"filename,omitempty"`
	ContentType string `json:"content_type,omitempty"`
	Data        []byte `json:"data"`
	IsFile      bool   `json:"is_file"`
}

type UploadCase struct {
	Parts     []Part `json:"parts"`
	MaxUpload int64  `json:"max_upload"`
	MaxMemory int64  `json:"max_memory"`
	// WellFormed: the generator built a request that follows the multipart spec; Expect lists, per
	// variable path, the file that must arrive there
	WellFormed bool           `json:"well_formed"`
	Expect     map[string]int `json:"expect,omitempty"` // "files.0" -> index of the file part
	Field      string         `json:"field,omitempty"`
	Defect     string         `json:"defect,omitempty"`
	// CutTail: the request body is cut this many bytes before its end (a client that stops mid-file)
	CutTail int `json:"cut_tail,omitempty"`
}

func (c UploadCase) body() ([]byte, string) {
	var buf bytes.Buffer
	w := multipart.NewWriter(&buf)
	for _, p := range c.Parts {
		h := textproto.MIMEHeader{}
		if p.IsFile {
			h.Set("Content-Disposition", fmt.Sprintf(`form-data; name=%q; filename=%q`, p.Name, p.Filename))
			if p.ContentType != "" {
				h.Set("Content-Type", p.ContentType)
			}
		} else {
			h.Set("Content-Disposition", fmt.Sprintf(`form-data; name=%q`, p.Name))
		}
		pw, _ := w.CreatePart(h)
		pw.Write(p.Data)
	}
	w.Close()
	b := buf.Bytes()
	if c.CutTail > 0 && c.CutTail < len(b) {
		b = b[:len(b)-c.CutTail]
	}
	return b, w.FormDataContentType()
}

// lookupPath walks the recorded argument tree ("files.0", "in.f", "ins.1.f").
func lookupPath(args map[string]any, path string) (any, bool) {
	var cur any = args
	for _, seg := range strings.Split(path, ".") {
		switch x := cur.(type) {
		case map[string]any:
			v, ok := x[seg]
			if !ok {
				return nil, false
			}
			cur = v
		case []any:
			var i int
			if _, err := fmt.Sscanf(seg, "%d", &i); err != nil || i < 0 || i >= len(x) {
				return nil, false
			}
			cur = x[i]
		default:
			return nil, false
		}
	}
	return cur, true
}

func checkUpload(c UploadCase) *vfrun.Failure {
	s, f := uploadsServer()
	if f != nil {
		return f
	}
	tmp, err := os.MkdirTemp("", "c10-")
	if err != nil {
		return vfrun.Failf("harness.tmp", "%v", err)
	}
	defer os.RemoveAll(tmp)
	old := os.Getenv("TMPDIR")
	os.Setenv("TMPDIR", tmp)
	defer os.Setenv("TMPDIR", old)
	var recovers atomic.Int64
	h := hsrv.New(s, hsrv.Config{Recovers: &recovers, MaxUpload: c.MaxUpload, MaxMemory: c.MaxMemory})
	body, ct := c.body()
	req := httptest.NewRequest("POST", "/graphql", bytes.NewReader(body))
	req.Header.Set("Content-Type", ct)
	e := univ.NewExec(plan.New(5))
	e.RecordArgs = true
	s.U.SetExec(e)
	res, escaped := serve(h, req)
	what := fmt.Sprintf("multipart (%d bytes, MaxUploadSize %d, MaxMemory %d, defect %q) parts %s", len(body), c.MaxUpload, c.MaxMemory, c.Defect, partsDesc(c.Parts))
	if escaped != nil {
		return vfrun.Failf("malformed.panic-escaped-handler", "%s: panic escaped ServeHTTP: %v", what, escaped)
	}
	if recovers.Load() != 0 {
		key := "malformed.recover-hook-without-user-panic"
		if strings.Contains(string(res.Body), "interface conversion") || strings.Contains(string(res.Body), "index out of range") || strings.Contains(string(res.Body), "nil map") {
			key = "upload.path-walk"
		}
		return vfrun.Failf(key, "%s: gqlgen's own code panicked (recover hook ran); answer %d %q", what, res.Status, res.Body)
	}
	if f := wellFormedError(res, what); f != nil {
		return f
	}
	// every temporary file is removed
	if ents, _ := os.ReadDir(tmp); len(ents) > 0 {
		return vfrun.Failf("upload.temp-file-left", "%s: %d temporary file(s) left behind, e.g. %s", what, len(ents), ents[0].Name())
	}
	calls := e.Events()
	var call *univ.Event
	for i := range calls {
		if calls[i].Kind == "R" {
			call = &calls[i]
		}
	}
	limit := c.MaxUpload
	if limit == 0 {
		limit = 32 << 20
	}
	if int64(len(body)) > limit && call != nil {
		return vfrun.Failf("upload.size-limit-not-enforced", "%s: body exceeds MaxUploadSize but a resolver ran", what)
	}
	if c.WellFormed && int64(len(body)) <= limit {
		if call == nil {
			return vfrun.Failf("upload.well-formed-rejected", "%s: well-formed upload was not executed: %d %s", what, res.Status, res.Body)
		}
		args, _ := call.Args.(map[string]any)
		paths := make([]string, 0, len(c.Expect))
		for p := range c.Expect {
			paths = append(paths, p)
		}
		sortStrings(paths)
		for _, path := range paths {
			fp := c.Parts[c.Expect[path]]
			got, ok := lookupPath(args, path)
			m, _ := got.(map[string]any)
			if !ok || m == nil {
				return vfrun.Failf("upload.file-missing", "%s: no upload at variable path %s; resolver received %v", what, path, args)
			}
			if m["content"] != string(fp.Data) || m["filename"] != fp.Filename || m["contentType"] != fp.ContentType || m["size"] != int64(len(fp.Data)) {
				return vfrun.Failf("upload.file-differs", "%s: path %s received %v, sent filename %q content type %q %d bytes %q", what, path, m, fp.Filename, fp.ContentType, len(fp.Data), fp.Data)
			}
		}
		vfrun.Label("upload:delivered")
		if len(c.Expect) >= 2 || int64(len(body)) >= mem(c.MaxMemory) {
			vfrun.NonTrivial(what)
		}
		if int64(len(body)) >= mem(c.MaxMemory) {
			vfrun.Label("upload:spilled-to-disk")
		}
	} else {
		vfrun.Label("upload:defect:" + c.Defect)
		vfrun.NonTrivial(what)
	}
	vfrun.SampleCat("upload-"+c.Defect, c)
	return nil
}

func mem(m int64) int64 {
	if m == 0 {
		return 32 << 20
	}
	return m
}

func sortStrings(s []string) {
	for i := 1; i < len(s); i++ {
		for j := i; j > 0 && s[j] < s[j-1]; j-- {
			s[j], s[j-1] = s[j-1], s[j]
		}
	}
}

func partsDesc(ps []Part) string {
	var out []string
	for _, p := range ps {
		d := string(p.Data)
		if len(d) > 120 {
			d = d[:120] + "…"
		}
		if p.IsFile {
			out = append(out, fmt.Sprintf("file %s(%q, %d bytes)", p.Name, p.Filename, len(p.Data)))
		} else {
			out = append(out, fmt.Sprintf("%s=%s", p.Name, d))
		}
	}
	return strings.Join(out, " | ")
}

type shape struct {
	field string
	query string
	// vars builds the variables JSON with nulls at file positions for n files, and the paths
	vars func(n int) (string, []string)
}

var shapes = []shape{
	{"single", "mutation($file: Upload!) { single(file: $file) }", func(n int) (string, []string) { return `{"file":null}`, []string{"file"} }},
	{"multi", "mutation($files: [Upload!]!) { multi(files: $files) }", func(n int) (string, []string) {
		var xs, ps []string
		for i := 0; i < n; i++ {
			xs = append(xs, "null")
			ps = append(ps, fmt.Sprintf("files.%d", i))
		}
		return `{"files":[` + strings.Join(xs, ",") + `]}`, ps
	}},
	{"nested", "mutation($in: FileIn!) { nested(in: $in) }", func(n int) (string, []string) { return `{"in":{"f":null,"note":"n"}}`, []string{"in.f"} }},
	{"nestedList", "mutation($ins: [FileIn!]!) { nestedList(ins: $ins) }", func(n int) (string, []string) {
		var xs, ps []string
		for i := 0; i < n; i++ {
			xs = append(xs, `{"f":null}`)
			ps = append(ps, fmt.Sprintf("ins.%d.f", i))
		}
		return `{"ins":[` + strings.Join(xs, ",") + `]}`, ps
	}},
	{"deep", "mutation($d: Deep) { deep(d: $d) }", func(n int) (string, []string) {
		var xs, ps []string
		for i := 0; i < n; i++ {
			xs = append(xs, "null")
			ps = append(ps, fmt.Sprintf("d.files.%d", i))
		}
		ps = append(ps, "d.inner.f")
		return `{"d":{"files":[` + strings.Join(xs, ",") + `],"inner":{"f":null}}}`, ps
	}},
}

var badPaths = []string{"variables", "variables.", "variables..", "file", "variables.nope", "variables.file.x", "variables.file.0", "variables.files.9", "variables.files.-1",
	"variables.files.99999999999999999999", "variables.files.x", "variables.files.0.0", "variables.in", "variables.in.f.g", "variables.in.note.x", "variables.ins.0", "variables.ins.5.f",
	"variables.d.files", "variables.d.inner.f.q", "variables.d.nope.f", "variables.0", "variables.files.1e0", "variables.files.+0", "variables.files.00", ""}

func genUpload(t *rapid.T) UploadCase {
	sh := shapes[rapid.IntRange(0, len(shapes)-1).Draw(t, "shape")]
	n := rapid.IntRange(1, 3).Draw(t, "nfiles")
	varsJSON, paths := sh.vars(n)
	c := UploadCase{Field: sh.field, WellFormed: true, Expect: map[string]int{}}
	ops := fmt.Sprintf(`{"query":%q,"variables":%s}`, sh.query, varsJSON)
	// files: some are shared by several paths
	nf := rapid.IntRange(1, len(paths)).Draw(t, "ndistinct")
	fileOf := make([]int, len(paths))
	for i := range paths {
		if i < nf {
			fileOf[i] = i
		} else {
			fileOf[i] = rapid.IntRange(0, nf-1).Draw(t, "share")
		}
	}
	m := map[string][]string{}
	for i, p := range paths {
		k := fmt.Sprint(fileOf[i])
		m[k] = append(m[k], "variables."+p)
	}
	mb, _ := json.Marshal(m)
	c.Parts = append(c.Parts, Part{Name: "operations", Data: []byte(ops)}, Part{Name: "map", Data: mb})
	for f := 0; f < nf; f++ {
		size := rapid.SampledFrom([]int{0, 1, 5, 100, 3000}).Draw(t, "size")
		data := make([]byte, size)
		for i := range data {
			data[i] = byte('a' + (i+f)%26)
		}
		if size > 0 && rapid.Bool().Draw(t, "binary") {
			data[0] = 0xff
		}
		c.Parts = append(c.Parts, Part{Name: fmt.Sprint(f), IsFile: true, Filename: rapid.SampledFrom([]string{"a.txt", "b \"q\".bin", "", "é.png"}).Draw(t, "fn"),
			ContentType: rapid.SampledFrom([]string{"text/plain", "application/octet-stream", ""}).Draw(t, "ct"), Data: data})
	}
	for i, p := range paths {
		c.Expect[p] = 2 + fileOf[i]
	}
	c.MaxMemory = rapid.SampledFrom([]int64{0, 0, 1, 64, 1 << 20}).Draw(t, "maxmem")
	c.MaxUpload = rapid.SampledFrom([]int64{0, 0, 1 << 20, 200, 4000}).Draw(t, "maxupload")
	// structural defects
	switch rapid.IntRange(0, 21).Draw(t, "defect") {
	case 0:
		c.Defect, c.WellFormed = "bad-path", false
		bad := rapid.SampledFrom(badPaths).Draw(t, "badpath")
		mb, _ := json.Marshal(map[string][]string{"0": {bad}})
		c.Parts[1].Data = mb
		c.Parts = c.Parts[:3]
	case 12, 13:
		// one segment of a valid path of this very request is changed: an index equal to the length of
		// its list (one past the end), further out, negative or not a number; a name the object does
		// not have; an index where a name belongs and the reverse; a segment too many or too few
		c.Defect, c.WellFormed = "path-segment-mutated", false
		segs := strings.Split(rapid.SampledFrom(paths).Draw(t, "path"), ".")
		i := rapid.IntRange(0, len(segs)-1).Draw(t, "seg")
		_, isIndex := strconv.Atoi(segs[i])
		mut := rapid.IntRange(0, 7).Draw(t, "segmut")
		switch {
		case mut == 0 && isIndex == nil:
			segs[i] = fmt.Sprint(n) // == len(list)
			vfrun.Label("upload-path:index-equals-length")
		case mut == 1 && isIndex == nil:
			segs[i] = fmt.Sprint(n + rapid.IntRange(1, 3).Draw(t, "past"))
		case mut == 2 && isIndex == nil:
			segs[i] = rapid.SampledFrom([]string{"-1", "-0", "x", "1e0", " 0", "18446744073709551616"}).Draw(t, "badindex")
		case mut <= 2 || mut == 3:
			segs[i] = rapid.SampledFrom([]string{"nope", "0", "", "F"}).Draw(t, "badname")
		case mut == 4:
			segs = append(segs, rapid.SampledFrom([]string{"0", "f", ""}).Draw(t, "extra"))
		case mut == 5 && len(segs) > 1:
			segs = segs[:len(segs)-1]
		case mut == 6:
			segs = append(segs[:i:i], append([]string{"0"}, segs[i:]...)...)
		default:
			segs[i] = segs[i] + "x"
		}
		bad := "variables." + strings.Join(segs, ".")
		mb, _ := json.Marshal(map[string][]string{"0": {bad}})
		c.Parts[1].Data = mb
		c.Parts = c.Parts[:3]
	case 14:
		// the list the path indexes into is empty (or shorter than the valid request's)
		c.Defect, c.WellFormed = "path-into-shorter-list", false
		short := rapid.IntRange(0, n-1).Draw(t, "shorter")
		sv, _ := sh.vars(short)
		if short == 0 {
			sv = strings.NewReplacer(`[null]`, `[]`, `[{"f":null}]`, `[]`).Replace(func() string { v, _ := sh.vars(1); return v }())
		}
		c.Parts[0].Data = []byte(fmt.Sprintf(`{"query":%q,"variables":%s}`, sh.query, sv))
	case 1:
		c.Defect, c.WellFormed = "no-operations", false
		c.Parts = c.Parts[1:]
	case 2:
		c.Defect, c.WellFormed = "no-map", false
		c.Parts = append(c.Parts[:1], c.Parts[2:]...)
	case 3:
		c.Defect, c.WellFormed = "parts-reordered", false
		c.Parts[0], c.Parts[len(c.Parts)-1] = c.Parts[len(c.Parts)-1], c.Parts[0]
	case 4:
		c.Defect, c.WellFormed = "operations-not-object", false
		c.Parts[0].Data = []byte(rapid.SampledFrom([]string{"null", "[]", "1", `"x"`, "{", ""}).Draw(t, "ops"))
	case 5:
		c.Defect, c.WellFormed = "map-malformed", false
		c.Parts[1].Data = []byte(rapid.SampledFrom([]string{"null", "[]", `{"0":"variables.file"}`, `{"0":[1]}`, `{"0":null}`, `{"0":[]}`, "{", `{"0":["variables.file"],"0":["variables.file"]}`}).Draw(t, "map"))
	case 6:
		c.Defect, c.WellFormed = "file-missing", false
		c.Parts = c.Parts[:len(c.Parts)-1]
	case 7:
		c.Defect, c.WellFormed = "file-duplicated", false
		c.Parts = append(c.Parts, c.Parts[len(c.Parts)-1])
	case 8:
		c.Defect, c.WellFormed = "variables-wrong-shape", false
		c.Parts[0].Data = []byte(fmt.Sprintf(`{"query":%q,"variables":%s}`, sh.query, rapid.SampledFrom([]string{"null", "[]", `{"file":[]}`, `{"files":{}}`, `{"files":null}`, `{"in":null}`, `{"in":[]}`, `{"ins":[null]}`, `{"d":{"files":null,"inner":null}}`, `{}`, `"x"`}).Draw(t, "vars")))
	case 9:
		c.Defect, c.WellFormed = "extra-unmapped-file", false
		c.Parts = append(c.Parts, Part{Name: "zzz", IsFile: true, Filename: "z", Data: []byte("z")})
	case 10, 11:
		// the body stops inside (or right after) a file part: no closing boundary
		c.Defect, c.WellFormed = "body-truncated", false
		c.CutTail = rapid.SampledFrom([]int{1, 5, 20, 45, 60, 200, 1500}).Draw(t, "cut")
	}
	return c
}

func TestUploads(t *testing.T) {
	vfrun.Run(t, vfrun.Prop[UploadCase]{Property: "C10", Name: "TestUploads", Gen: genUpload, Check: checkUpload}, vfrun.N(6000, 400000))
}
