package c10

import (
	"encoding/json"
	"fmt"
	"net/http/httptest"
	"strings"
	"sync/atomic"
	"testing"
	"time"

	"github.com/gorilla/websocket"
	"pgregory.net/rapid"

	"vh/hsrv"
	"vh/kit"
	"vh/plan"
	"vh/strictjson"
	"vh/univ"
	"vh/vfrun"
)

// Websocket frames of any type and payload, under both subprotocols, before and after the handshake:
// gqlgen's own code never panics (the recover hook stays silent, the process lives), everything the
// server writes is a JSON message object, and the server is still able to run a fresh session.

type WFrame struct {
	Kind    string `json:"kind"` // text binary ping pong close
	Payload []byte `json:"payload"`
}

type WSCase struct {
	Proto  string   `json:"proto"`
	Frames []WFrame `json:"frames"`
}

var wsTexts = []string{`null`, `[]`, `{}`, `5`, `"x"`, `{"type":null}`, `{"type":5}`, `{"type":"connection_init"}`, `{"type":"connection_init","payload":null}`,
	`{"type":"connection_init","payload":[1]}`, `{"type":"connection_init","payload":{"a":{"b":[null]}}}`, `{"type":"start"}`, `{"type":"start","id":5}`, `{"type":"start","id":"1"}`,
	`{"type":"start","id":"1","payload":null}`, `{"type":"start","id":"1","payload":5}`, `{"type":"start","id":"1","payload":{"query":null}}`, `{"type":"start","id":"1","payload":{"query":5}}`,
	`{"type":"start","id":"1","payload":{"query":"{ ok }","variables":[]}}`, `{"type":"start","id":"1","payload":{"query":"{ ok }","variables":"x"}}`,
	`{"type":"start","id":"1","payload":{"query":"{ ok }","operationName":5}}`, `{"type":"start","id":"1","payload":{"query":"{ ok }","extensions":5}}`,
	`{"type":"start","id":"1","payload":{"query":"{ ok }"}}`, `{"type":"subscribe","id":"2","payload":{"query":"{ ok }"}}`, `{"type":"subscribe","id":"2","payload":{"query":"subscription { nope }"}}`,
	`{"type":"subscribe","id":"","payload":{"query":"{ ok }"}}`, `{"type":"subscribe","id":null,"payload":{"query":"{ ok }"}}`, `{"type":"stop","id":"1"}`, `{"type":"stop"}`, `{"type":"stop","id":{}}`,
	`{"type":"complete","id":"2"}`, `{"type":"complete","id":[]}`, `{"type":"ping"}`, `{"type":"ping","payload":5}`, `{"type":"pong","payload":"x"}`, `{"type":"connection_terminate"}`,
	`{"type":"connection_ack"}`, `{"type":"ka"}`, `{"type":"data","id":"1","payload":{}}`, `{"type":"next","id":"2","payload":null}`, `{"type":"error","id":"1","payload":[]}`,
	`{"type":"connection_init"} trailing`, `{"type":"connection_init"}{"type":"start"}`, "\xff\xfe", `{"type":"\ud800"}`, ``, `{`, `{"type":"start","id":"1","payload":{"query":"{ ok }"}`,
	`{"TYPE":"connection_init"}`, `{"type":"connection_init","payload":{"Authorization":["a","b"]}}`,
	// init payloads whose values are not strings, read by the server's init function through
	// InitPayload.Authorization / GetString
	`{"type":"connection_init","payload":{"Authorization":12345}}`, `{"type":"connection_init","payload":{"Authorization":{"a":1},"k":true}}`,
	`{"type":"connection_init","payload":{"k":[1],"authorization":1.5}}`, `{"type":"connection_init","payload":{"Authorization":null,"k":"v"}}`}

func genFrame(t *rapid.T) WFrame {
	switch rapid.IntRange(0, 9).Draw(t, "fk") {
	case 0:
		return WFrame{Kind: "binary", Payload: []byte(rapid.SampledFrom(wsTexts).Draw(t, "bin"))}
	case 1:
		return WFrame{Kind: rapid.SampledFrom([]string{"ping", "pong"}).Draw(t, "ctl"), Payload: rapid.SliceOfN(rapid.Byte(), 0, 20).Draw(t, "ctlpayload")}
	case 2:
		return WFrame{Kind: "close", Payload: rapid.SliceOfN(rapid.Byte(), 0, 10).Draw(t, "closepayload")}
	case 3:
		return WFrame{Kind: "text", Payload: rapid.SliceOfN(rapid.Byte(), 0, 60).Draw(t, "bytes")}
	case 4:
		// one byte of a protocol message changed
		s := []byte(rapid.SampledFrom(wsTexts).Draw(t, "mut"))
		if len(s) > 0 {
			s[rapid.IntRange(0, len(s)-1).Draw(t, "pos")] = rapid.Byte().Draw(t, "b")
		}
		return WFrame{Kind: "text", Payload: s}
	case 5:
		n := rapid.IntRange(1, 2000).Draw(t, "depth")
		return WFrame{Kind: "text", Payload: []byte(strings.Repeat(rapid.SampledFrom([]string{"[", `{"payload":`, `{"type":`}).Draw(t, "open"), n))}
	default:
		return WFrame{Kind: "text", Payload: []byte(rapid.SampledFrom(wsTexts).Draw(t, "text"))}
	}
}

func checkWS(c WSCase) *vfrun.Failure {
	ss, err := kit.Servers("uploads")
	if err != nil {
		return vfrun.Failf("harness.no-project", "%v", err)
	}
	s := ss[0]
	kit.Journal(map[string]any{"ws": c})
	var recovers atomic.Int64
	h := hsrv.New(s, hsrv.Config{Transports: []string{"websocket", "post"}, Recovers: &recovers, WSInitReads: true})
	s.U.SetExec(univ.NewExec(plan.New(5)))
	srv := httptest.NewServer(h)
	defer srv.Close()
	url := "ws" + strings.TrimPrefix(srv.URL, "http")
	d := websocket.Dialer{Subprotocols: []string{c.Proto}, HandshakeTimeout: 5 * time.Second}
	conn, _, err := d.Dial(url, nil)
	if err != nil {
		return vfrun.Failf("harness.dial", "%v", err)
	}
	what := fmt.Sprintf("%s frames %s", c.Proto, describeFrames(c.Frames))
	done := make(chan *vfrun.Failure, 1)
	go func() {
		for {
			mt, b, err := conn.ReadMessage()
			if err != nil {
				done <- nil
				return
			}
			if mt != websocket.TextMessage {
				continue
			}
			v, perr := strictjson.Parse(b)
			if perr != nil || v.Kind != strictjson.Object || v.Get("type") == nil || v.Get("type").Kind != strictjson.String {
				done <- vfrun.Failf("malformed.ws-server-frame", "%s: the server wrote %q: %v", what, b, perr)
				return
			}
		}
	}()
	for _, f := range c.Frames {
		switch f.Kind {
		case "text":
			_ = conn.WriteMessage(websocket.TextMessage, f.Payload)
		case "binary":
			_ = conn.WriteMessage(websocket.BinaryMessage, f.Payload)
		case "ping":
			_ = conn.WriteControl(websocket.PingMessage, f.Payload, time.Now().Add(time.Second))
		case "pong":
			_ = conn.WriteControl(websocket.PongMessage, f.Payload, time.Now().Add(time.Second))
		case "close":
			_ = conn.WriteControl(websocket.CloseMessage, f.Payload, time.Now().Add(time.Second))
		}
	}
	// give the server time to digest, then end the session
	select {
	case f := <-done:
		if f != nil {
			conn.Close()
			return f
		}
	case <-time.After(30 * time.Millisecond):
		_ = conn.WriteControl(websocket.CloseMessage, websocket.FormatCloseMessage(websocket.CloseNormalClosure, ""), time.Now().Add(time.Second))
		select {
		case f := <-done:
			if f != nil {
				conn.Close()
				return f
			}
		case <-time.After(2 * time.Second):
		}
	}
	conn.Close()
	vfrun.Eval()
	if n := recovers.Load(); n != 0 {
		return vfrun.Failf("malformed.recover-hook-without-user-panic", "%s: gqlgen's own code panicked (recover hook ran %d times)", what, n)
	}
	// the server still runs a clean session
	conn2, _, err := d.Dial(url, nil)
	if err != nil {
		return vfrun.Failf("malformed.ws-server-dead", "%s: a fresh connection afterwards fails: %v", what, err)
	}
	defer conn2.Close()
	b, _ := json.Marshal(map[string]any{"type": "connection_init"})
	_ = conn2.WriteMessage(websocket.TextMessage, b)
	_ = conn2.SetReadDeadline(time.Now().Add(3 * time.Second))
	if _, ack, err := conn2.ReadMessage(); err != nil || !strings.Contains(string(ack), "connection_ack") {
		return vfrun.Failf("malformed.ws-server-dead", "%s: a fresh session afterwards is not acknowledged: %q %v", what, ack, err)
	}
	vfrun.Label("ws-frames:" + c.Proto)
	vfrun.NonTrivial(what)
	vfrun.SampleCat("ws-"+c.Proto, map[string]any{"proto": c.Proto, "frames": describeFrames(c.Frames)})
	return nil
}

func describeFrames(fs []WFrame) string {
	var parts []string
	for _, f := range fs {
		parts = append(parts, fmt.Sprintf("%s:%q", f.Kind, f.Payload))
	}
	return "[" + strings.Join(parts, " ") + "]"
}

func genWS(t *rapid.T) WSCase {
	c := WSCase{Proto: rapid.SampledFrom([]string{"graphql-ws", "graphql-transport-ws"}).Draw(t, "proto")}
	if rapid.IntRange(0, 2).Draw(t, "init-first") != 0 {
		c.Frames = append(c.Frames, WFrame{Kind: "text", Payload: []byte(`{"type":"connection_init"}`)})
	}
	n := rapid.IntRange(1, 4).Draw(t, "nframes")
	for i := 0; i < n; i++ {
		c.Frames = append(c.Frames, genFrame(t))
	}
	return c
}

func TestWebsocketFrames(t *testing.T) {
	vfrun.Run(t, vfrun.Prop[WSCase]{Property: "C10", Name: "TestWebsocketFrames", Gen: genWS, Check: checkWS}, vfrun.N(1500, 200000))
}
