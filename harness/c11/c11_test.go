package c11

import (
	"context"
	"encoding/json"
	"errors"
	"fmt"
	"net/http"
	"net/http/httptest"
	"strings"
	"sync"
	"sync/atomic"
	"testing"
	"time"

	"github.com/99designs/gqlgen/graphql"
	"github.com/99designs/gqlgen/graphql/handler"
	"github.com/99designs/gqlgen/graphql/handler/transport"
	"github.com/gorilla/websocket"
	"github.com/vektah/gqlparser/v2/gqlerror"
	"pgregory.net/rapid"

	"vh/kit"
	"vh/plan"
	"vh/proj"
	"vh/refexec"
	"vh/sched"
	"vh/strictjson"
	"vh/univ"
	"vh/vfrun"
)

// Step is one client (or server-side) action of a session.
type Step struct {
	Kind   string `json:"kind"` // init start stop ping pong terminate invalid abrupt servercancel wait
	ID     string `json:"id,omitempty"`
	Op     string `json:"op,omitempty"`     // start: query mutation subscription invalid badjson nullpayload
	Events int    `json:"events,omitempty"` // subscription: number of events
	GapUS  int    `json:"gap_us,omitempty"` // subscription: pause before each event
	Fault  string `json:"fault,omitempty"`  // "", error, panic (resolver)
	// Endless: the subscription's event source, after its events, stays open until its context is
	// cancelled - only a stop, the end of the connection or a server-side cancellation ends it
	Endless bool   `json:"endless,omitempty"`
	Payload string `json:"payload,omitempty"` // init payload / invalid frame text
	DelayUS int    `json:"delay_us,omitempty"`
}

type Case struct {
	Proto       string `json:"proto"`     // graphql-ws | graphql-transport-ws
	InitFunc    string `json:"init_func"` // none accept reject
	KeepAliveUS int    `json:"keepalive_us"`
	PingPongUS  int    `json:"pingpong_us"`
	// InitTimeoutUS: Websocket.InitTimeout. Short ones (< 10ms) come with a client that sends its
	// first frame only after 30ms, so the timeout has certainly elapsed
	InitTimeoutUS int    `json:"init_timeout_us"`
	Steps         []Step `json:"steps"`
}

type frame struct {
	Type    string
	ID      string
	Payload json.RawMessage
	Raw     string
}

// sessionNonce: every session of a process has aliases of its own (s<k>o<id>), so that a resolver
// call logged by the tail of an earlier session can be told from one of the current session (the
// universal resolver logs into whatever session is current).
var (
	sessionNonce string
	nonceSeq     atomic.Int64
)

func alias(id string) string { return sessionNonce + "o" + id }

func queryFor(st Step) string {
	a := alias(st.ID)
	switch st.Op {
	case "query":
		return fmt.Sprintf("query { %s: s }", a)
	case "mutation":
		return fmt.Sprintf("mutation { %s: m3 }", a)
	case "subscription":
		return fmt.Sprintf("subscription { %s: tick { id n } }", a)
	case "invalid":
		return "{ nope }"
	case "refused":
		// valid, but an operation-context extension of the server refuses it (as a complexity limit
		// or an authorisation extension would)
		return fmt.Sprintf("query { %s%s: s }", refusedMark, a)
	}
	return ""
}

type detachedKey struct{}

const refusedMark = "refusedByPolicy_"

// refuser is an extension that refuses marked operations while their context is created.
type refuser struct{}

func (refuser) ExtensionName() string                          { return "Refuser" }
func (refuser) Validate(schema graphql.ExecutableSchema) error { return nil }
func (refuser) MutateOperationContext(ctx context.Context, rc *graphql.OperationContext) *gqlerror.Error {
	if strings.Contains(rc.RawQuery, refusedMark) {
		return gqlerror.Errorf("operation refused by policy")
	}
	return nil
}

// session state shared with the server side
type session struct {
	exec      *univ.Exec
	closes    atomic.Int64
	closeCode atomic.Int64
	initOK    atomic.Int64 // logical clock value at which InitFunc accepted (0 = never)
	errs      sync.Mutex
	errors    []string
	cancelSrv context.CancelFunc
}

func check(c Case) *vfrun.Failure {
	sessionNonce = fmt.Sprintf("s%d", nonceSeq.Add(1))
	ss, err := kit.Servers("core")
	if err != nil {
		return vfrun.Failf("harness.no-project", "%v", err)
	}
	s := ss[0]
	// plan: per started operation, events / gaps / faults keyed by its alias
	p := plan.New(31)
	p.NullRate = 0
	for _, st := range c.Steps {
		if st.Kind != "start" {
			continue
		}
		a := alias(st.ID)
		switch st.Fault {
		case "error":
			p.Overrides[a] = plan.Outcome{Kind: plan.Error, Msg: "resolver failed"}
		case "panic":
			p.Overrides[a] = plan.Outcome{Kind: plan.Panic, Msg: "resolver panicked"}
		}
		if st.Op == "subscription" {
			n := st.Events
			o := p.Overrides[a+"@events"]
			o.Kind, o.Len = plan.Value, &n
			if st.Endless {
				o.Wait = "ctx"
			}
			p.Overrides[a+"@events"] = o
			for i := 0; i < n; i++ {
				p.Overrides[fmt.Sprintf("%s@%d", a, i)] = plan.Outcome{Kind: plan.Value, SleepUS: st.GapUS}
			}
		}
	}
	sess := &session{exec: univ.NewExec(p)}
	s.U.SetExec(sess.exec)
	before := sched.GqlgenIDs("vh/vfrun.", "pgregory.net/rapid.")

	h := handler.New(s.ES)
	ws := transport.Websocket{
		Upgrader:              websocket.Upgrader{CheckOrigin: func(r *http.Request) bool { return true }},
		KeepAlivePingInterval: time.Duration(c.KeepAliveUS) * time.Microsecond,
		PingPongInterval:      time.Duration(c.PingPongUS) * time.Microsecond,
		MissingPongOk:         true,
		InitTimeout:           time.Duration(c.InitTimeoutUS) * time.Microsecond,
		CloseFunc: func(ctx context.Context, code int) {
			sess.closes.Add(1)
			sess.closeCode.Store(int64(code))
		},
		ErrorFunc: func(ctx context.Context, err error) {
			sess.errs.Lock()
			sess.errors = append(sess.errors, err.Error())
			sess.errs.Unlock()
		},
	}
	switch c.InitFunc {
	case "accept":
		ws.InitFunc = func(ctx context.Context, ip transport.InitPayload) (context.Context, *transport.InitPayload, error) {
			sess.exec.Log("INIT-OK", "", nil)
			return ctx, nil, nil
		}
	case "detached":
		// the init function hands back a context of its own making (not derived from the one it was
		// given): the connection and its operations live in that context from then on
		ws.InitFunc = func(ctx context.Context, ip transport.InitPayload) (context.Context, *transport.InitPayload, error) {
			sess.exec.Log("INIT-OK", "", nil)
			return context.WithValue(context.Background(), detachedKey{}, true), nil, nil
		}
	case "reject":
		ws.InitFunc = func(ctx context.Context, ip transport.InitPayload) (context.Context, *transport.InitPayload, error) {
			return ctx, nil, errors.New("not welcome")
		}
	}
	h.AddTransport(ws)
	h.Use(refuser{})
	h.SetRecoverFunc(func(ctx context.Context, err any) error { return gqlerror.Errorf("%s", proj.RecoverMsg(err)) })
	srvCtx, cancelSrv := context.WithCancel(context.Background())
	defer cancelSrv()
	srv := httptest.NewServer(http.HandlerFunc(func(w http.ResponseWriter, r *http.Request) {
		ctx, cancel := context.WithCancel(r.Context())
		go func() {
			select {
			case <-srvCtx.Done():
				cancel()
			case <-ctx.Done():
			}
		}()
		h.ServeHTTP(w, r.WithContext(ctx))
		cancel()
	}))
	defer srv.Close()

	d := websocket.Dialer{Subprotocols: []string{c.Proto}, HandshakeTimeout: 5 * time.Second}
	conn, _, err := d.Dial("ws"+strings.TrimPrefix(srv.URL, "http"), nil)
	if err != nil {
		return vfrun.Failf("harness.dial", "%v", err)
	}
	var fmu sync.Mutex
	var frames []frame
	closedBy := make(chan error, 1)
	go func() {
		for {
			_, b, err := conn.ReadMessage()
			if err != nil {
				closedBy <- err
				return
			}
			var f struct {
				Type    string          `json:"type"`
				ID      string          `json:"id"`
				Payload json.RawMessage `json:"payload"`
			}
			if jerr := json.Unmarshal(b, &f); jerr != nil {
				f.Type = "<not json>"
			}
			if verr := strictjson.Valid(b); verr != nil {
				f.Type = "<not strict json>"
			}
			fmu.Lock()
			frames = append(frames, frame{f.Type, f.ID, f.Payload, string(b)})
			fmu.Unlock()
		}
	}()
	send := func(v any) {
		b, _ := json.Marshal(v)
		_ = conn.WriteMessage(websocket.TextMessage, b)
	}
	startType, stopType, termType := "start", "stop", "connection_terminate"
	if c.Proto == "graphql-transport-ws" {
		startType, stopType, termType = "subscribe", "complete", ""
	}
	// model
	initSent, initAcceptable := false, false
	acceptableButForTimeout := false // the init message would be accepted if it arrived within the init timeout
	started := map[string]Step{}
	var startOrder []string
	stopped := map[string]bool{}
	clientEnded := false // client closed / terminated the session itself
	for _, st := range c.Steps {
		if st.DelayUS > 0 {
			time.Sleep(time.Duration(st.DelayUS) * time.Microsecond)
		}
		switch st.Kind {
		case "init":
			msg := map[string]any{"type": "connection_init"}
			if st.Payload != "" {
				msg["payload"] = json.RawMessage(st.Payload)
			}
			send(msg)
			if !initSent {
				pl := strings.TrimSpace(st.Payload)
				initAcceptable = c.InitFunc != "reject" && (pl == "" || pl == "null" || strings.HasPrefix(pl, "{"))
				acceptableButForTimeout = initAcceptable
				if c.InitTimeoutUS > 0 && c.InitTimeoutUS < 10000 {
					initAcceptable = false // the server gave up waiting long before
				}
			}
			initSent = true
		case "start":
			msg := map[string]any{"type": startType, "id": st.ID}
			switch st.Op {
			case "badjson":
				msg["payload"] = json.RawMessage(`"not an object"`)
			case "nullpayload":
				msg["payload"] = nil
			default:
				msg["payload"] = map[string]any{"query": queryFor(st)}
			}
			send(msg)
			if _, dup := started[st.ID]; !dup {
				started[st.ID] = st
				startOrder = append(startOrder, st.ID)
			}
		case "stop":
			send(map[string]any{"type": stopType, "id": st.ID})
			stopped[st.ID] = true
		case "ping":
			send(map[string]any{"type": "ping"})
		case "pong":
			send(map[string]any{"type": "pong"})
		case "terminate":
			if termType != "" {
				send(map[string]any{"type": termType})
			} else {
				_ = conn.WriteControl(websocket.CloseMessage, websocket.FormatCloseMessage(websocket.CloseNormalClosure, "bye"), time.Now().Add(time.Second))
			}
			clientEnded = true
		case "invalid":
			_ = conn.WriteMessage(websocket.TextMessage, []byte(st.Payload))
		case "abrupt":
			_ = conn.UnderlyingConn().Close()
			clientEnded = true
		case "servercancel":
			cancelSrv()
		case "raceclose":
			// both sides end the session at (nearly) the same instant: the server context is
			// cancelled while a client frame that makes the read loop close the connection arrives
			clientAct := func() {
				switch st.Op {
				case "terminate":
					if termType != "" {
						send(map[string]any{"type": termType})
					} else {
						_ = conn.WriteControl(websocket.CloseMessage, websocket.FormatCloseMessage(websocket.CloseNormalClosure, "bye"), time.Now().Add(time.Second))
					}
				case "invalid":
					_ = conn.WriteMessage(websocket.TextMessage, []byte(`{"type":"bogus"}`))
				default:
					send(map[string]any{"type": "connection_init"})
					if !initSent {
						// this is the handshake itself
						initSent = true
						initAcceptable = c.InitFunc != "reject" && !(c.InitTimeoutUS > 0 && c.InitTimeoutUS < 10000)
					}
				}
			}
			pause := func() {
				if st.GapUS > 0 {
					time.Sleep(time.Duration(st.GapUS) * time.Microsecond)
				}
			}
			if st.Events == 0 {
				cancelSrv()
				pause()
				clientAct()
			} else {
				clientAct()
				pause()
				cancelSrv()
			}
			clientEnded = true
		case "wait":
			time.Sleep(time.Duration(st.GapUS) * time.Microsecond)
		}
		if clientEnded {
			break
		}
	}
	// let the operations finish, then end the session from the client side if it is still open
	deadline := time.Now().Add(3 * time.Second)
	terminal := func(id string) bool {
		fmu.Lock()
		defer fmu.Unlock()
		for _, f := range frames {
			if f.ID == id && (f.Type == "complete" || f.Type == "error") {
				return true
			}
		}
		return false
	}
	connClosed := false
	// an endless subscription ends only when it is stopped
	endsByItself := func(id string) bool { return !started[id].Endless || stopped[id] }
	allDone := func() bool {
		for _, id := range startOrder {
			if endsByItself(id) && !terminal(id) {
				return false
			}
		}
		return true
	}
waitLoop:
	for time.Now().Before(deadline) {
		select {
		case <-closedBy:
			connClosed = true
			break waitLoop
		default:
		}
		if clientEnded || allDone() {
			break
		}
		time.Sleep(500 * time.Microsecond)
	}
	unterminated := []string{}
	if !connClosed && !clientEnded {
		for _, id := range startOrder {
			if endsByItself(id) && !terminal(id) {
				unterminated = append(unterminated, id)
			}
		}
	}
	if !connClosed {
		if !clientEnded {
			_ = conn.WriteControl(websocket.CloseMessage, websocket.FormatCloseMessage(websocket.CloseNormalClosure, "done"), time.Now().Add(time.Second))
		}
		select {
		case <-closedBy:
		case <-time.After(3 * time.Second):
			_ = conn.UnderlyingConn().Close()
			select {
			case <-closedBy:
			case <-time.After(time.Second):
			}
			if initSent && !initAcceptable {
				// the server neither answered nor closed after an init it cannot accept
				return vfrun.Failf("ws.init-not-accepted-but-connection-left-open", "%s: after connection_init %v the server sent no close frame within 3s; frames %v", describe(c), c.Steps[0], rawFrames(frames))
			}
		}
	}
	conn.Close()
	srv.CloseClientConnections()
	vfrun.Eval()
	// ---- invariants over the frame sequence
	fmu.Lock()
	fr := append([]frame(nil), frames...)
	fmu.Unlock()
	desc := describe(c)
	acked := false
	perID := map[string][]frame{}
	for i, f := range fr {
		switch f.Type {
		case "<not json>", "<not strict json>":
			return vfrun.Failf("ws.frame-not-json", "%s: frame %d %q", desc, i, f.Raw)
		case "connection_ack":
			acked = true
		case "ka", "connection_error", "pong", "ping":
		case "data", "next", "error", "complete":
			if !acked {
				return vfrun.Failf("ws.operation-frame-before-ack", "%s: frame %q before connection_ack", desc, f.Raw)
			}
			if f.ID == "" {
				return vfrun.Failf("ws.frame-without-id", "%s: %q", desc, f.Raw)
			}
			perID[f.ID] = append(perID[f.ID], f)
		default:
			return vfrun.Failf("ws.unknown-frame-type", "%s: %q", desc, f.Raw)
		}
	}
	if acked && initSent && !initAcceptable && acceptableButForTimeout && c.InitTimeoutUS > 0 && c.InitTimeoutUS < 10000 {
		// the init message was expected to come after the server's short init timeout, but the
		// server answered it: its timer had not fired (a loaded machine starts it late). The ack is
		// the server's word that the handshake was accepted.
		initAcceptable = true
		vfrun.Label("short-init-timeout-had-not-fired")
	}
	if acked && !(initSent && initAcceptable) {
		return vfrun.Failf("ws.ack-without-accepted-init", "%s: connection_ack although init was not acceptable; frames %v", desc, rawFrames(fr))
	}
	// nothing executes before the init function accepted
	events := sess.exec.Events()
	initSeq := int64(-1)
	for _, ev := range events {
		if ev.Kind == "INIT-OK" && initSeq < 0 {
			initSeq = ev.Seq
		}
	}
	for _, ev := range events {
		if ev.Kind == "R" && !strings.HasPrefix(strings.TrimPrefix(ev.Key, refusedMark), sessionNonce+"o") {
			vfrun.Label("ignored:resolver-event-of-an-earlier-session")
			continue
		}
		if ev.Kind == "R" && strings.Contains(ev.Key, refusedMark) {
			return vfrun.Failf("ws.refused-operation-executed", "%s: resolver %s ran although an extension refused the operation", desc, ev.Key)
		}
		if ev.Kind == "R" {
			if !initSent || !initAcceptable || ((c.InitFunc == "accept" || c.InitFunc == "detached") && (initSeq < 0 || ev.Seq < initSeq)) {
				return vfrun.Failf("ws.executed-before-init-accepted", "%s: resolver %s ran although the handshake was not accepted (initSeq %d, event seq %d)", desc, ev.Key, initSeq, ev.Seq)
			}
		}
	}
	// per id: next* then error and/or complete, at most one complete, nothing after it, no next after error
	for id, fs := range perID {
		st, ok := started[id]
		if !ok {
			return vfrun.Failf("ws.frame-for-unknown-id", "%s: frames for id %q which was never started: %v", desc, id, rawFrames(fs))
		}
		completes, sawErr, nexts := 0, false, 0
		for _, f := range fs {
			if completes > 0 {
				return vfrun.Failf("ws.frame-after-complete", "%s: id %s: %q after complete; frames %v", desc, id, f.Raw, rawFrames(fs))
			}
			switch f.Type {
			case "complete":
				completes++
			case "error":
				sawErr = true
			default:
				if sawErr {
					return vfrun.Failf("ws.result-after-error", "%s: id %s: %q after error; frames %v", desc, id, f.Raw, rawFrames(fs))
				}
				nexts++
				// results in emit order: the n-th result of a subscription is event n
				if st.Op == "subscription" && st.Fault == "" {
					if f2 := checkEvent(s, st, nexts-1, f, p); f2 != nil {
						f2.Msg = desc + ": " + f2.Msg
						return f2
					}
				}
			}
		}
		limit := st.Events
		if st.Fault != "" {
			limit = 1 // the failing resolver's error response is one result
		}
		if st.Op == "subscription" && nexts > limit {
			return vfrun.Failf("ws.more-results-than-events", "%s: id %s: %d results for %d events", desc, id, nexts, st.Events)
		}
		if (st.Op == "query" || st.Op == "mutation") && nexts > 1 {
			return vfrun.Failf("ws.more-results-than-events", "%s: id %s: %d results for a %s", desc, id, nexts, st.Op)
		}
	}
	// ---- after the connection ended
	st, running := sched.SurvivorsIgnoring(4*time.Second, before, "vh/vfrun.", "pgregory.net/rapid.", "net/http.(*Server).Serve", "net/http/httptest.")
	if running {
		return vfrun.Failf("harness.inconclusive", "%s: goroutines still running after the connection ended", desc)
	}
	if len(st) > 0 {
		key := "ws.goroutine-left-after-close"
		if initSent && !initAcceptable && !(c.InitTimeoutUS > 0 && c.InitTimeoutUS < 10000) {
			key = "ws.init-payload-not-object"
		}
		return vfrun.Failf(key, "%s: connection ended but %d goroutine(s) remain parked: %s\n%s", desc, len(st), sched.Signature(st[0]), st[0].Text)
	}
	// streams of the universal resolver observe cancellation: none may still be waiting to emit
	for _, g := range sched.Dump() {
		if strings.Contains(g.Text, "univ.(*Universe).buildStream") && !before[g.ID] {
			time.Sleep(300 * time.Millisecond)
			for _, g2 := range sched.Dump() {
				if g2.ID == g.ID {
					return vfrun.Failf("ws.operation-context-not-cancelled", "%s: a subscription's event source is still running after the connection ended: its context was never cancelled\n%s", desc, g2.Text)
				}
			}
		}
	}
	if n := sess.closes.Load(); n != 1 {
		key := "ws.close-callback-count"
		if n == 0 && initSent && !initAcceptable && c.InitFunc != "reject" {
			key = "ws.init-payload-not-object"
		}
		return vfrun.Failf(key, "%s: CloseFunc ran %d times, want 1", desc, n)
	}
	if len(unterminated) > 0 {
		return vfrun.Failf("ws.operation-not-terminated", "%s: operations %v received neither error nor complete although the connection stayed open for 3s; frames %v", desc, unterminated, rawFrames(fr))
	}
	// classification
	overlap := 0
	for _, id := range startOrder {
		if started[id].Op == "subscription" && started[id].Events >= 2 {
			overlap++
		}
	}
	vfrun.Label(c.Proto)
	if n := len(c.Steps); n > 0 && c.Steps[n-1].Kind == "raceclose" {
		vfrun.Label("both-sides-close-at-once")
	}
	if acked {
		vfrun.Label("acked")
	}
	if len(perID) >= 2 {
		vfrun.Label("several-operations")
	}
	for id := range stopped {
		if started[id].Endless {
			vfrun.Label("stopped-endless-subscription")
		}
	}
	if overlap >= 2 || (len(stopped) > 0 && overlap >= 1) {
		vfrun.NonTrivial(desc)
		vfrun.Label("overlapping-or-stop-racing-emit")
	}
	vfrun.SampleCat(c.Proto, map[string]any{"case": c, "frames": len(fr)})
	return nil
}

func checkEvent(s *proj.Server, st Step, n int, f frame, p *plan.Plan) *vfrun.Failure {
	kc := kit.Case{Query: queryFor(st)}
	pr, ff := kit.Prepare(s, kc)
	if ff != nil {
		return ff
	}
	ref := refexec.ExecuteEvent(refexec.Config{Schema: s.Schema, Doc: pr.Doc, Op: pr.Op, Vars: pr.Vars, Plan: p, IsResolver: s.U.IsResolver}, fmt.Sprintf("%s@%d", alias(st.ID), n))
	v, err := strictjson.Parse(f.Payload)
	if err != nil || v.Get("data") == nil {
		return vfrun.Failf("ws.result-payload", "id %s result %d: payload %q", st.ID, n, f.Payload)
	}
	if !refexec.SameData(v.Get("data"), ref.Data) {
		return vfrun.Failf("ws.results-out-of-order", "id %s: result #%d is %s, event #%d is %s", st.ID, n, v.Get("data").Canon(), n, ref.Data.Canon())
	}
	return nil
}

func rawFrames(fs []frame) []string {
	var out []string
	for _, f := range fs {
		r := f.Raw
		if len(r) > 160 {
			r = r[:160] + "…"
		}
		out = append(out, r)
	}
	return out
}

func describe(c Case) string {
	b, _ := json.Marshal(c)
	return string(b)
}

func gen(t *rapid.T) Case {
	c := Case{
		Proto:       rapid.SampledFrom([]string{"graphql-ws", "graphql-transport-ws"}).Draw(t, "proto"),
		InitFunc:    rapid.SampledFrom([]string{"none", "accept", "accept", "reject", "detached"}).Draw(t, "initfunc"),
		KeepAliveUS: rapid.SampledFrom([]int{0, 1000, 200}).Draw(t, "ka"),
		PingPongUS:  rapid.SampledFrom([]int{0, 1000, 300}).Draw(t, "pp"),
	}
	switch rapid.IntRange(0, 4).Draw(t, "inittimeout") {
	case 0:
		c.InitTimeoutUS = 2000
		c.Steps = append(c.Steps, Step{Kind: "wait", GapUS: 30000})
	case 1:
		c.InitTimeoutUS = 2000000
	}
	// handshake
	switch rapid.IntRange(0, 9).Draw(t, "hs") {
	case 0: // no init at all: operations first
	case 1:
		c.Steps = append(c.Steps, Step{Kind: "init", Payload: rapid.SampledFrom([]string{`[1]`, `"str"`, `5`, `true`}).Draw(t, "badinit")})
	default:
		c.Steps = append(c.Steps, Step{Kind: "init", Payload: rapid.SampledFrom([]string{"", `{}`, `{"k":"v"}`, `null`}).Draw(t, "init")})
	}
	n := rapid.IntRange(1, 14).Draw(t, "nsteps")
	nextID := 1
	var ids []string
	for i := 0; i < n; i++ {
		st := Step{DelayUS: rapid.SampledFrom([]int{0, 0, 100, 1000}).Draw(t, "delay")}
		switch rapid.IntRange(0, 19).Draw(t, "kind") {
		case 0, 1, 2, 3, 4, 5, 6, 7:
			st.Kind, st.ID = "start", fmt.Sprint(nextID)
			nextID++
			ids = append(ids, st.ID)
			st.Op = rapid.SampledFrom([]string{"subscription", "subscription", "subscription", "query", "mutation", "invalid", "badjson", "nullpayload", "refused"}).Draw(t, "op")
			st.Events = rapid.IntRange(0, 5).Draw(t, "events")
			st.GapUS = rapid.SampledFrom([]int{0, 50, 500, 2000}).Draw(t, "gap")
			st.Fault = rapid.SampledFrom([]string{"", "", "", "error", "panic"}).Draw(t, "fault")
			if st.Op == "subscription" && st.Fault == "" {
				st.Endless = rapid.IntRange(0, 2).Draw(t, "endless") == 0
			}
			if rapid.IntRange(0, 3).Draw(t, "stop-at-once") == 0 {
				// the stop follows its start with no pause and no server frame in between
				c.Steps = append(c.Steps, st)
				st = Step{Kind: "stop", ID: st.ID}
			}
		case 8, 9, 10:
			if len(ids) == 0 {
				st.Kind, st.GapUS = "wait", 200
			} else {
				st.Kind, st.ID = "stop", ids[rapid.IntRange(0, len(ids)-1).Draw(t, "which")]
			}
		case 11:
			st.Kind = "ping"
		case 12:
			st.Kind = "pong"
		case 13:
			st.Kind = "terminate"
		case 14:
			st.Kind, st.Payload = "invalid", rapid.SampledFrom([]string{"not json", `{"type":"bogus"}`, `{"type":5}`, `[]`, `{"type":"connection_ack"}`, `{"id":"1"}`, ``}).Draw(t, "invalid")
		case 15:
			st.Kind = "abrupt"
		case 16:
			if rapid.Bool().Draw(t, "raceclose?") {
				st.Kind = "raceclose"
				st.Op = rapid.SampledFrom([]string{"terminate", "invalid", "init"}).Draw(t, "raceact")
				st.Events = rapid.IntRange(0, 1).Draw(t, "racefirst")
				st.GapUS = rapid.SampledFrom([]int{0, 0, 10, 30, 60, 100, 200}).Draw(t, "racegap")
			} else {
				st.Kind = "servercancel"
			}
			if c.InitFunc == "detached" {
				// cancelling the server's context does not reach a connection that lives in a
				// context of the init function's own making: the client ends these sessions
				st = Step{Kind: "abrupt"}
			}
		case 17:
			st.Kind, st.Payload = "init", `{}`
		default:
			st.Kind, st.GapUS = "wait", rapid.SampledFrom([]int{100, 1000, 3000}).Draw(t, "wait")
		}
		c.Steps = append(c.Steps, st)
		if st.Kind == "terminate" || st.Kind == "abrupt" || st.Kind == "raceclose" {
			break
		}
	}
	return c
}

// genCloseRace: short sessions that both sides end at once (the window in which the close callback
// could fire twice or an operation could be missed is tens of microseconds wide, so it gets many tries).
func genCloseRace(t *rapid.T) Case {
	c := Case{
		Proto:       rapid.SampledFrom([]string{"graphql-ws", "graphql-transport-ws"}).Draw(t, "proto"),
		InitFunc:    rapid.SampledFrom([]string{"none", "accept"}).Draw(t, "initfunc"),
		KeepAliveUS: rapid.SampledFrom([]int{0, 1000}).Draw(t, "ka"),
	}
	c.Steps = append(c.Steps, Step{Kind: "init", Payload: `{}`})
	if rapid.Bool().Draw(t, "op") {
		c.Steps = append(c.Steps, Step{Kind: "start", ID: "1", Op: "subscription", Events: rapid.IntRange(0, 2).Draw(t, "events"), GapUS: 50, Endless: rapid.Bool().Draw(t, "endless")})
	}
	c.Steps = append(c.Steps, Step{Kind: "raceclose", DelayUS: rapid.SampledFrom([]int{0, 100, 500}).Draw(t, "delay"),
		Op:     rapid.SampledFrom([]string{"terminate", "invalid", "init"}).Draw(t, "raceact"),
		Events: rapid.IntRange(0, 1).Draw(t, "racefirst"),
		GapUS:  rapid.SampledFrom([]int{0, 0, 5, 10, 20, 30, 45, 60, 80, 100, 150, 200}).Draw(t, "racegap")})
	return c
}

func TestCloseRace(t *testing.T) {
	vfrun.Run(t, vfrun.Prop[Case]{Property: "C11", Name: "TestCloseRace", Gen: genCloseRace, Check: check}, vfrun.N(1200, 60000))
}

func TestSessions(t *testing.T) {
	vfrun.Run(t, vfrun.Prop[Case]{Property: "C11", Name: "TestSessions", Gen: gen, Check: check}, vfrun.N(1000, 50000))
}
