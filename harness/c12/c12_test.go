package c12

import (
	"bufio"
	"bytes"
	"context"
	"encoding/json"
	"fmt"
	"io"
	"mime"
	"mime/multipart"
	"net"
	"net/http"
	"net/http/httptest"
	"runtime"
	"strings"
	"sync"
	"sync/atomic"
	"testing"
	"time"

	"github.com/99designs/gqlgen/graphql"
	"github.com/99designs/gqlgen/graphql/handler"
	"github.com/99designs/gqlgen/graphql/handler/transport"
	"github.com/vektah/gqlparser/v2"
	"github.com/vektah/gqlparser/v2/ast"
	"github.com/vektah/gqlparser/v2/gqlerror"
	"pgregory.net/rapid"

	"vh/deferchk"
	"vh/sched"
	"vh/strictjson"
	"vh/vfrun"
)

// ---------------------------------------------------------------------------------------------
// a scripted executable schema: the response function replays payloads with gaps

type Payload struct {
	Data  string   `json:"data"`            // JSON text
	Path  []string `json:"path,omitempty"`  // incremental payloads
	Label string   `json:"label,omitempty"` //
	GapUS int      `json:"gap_us"`          // pause before the payload is produced (-1: runtime.Gosched)
	Errs  int      `json:"errs,omitempty"`  // number of errors attached
}

type scriptES struct {
	schema *ast.Schema
	script atomic.Pointer[[]Payload]
}

var schema = gqlparser.MustLoadSchema(&ast.Source{Input: `type Query { x: String }`})

func (s *scriptES) Schema() *ast.Schema { return s.schema }
func (s *scriptES) Complexity(ctx context.Context, typeName, fieldName string, childComplexity int, args map[string]any) (int, bool) {
	return 0, false
}
func (s *scriptES) Exec(ctx context.Context) graphql.ResponseHandler {
	script := *s.script.Load()
	i := 0
	return func(ctx context.Context) *graphql.Response {
		if i >= len(script) {
			return nil
		}
		p := script[i]
		switch {
		case p.GapUS < 0:
			runtime.Gosched()
		case p.GapUS > 0:
			select {
			case <-time.After(time.Duration(p.GapUS) * time.Microsecond):
			case <-ctx.Done():
				return nil
			}
		}
		i++
		resp := &graphql.Response{Data: json.RawMessage(p.Data), Label: p.Label}
		for _, seg := range p.Path {
			resp.Path = append(resp.Path, ast.PathName(seg))
		}
		for k := 0; k < p.Errs; k++ {
			resp.Errors = append(resp.Errors, gqlerror.Errorf("e%d\nline", k))
		}
		if len(script) > 1 {
			hn := i < len(script)
			resp.HasNext = &hn
		}
		return resp
	}
}

type Case struct {
	Transport   string    `json:"transport"` // sse | mixed
	Payloads    []Payload `json:"payloads"`
	KeepAliveUS int       `json:"keepalive_us"` // SSE ping interval (0 = off)
	DeliveryUS  int       `json:"delivery_us"`  // multipart/mixed aggregator tick
	Boundary    string    `json:"boundary"`
	CutAt       int       `json:"cut_at"` // client disconnects after reading this many bytes (-1: reads all)
}

var (
	once sync.Once
	es   *scriptES
)

func serverFor(c Case) *httptest.Server {
	once.Do(func() { es = &scriptES{schema: schema} })
	h := handler.New(es)
	h.AddTransport(transport.SSE{KeepAlivePingInterval: time.Duration(c.KeepAliveUS) * time.Microsecond})
	h.AddTransport(transport.MultipartMixed{Boundary: c.Boundary, DeliveryTimeout: time.Duration(c.DeliveryUS) * time.Microsecond})
	h.AddTransport(transport.POST{})
	ps := c.Payloads
	es.script.Store(&ps)
	return httptest.NewServer(h)
}

// request sends the query over a raw connection and returns the de-chunked body.
func request(srv *httptest.Server, c Case) (header http.Header, body []byte, err error) {
	conn, err := net.Dial("tcp", srv.Listener.Addr().String())
	if err != nil {
		return nil, nil, err
	}
	defer conn.Close()
	accept := "text/event-stream"
	if c.Transport == "mixed" {
		accept = "multipart/mixed"
	}
	payload := `{"query":"{ x }"}`
	fmt.Fprintf(conn, "POST /graphql HTTP/1.1\r\nHost: x\r\nContent-Type: application/json\r\nAccept: %s\r\nContent-Length: %d\r\nConnection: close\r\n\r\n%s", accept, len(payload), payload)
	_ = conn.SetReadDeadline(time.Now().Add(20 * time.Second))
	br := bufio.NewReader(conn)
	resp, err := http.ReadResponse(br, nil)
	if err != nil {
		return nil, nil, err
	}
	defer resp.Body.Close()
	if c.CutAt >= 0 {
		buf := make([]byte, c.CutAt)
		n, _ := io.ReadFull(resp.Body, buf)
		return resp.Header, buf[:n], io.ErrUnexpectedEOF // disconnected on purpose
	}
	b, err := io.ReadAll(resp.Body)
	return resp.Header, b, err
}

// ---------------------------------------------------------------------------------------------
// independent event-stream parser (WHATWG HTML, 9.2 server-sent events)

type sseEvent struct {
	Type string
	Data string
	// CommentsInside: comment lines that appeared after the first field of the event and before
	// its terminating blank line
	CommentsInside int
}

func parseSSE(body []byte) (events []sseEvent, comments int, trailing string, err error) {
	if !bytes.HasSuffix(body, []byte("\n")) && len(body) > 0 {
		// keep the unterminated tail
	}
	s := strings.ReplaceAll(string(body), "\r\n", "\n")
	s = strings.ReplaceAll(s, "\r", "\n")
	lines := strings.Split(s, "\n")
	tail := lines[len(lines)-1]
	lines = lines[:len(lines)-1]
	var cur *sseEvent
	var data []string
	for _, ln := range lines {
		switch {
		case ln == "":
			if cur != nil {
				cur.Data = strings.Join(data, "\n")
				if cur.Type == "" {
					cur.Type = "message"
				}
				events = append(events, *cur)
			}
			cur, data = nil, nil
		case strings.HasPrefix(ln, ":"):
			comments++
			if cur != nil {
				cur.CommentsInside++
			}
		default:
			name, val, _ := strings.Cut(ln, ":")
			val = strings.TrimPrefix(val, " ")
			if cur == nil {
				cur = &sseEvent{}
			}
			switch name {
			case "event":
				cur.Type = val
			case "data":
				data = append(data, val)
			case "id", "retry":
			default:
				return nil, 0, "", fmt.Errorf("unknown field line %q", ln)
			}
		}
	}
	if cur != nil {
		return events, comments, tail, fmt.Errorf("event %+v not terminated by a blank line", *cur)
	}
	return events, comments, tail, nil
}

func samePayload(got *strictjson.Value, p Payload, hasNextWant *bool) error {
	if got == nil || got.Kind != strictjson.Object {
		return fmt.Errorf("payload is not an object")
	}
	want, err := strictjson.Parse([]byte(p.Data))
	if err != nil {
		return fmt.Errorf("harness: bad script data %q", p.Data)
	}
	d := got.Get("data")
	if d == nil || d.Canon() != want.Canon() {
		return fmt.Errorf("data %v, want %s", canon(d), want.Canon())
	}
	if p.Label != "" && (got.Get("label") == nil || got.Get("label").Str != p.Label) {
		return fmt.Errorf("label %v, want %q", canon(got.Get("label")), p.Label)
	}
	if len(p.Path) > 0 {
		pv := got.Get("path")
		if pv == nil || len(pv.Arr) != len(p.Path) {
			return fmt.Errorf("path %v, want %v", canon(pv), p.Path)
		}
		for i := range p.Path {
			if pv.Arr[i].Str != p.Path[i] {
				return fmt.Errorf("path %v, want %v", canon(pv), p.Path)
			}
		}
	}
	ne := 0
	if ev := got.Get("errors"); ev != nil {
		ne = len(ev.Arr)
	}
	if ne != p.Errs {
		return fmt.Errorf("%d errors, want %d", ne, p.Errs)
	}
	if hasNextWant != nil {
		hv := got.Get("hasNext")
		if hv == nil || hv.B != *hasNextWant {
			return fmt.Errorf("hasNext %v, want %v", canon(hv), *hasNextWant)
		}
	}
	return nil
}

func canon(v *strictjson.Value) string {
	if v == nil {
		return "<absent>"
	}
	return v.Canon()
}

func checkSSE(c Case, body []byte) *vfrun.Failure {
	events, comments, tail, err := parseSSE(body)
	if err != nil {
		return vfrun.Failf("sse.framing", "%v\nbody %q", err, body)
	}
	if tail != "" {
		return vfrun.Failf("sse.framing", "unterminated last line %q\nbody %q", tail, body)
	}
	if len(events) != len(c.Payloads)+1 {
		return vfrun.Failf("sse.event-count", "%d events for %d payloads (+complete)\nbody %q", len(events), len(c.Payloads), body)
	}
	for i, p := range c.Payloads {
		ev := events[i]
		if ev.Type != "next" {
			return vfrun.Failf("sse.event-type", "event %d has type %q, want next\nbody %q", i, ev.Type, body)
		}
		if ev.CommentsInside > 0 {
			return vfrun.Failf("sse.ping-spliced-into-event", "event %d has a comment line inside\nbody %q", i, body)
		}
		v, err := strictjson.Parse([]byte(ev.Data))
		if err != nil {
			return vfrun.Failf("sse.data-not-json", "event %d data %q: %v", i, ev.Data, err)
		}
		var hn *bool
		if len(c.Payloads) > 1 {
			b := i < len(c.Payloads)-1
			hn = &b
		}
		if err := samePayload(v, p, hn); err != nil {
			return vfrun.Failf("sse.payload", "event %d: %v\nbody %q", i, err, body)
		}
	}
	last := events[len(events)-1]
	if last.Type != "complete" || last.Data != "" || last.CommentsInside > 0 {
		return vfrun.Failf("sse.no-complete", "last event %+v, want complete\nbody %q", last, body)
	}
	if comments > 1 {
		vfrun.Label("sse:keepalive-pings-seen")
	}
	return nil
}

func checkMixed(c Case, header http.Header, body []byte) *vfrun.Failure {
	mt, params, err := mime.ParseMediaType(header.Get("Content-Type"))
	if err != nil || mt != "multipart/mixed" {
		return vfrun.Failf("mixed.content-type", "Content-Type %q: %v", header.Get("Content-Type"), err)
	}
	boundary := params["boundary"]
	wantB := c.Boundary
	if wantB == "" {
		wantB = "-"
	}
	if boundary != wantB {
		return vfrun.Failf("mixed.content-type", "boundary %q, want %q", boundary, wantB)
	}
	mr := multipart.NewReader(bytes.NewReader(body), boundary)
	var got []*strictjson.Value
	var hasNexts []bool
	npart := 0
	for {
		part, err := mr.NextPart()
		if err == io.EOF {
			break
		}
		if err != nil {
			return vfrun.Failf("mixed.framing", "part %d: %v\nbody %q", npart, err, body)
		}
		pb, err := io.ReadAll(part)
		if err != nil {
			return vfrun.Failf("mixed.framing", "part %d: %v\nbody %q", npart, err, body)
		}
		if ct := part.Header.Get("Content-Type"); !strings.HasPrefix(ct, "application/json") {
			return vfrun.Failf("mixed.part-content-type", "part %d has Content-Type %q\nbody %q", npart, ct, body)
		}
		v, err := strictjson.Parse(pb)
		if err != nil || v.Kind != strictjson.Object {
			return vfrun.Failf("mixed.part-not-json", "part %d %q: %v", npart, pb, err)
		}
		if npart == 0 {
			if v.Get("incremental") != nil {
				return vfrun.Failf("mixed.initial-missing", "first part is incremental\nbody %q", body)
			}
			got = append(got, v)
			hasNexts = append(hasNexts, v.Get("hasNext") != nil && v.Get("hasNext").B)
		} else {
			inc := v.Get("incremental")
			if inc == nil || inc.Kind != strictjson.Array || len(inc.Arr) == 0 {
				return vfrun.Failf("mixed.part-shape", "part %d is not an incremental payload: %q", npart, pb)
			}
			got = append(got, inc.Arr...)
			hn := v.Get("hasNext")
			if hn == nil || hn.Kind != strictjson.Bool {
				return vfrun.Failf("mixed.part-shape", "part %d has no hasNext: %q", npart, pb)
			}
			hasNexts = append(hasNexts, hn.B)
		}
		npart++
	}
	if len(got) != len(c.Payloads) {
		return vfrun.Failf("mixed.payload-count", "%d payloads delivered, %d produced\nbody %q", len(got), len(c.Payloads), body)
	}
	for i, p := range c.Payloads {
		if err := samePayload(got[i], p, nil); err != nil {
			return vfrun.Failf("mixed.payload", "payload %d: %v\nbody %q", i, err, body)
		}
	}
	for i, hn := range hasNexts {
		if hn != (i < len(hasNexts)-1) {
			return vfrun.Failf("mixed.hasnext", "part %d has hasNext=%v (of %d parts)\nbody %q", i, hn, len(hasNexts), body)
		}
	}
	closing := "--" + boundary + "--"
	// the closing delimiter: exactly once, and last
	n := 0
	for _, ln := range strings.Split(string(body), "\r\n") {
		if ln == closing {
			n++
		}
	}
	if n != 1 || !strings.HasSuffix(strings.TrimRight(string(body), "\r\n"), closing) {
		return vfrun.Failf("mixed.closing-boundary", "closing boundary appears %d times or is not last\nbody %q", n, body)
	}
	if npart > 1 && npart < len(c.Payloads) {
		vfrun.Label("mixed:aggregated")
	}
	if npart > 2 {
		vfrun.Label("mixed:several-incremental-parts")
	}
	return nil
}

func check(c Case) *vfrun.Failure {
	srv := serverFor(c)
	before := sched.GqlgenIDs("vh/vfrun.", "pgregory.net/rapid.")
	header, body, err := request(srv, c)
	defer func() {
		srv.CloseClientConnections()
		srv.Close()
	}()
	if c.CutAt >= 0 {
		// the client went away mid-stream: the handler must finish and leave nothing behind
		srv.CloseClientConnections()
		st, running := sched.SurvivorsIgnoring(5*time.Second, before, "vh/vfrun.", "pgregory.net/rapid.", "net/http.(*Server).Serve", "net/http/httptest.(*Server).goServe")
		if running {
			return vfrun.Failf("harness.inconclusive", "goroutines still running 5s after the client disconnected")
		}
		if len(st) > 0 {
			return vfrun.Failf("stream.goroutine-left-after-disconnect", "client disconnected after %d bytes; still parked: %s\n%s", c.CutAt, sched.Signature(st[0]), st[0].Text)
		}
		vfrun.Label(c.Transport + ":client-disconnect")
		return nil
	}
	if err != nil {
		return vfrun.Failf("stream.read-error", "%v (after %d bytes)", err, len(body))
	}
	var f *vfrun.Failure
	if c.Transport == "sse" {
		f = checkSSE(c, body)
	} else {
		f = checkMixed(c, header, body)
	}
	if f != nil {
		return f
	}
	vfrun.Label(fmt.Sprintf("%s:payloads=%d", c.Transport, min(len(c.Payloads), 5)))
	ticks := false
	for _, p := range c.Payloads[1:] {
		if (c.Transport == "sse" && c.KeepAliveUS > 0 && p.GapUS >= c.KeepAliveUS) || (c.Transport == "mixed" && p.GapUS >= max(c.DeliveryUS, 1000)) {
			ticks = true
		}
	}
	if len(c.Payloads) >= 2 && ticks {
		vfrun.Label(c.Transport + ":tick-between-payloads")
		b, _ := json.Marshal(c)
		vfrun.NonTrivial(string(b))
	}
	vfrun.SampleCat(c.Transport, map[string]any{"case": c, "body_bytes": len(body)})
	return nil
}

var datas = []string{`null`, `{"x":"a"}`, `{"x":"line\nbreak data: x\n\n"}`, `{"x":"\r\n--graphql--\r\n"}`, `{"x":"---"}`, `{"x":"event: complete"}`, `{}`, `{"x":": ping"}`,
	`{"x":"é😀 "}`, `{"a":{"b":[1,2,{"c":null}]}}`, `{"x":"` + strings.Repeat("y", 5000) + `"}`}

// chunks a payload string is assembled from: everything a framing layer could trip over (format
// verbs, line ends, the framing's own keywords and boundaries, quotes, escapes, long runs)
var chunks = []string{"a", " ", "%", "%s", "%d", "%%", "%!", "100% done", "\n", "\r\n", "\r", "data: ", "event: complete", "event: next\ndata: {}\n\n", ": ping",
	"--graphql--", "--graphql", "\r\n--b0undary--\r\n", "---", "\"", "\\", "é😀", "\u2028", "\x00", ":", "Content-Type: application/json", "{\"hasNext\":false}"}

func genString(t *rapid.T) string {
	n := rapid.IntRange(0, 4).Draw(t, "nchunks")
	var sb strings.Builder
	for i := 0; i < n; i++ {
		sb.WriteString(rapid.SampledFrom(chunks).Draw(t, "chunk"))
	}
	return sb.String()
}

// genData draws the data of one payload: a small JSON object over hostile strings.
func genData(t *rapid.T) string {
	if rapid.IntRange(0, 2).Draw(t, "fixed?") == 0 {
		return rapid.SampledFrom(datas).Draw(t, "data")
	}
	m := map[string]any{}
	for i, k := range []string{"x", "y", "z"}[:rapid.IntRange(1, 3).Draw(t, "nkeys")] {
		switch rapid.IntRange(0, 4).Draw(t, "vkind") {
		case 0:
			m[k] = nil
		case 1:
			m[k] = i
		case 2:
			m[k] = []any{genString(t), map[string]any{genString(t) + "k": genString(t)}}
		default:
			m[k] = genString(t)
		}
	}
	b, _ := json.Marshal(m)
	return string(b)
}

func gen(t *rapid.T) Case {
	c := Case{Transport: rapid.SampledFrom([]string{"sse", "mixed"}).Draw(t, "transport"), CutAt: -1}
	n := rapid.IntRange(1, 12).Draw(t, "npayloads")
	for i := 0; i < n; i++ {
		p := Payload{Data: genData(t), GapUS: rapid.SampledFrom([]int{0, 0, -1, 1, 50, 300, 1500, 3000}).Draw(t, "gap")}
		if i > 0 {
			p.Path = []string{"a", "b"}[:rapid.IntRange(0, 2).Draw(t, "pathlen")]
			p.Label = rapid.SampledFrom([]string{"", "l1", "l 2", "50%", "%s\n"}).Draw(t, "label")
		}
		p.Errs = rapid.SampledFrom([]int{0, 0, 0, 1, 2}).Draw(t, "errs")
		c.Payloads = append(c.Payloads, p)
	}
	c.KeepAliveUS = rapid.SampledFrom([]int{0, 20, 100, 1000, 10000}).Draw(t, "keepalive")
	c.DeliveryUS = rapid.SampledFrom([]int{0, 1, 500, 1000, 2500, 10000}).Draw(t, "delivery")
	c.Boundary = rapid.SampledFrom([]string{"", "graphql", "-", "b0undary"}).Draw(t, "boundary")
	if rapid.IntRange(0, 5).Draw(t, "cut?") == 0 {
		c.CutAt = rapid.IntRange(0, 400).Draw(t, "cut")
	}
	return c
}

// TestGeneratedStreams: not a scripted schema but the generated server - @defer queries delivered
// through the multipart/mixed and SSE transports, parsed off the wire and checked by the shared @defer
// oracle (every payload exactly once and intact, in an order a client can apply, hasNext, termination).
func TestGeneratedStreams(t *testing.T) {
	vfrun.Run(t, vfrun.Prop[deferchk.Case]{Property: "C12", Name: "TestGeneratedStreams", Gen: func(t *rapid.T) deferchk.Case {
		c := deferchk.Gen(t)
		c.Via = rapid.SampledFrom([]string{"mixed", "mixed", "sse"}).Draw(t, "wire")
		return c
	}, Check: deferchk.Check}, vfrun.N(1200, 40000))
}

func TestStreams(t *testing.T) {
	vfrun.Run(t, vfrun.Prop[Case]{Property: "C12", Name: "TestStreams", Gen: gen, Check: check}, vfrun.N(2400, 250000))
}
