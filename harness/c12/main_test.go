package c12

import (
	"testing"

	_ "vh/gen/all"
	"vh/vfrun"
)

func TestMain(m *testing.M) { vfrun.Main(m) }
