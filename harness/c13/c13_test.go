package c13

import (
	"testing"

	"vh/deferchk"
	"vh/vfrun"
)

func TestDefer(t *testing.T) {
	vfrun.Run(t, vfrun.Prop[deferchk.Case]{Property: "C13", Name: "TestDefer", Gen: deferchk.Gen, Check: deferchk.Check}, vfrun.N(3000, 150000))
}
