package c14

import (
	"context"
	"encoding/json"
	"fmt"
	"math/big"
	"net/http/httptest"
	"sort"
	"strings"
	"testing"
	"time"

	"github.com/99designs/gqlgen/complexity"
	"github.com/99designs/gqlgen/graphql"
	"github.com/99designs/gqlgen/graphql/executor"
	"github.com/99designs/gqlgen/graphql/handler"
	"github.com/99designs/gqlgen/graphql/handler/extension"
	"github.com/99designs/gqlgen/graphql/handler/transport"
	"github.com/gorilla/websocket"
	"github.com/vektah/gqlparser/v2/ast"
	"github.com/vektah/gqlparser/v2/gqlerror"
	"pgregory.net/rapid"

	"vh/hsrv"
	"vh/kit"
	"vh/opgen"
	"vh/plan"
	"vh/proj"
	"vh/scalars"
	"vh/univ"
	"vh/vfrun"
)

var maxInt = big.NewInt(univ.MaxInt)

// ---------------------------------------------------------------------------------------------
// independent evaluator of the documented definition (arbitrary precision, then saturated)

type evaluator struct {
	schema *ast.Schema
	specs  map[string]univ.CSpec
	vars   map[string]any
	// lenient: an interface that implements the interface counts as an implementor with default cost
	lenient    bool
	usedCustom bool
	sawIface   bool
	sawFrag    bool
	saturated  bool
}

func sat(x *big.Int) *big.Int {
	if x.Cmp(maxInt) > 0 {
		return new(big.Int).Set(maxInt)
	}
	return x
}

func (ev *evaluator) add(a, b *big.Int) *big.Int {
	r := new(big.Int).Add(a, b)
	if r.Cmp(maxInt) > 0 {
		ev.saturated = true
		return new(big.Int).Set(maxInt)
	}
	return r
}

func (ev *evaluator) selectionSet(ss ast.SelectionSet) *big.Int {
	total := big.NewInt(0)
	for _, sel := range ss {
		switch s := sel.(type) {
		case *ast.Field:
			child := big.NewInt(0)
			td := ev.schema.Types[s.Definition.Type.Name()]
			if td.Kind == ast.Object || td.Kind == ast.Interface || td.Kind == ast.Union {
				child = ev.selectionSet(s.SelectionSet)
			}
			var cost *big.Int
			if s.ObjectDefinition.Kind == ast.Interface {
				ev.sawIface = true
				cost = big.NewInt(0)
				for _, impl := range ev.schema.GetPossibleTypes(s.ObjectDefinition) {
					if impl.Kind != ast.Object && !ev.lenient {
						continue
					}
					if c := ev.field(impl.Name, s, child); c.Cmp(cost) > 0 {
						cost = c
					}
				}
			} else {
				cost = ev.field(s.ObjectDefinition.Name, s, child)
			}
			total = ev.add(total, cost)
		case *ast.FragmentSpread:
			ev.sawFrag = true
			total = ev.add(total, ev.selectionSet(s.Definition.SelectionSet))
		case *ast.InlineFragment:
			ev.sawFrag = true
			total = ev.add(total, ev.selectionSet(s.SelectionSet))
		}
	}
	return total
}

// firstIntArg mirrors what the harness's custom functions look at: the first Int-typed argument in
// declaration order that is not null after coercion (literal, variable, default).
func (ev *evaluator) firstIntArg(s *ast.Field) int64 {
	for _, ad := range s.Definition.Arguments {
		if ad.Type.Name() != "Int" || ad.Type.Elem != nil {
			continue
		}
		var raw any
		if a := s.Arguments.ForName(ad.Name); a != nil {
			v, err := a.Value.Value(ev.vars)
			if err != nil {
				return 0
			}
			raw = v
		} else if ad.DefaultValue != nil {
			v, _ := ad.DefaultValue.Value(nil)
			raw = v
		}
		switch x := raw.(type) {
		case int64:
			return x
		case int:
			return int64(x)
		case nil:
			// the universal function skips an argument it receives as nil and looks at the next Int
			continue
		}
		return 0
	}
	return 0
}

func (ev *evaluator) field(obj string, s *ast.Field, child *big.Int) *big.Int {
	if spec, ok := ev.specs[obj+"."+scalars.Canonical(obj, s.Name)]; ok {
		x := ev.firstIntArg(s)
		if x < 0 {
			x = 0
		}
		// the user function itself saturates (it returns an int)
		v := new(big.Int).Mul(big.NewInt(spec.A), child)
		v = sat(v)
		v2 := sat(new(big.Int).Mul(big.NewInt(spec.B), big.NewInt(x)))
		v = sat(new(big.Int).Add(v, v2))
		v = new(big.Int).Add(v, big.NewInt(spec.C))
		v = sat(v)
		if v.Cmp(child) >= 0 {
			ev.usedCustom = true
			return v
		}
	}
	return ev.add(big.NewInt(1), child)
}

// ---------------------------------------------------------------------------------------------

type Case struct {
	Project   string                `json:"project"`
	Query     string                `json:"query"`
	Variables map[string]any        `json:"variables,omitempty"`
	Extra     string                `json:"extra_query,omitempty"` // second operation whose root selections are added (monotonicity)
	Specs     map[string]univ.CSpec `json:"specs,omitempty"`
	Limit     int64                 `json:"limit"`
	LimitRel  int                   `json:"limit_rel"` // limit = value + LimitRel when != 99
	// Install: how the limit is configured: "" = extension.FixedComplexityLimit; "func" = a
	// ComplexityLimit whose Func decides per request; "wrapped" = a user extension that embeds the
	// ComplexityLimit and has an operation-parameter hook of its own; "among" = the fixed limit
	// between two other extensions
	Install string `json:"install,omitempty"`
	// Via: also send the operation to a handler.Server that has the limit, over this transport
	// ("post", "get", "sse", "ws"); "" = the executor API only
	Via string `json:"via,omitempty"`
}

// tenantLimit: a user extension built on the stock one, as a per-tenant limit would be.
type tenantLimit struct {
	*extension.ComplexityLimit
}

func (tenantLimit) MutateOperationParameters(ctx context.Context, raw *graphql.RawParams) *gqlerror.Error {
	return nil
}

// paramsOnly / ctxOnly: bystander extensions.
type paramsOnly struct{}

func (paramsOnly) ExtensionName() string                   { return "ParamsOnly" }
func (paramsOnly) Validate(graphql.ExecutableSchema) error { return nil }
func (paramsOnly) MutateOperationParameters(ctx context.Context, raw *graphql.RawParams) *gqlerror.Error {
	return nil
}

type ctxOnly struct{}

func (ctxOnly) ExtensionName() string                   { return "CtxOnly" }
func (ctxOnly) Validate(graphql.ExecutableSchema) error { return nil }
func (ctxOnly) MutateOperationContext(ctx context.Context, rc *graphql.OperationContext) *gqlerror.Error {
	return nil
}

func specKeys(u *univ.Universe) []string {
	var out []string
	for k := range u.ComplexityFields {
		out = append(out, k)
	}
	sort.Strings(out)
	return out
}

func evaluate(schema *ast.Schema, specs map[string]univ.CSpec, vars map[string]any, ss ast.SelectionSet) (strict, lenient *big.Int, ev *evaluator) {
	ev = &evaluator{schema: schema, specs: specs, vars: vars}
	strict = ev.selectionSet(ss)
	ev2 := &evaluator{schema: schema, specs: specs, vars: vars, lenient: true}
	lenient = ev2.selectionSet(ss)
	return
}

func check(c Case) *vfrun.Failure {
	srvs, err := kit.Servers(c.Project)
	if err != nil {
		return vfrun.Failf("harness.no-project", "%v", err)
	}
	for _, s := range srvs {
		if len(s.U.ComplexityFields) == 0 {
			continue // omit_complexity vector
		}
		kc := kit.Case{Project: c.Project, Query: c.Query, Variables: c.Variables}
		pr, f := kit.Prepare(s, kc)
		if f != nil {
			return f
		}
		s.U.SetComplexity(c.Specs)
		strict, lenient, ev := evaluate(s.Schema, c.Specs, pr.Vars, pr.Op.SelectionSet)
		got := complexity.Calculate(context.Background(), s.ES, pr.Op, pr.Vars)
		vfrun.Eval()
		if got < 0 {
			return vfrun.Failf("complexity.negative", "[%s] Calculate = %d", s.P.Vec, got)
		}
		if big.NewInt(int64(got)).Cmp(strict) != 0 && big.NewInt(int64(got)).Cmp(lenient) != 0 {
			return vfrun.Failf("complexity.value", "[%s] Calculate = %d, documented definition gives %s\nquery: %s\nspecs: %v", s.P.Vec, got, strict, c.Query, c.Specs)
		}
		if len(pr.Vars) > 0 {
			// the cost depends on variable values: a gate that computed it without them would be fooled
			if noVars, _, _ := evaluate(s.Schema, c.Specs, nil, pr.Op.SelectionSet); noVars.Cmp(strict) != 0 {
				vfrun.Label("cost-depends-on-variable-values")
			}
		}
		// monotonicity: adding the root selections of another operation never lowers the value
		if c.Extra != "" {
			pr2, f := kit.Prepare(s, kit.Case{Project: c.Project, Query: c.Extra})
			if f == nil {
				sum := &ast.OperationDefinition{Operation: pr.Op.Operation, SelectionSet: append(append(ast.SelectionSet{}, pr.Op.SelectionSet...), pr2.Op.SelectionSet...)}
				got2 := complexity.Calculate(context.Background(), s.ES, sum, pr.Vars)
				gotB := complexity.Calculate(context.Background(), s.ES, pr2.Op, pr2.Vars)
				if got2 < got || got2 < gotB {
					return vfrun.Failf("complexity.not-monotone", "[%s] adding selections lowered the complexity: %d and %d -> %d", s.P.Vec, got, gotB, got2)
				}
				st2, len2, _ := evaluate(s.Schema, c.Specs, pr.Vars, sum.SelectionSet)
				if big.NewInt(int64(got2)).Cmp(st2) != 0 && big.NewInt(int64(got2)).Cmp(len2) != 0 {
					return vfrun.Failf("complexity.value", "[%s] Calculate(sum) = %d, documented definition gives %s", s.P.Vec, got2, st2)
				}
				vfrun.Label("monotonicity-pair")
			}
		}
		// the gate
		limit := c.Limit
		if c.LimitRel != 99 {
			limit = int64(got) + int64(c.LimitRel)
			if limit < 0 {
				limit = 0
			}
		}
		ex := executor.New(s.ES)
		ext := extension.FixedComplexityLimit(int(limit))
		lim := int(limit)
		switch c.Install {
		case "func":
			ext = &extension.ComplexityLimit{Func: func(ctx context.Context, rc *graphql.OperationContext) int { return lim }}
		case "wrapped":
			ext = nil
		}
		switch {
		case c.Install == "wrapped":
			w := tenantLimit{&extension.ComplexityLimit{Func: func(ctx context.Context, rc *graphql.OperationContext) int { return lim }}}
			if err := w.Validate(s.ES); err != nil {
				return vfrun.Failf("harness.ext", "%v", err)
			}
			ex.Use(w)
		case c.Install == "among":
			ex.Use(paramsOnly{})
			fallthrough
		default:
			if err := ext.Validate(s.ES); err != nil {
				return vfrun.Failf("harness.ext", "%v", err)
			}
			ex.Use(ext)
			if c.Install == "among" {
				ex.Use(ctxOnly{})
			}
		}
		vfrun.Label("limit-installed:" + c.Install)
		e := univ.NewExec(plan.New(1))
		s.U.SetExec(e)
		ctx := graphql.StartOperationTrace(context.Background())
		rc, errs := ex.CreateOperationContext(ctx, &graphql.RawParams{Query: c.Query, Variables: c.Variables})
		rejected := false
		for _, ge := range errs {
			if strings.Contains(ge.Message, "exceeds the limit") {
				rejected = true
			} else {
				return vfrun.Failf("complexity.other-rejection", "[%s] %v", s.P.Vec, ge)
			}
		}
		if errs == nil {
			rh, ctx2 := ex.DispatchOperation(ctx, rc)
			_ = rh(ctx2)
		}
		ncalls := len(e.Keys("R")) + len(e.Keys("D"))
		over := int64(got) > limit
		switch {
		case over && !rejected:
			return vfrun.Failf("complexity.gate-open", "[%s] complexity %d exceeds the limit %d but the operation was not rejected", s.P.Vec, got, limit)
		case over && ncalls > 0:
			return vfrun.Failf("complexity.gate-executed", "[%s] complexity %d exceeds the limit %d, yet %d resolver/directive calls ran", s.P.Vec, got, limit, ncalls)
		case !over && rejected:
			return vfrun.Failf("complexity.gate-closed", "[%s] complexity %d is within the limit %d but the operation was rejected", s.P.Vec, got, limit)
		}
		if st, _ := rc.Stats.GetExtension("ComplexityLimit").(*extension.ComplexityStats); st == nil || st.Complexity != got || int64(st.ComplexityLimit) != limit {
			return vfrun.Failf("complexity.stats", "[%s] ComplexityStats %+v, want complexity %d limit %d", s.P.Vec, st, got, limit)
		}
		if c.Via != "" && pr.Op.Operation == ast.Query {
			if f := gateVia(s, c, int(limit), over); f != nil {
				return f
			}
		}
		if over {
			vfrun.Label("rejected")
		} else {
			vfrun.Label("accepted")
		}
		near := int64(got)-limit <= 2 && limit-int64(got) <= 2
		if ev.saturated {
			vfrun.Label("saturated")
		}
		if ev.sawIface {
			vfrun.Label("interface-position")
		}
		if ev.usedCustom {
			vfrun.Label("custom-cost-used")
		}
		if near {
			vfrun.Label("within-2-of-limit")
		}
		if strict.Cmp(lenient) != 0 {
			vfrun.Label("interface-implementing-interface-matters")
		}
		if ev.usedCustom && (ev.sawIface || ev.sawFrag || near || ev.saturated) {
			vfrun.NonTrivial(fmt.Sprintf("%s|%v|%d|%s", c.Query, c.Specs, limit, c.Extra))
		}
		vfrun.SampleCat("op", map[string]any{"case": c, "complexity": got, "limit": limit})
	}
	return nil
}

var cvals = []int64{0, 0, 1, 1, 2, 3, 5, 10, 100, -1, -5, -(1 << 40), 1 << 31, 1 << 62, univ.MaxInt, univ.MaxInt - 1, univ.MaxInt / 2, univ.MaxInt/2 + 1}

// intArg: the first Int-typed argument of a field (what the harness's custom functions multiply by),
// if the field can be selected giving only that argument.
func intArg(fd *ast.FieldDefinition) *ast.ArgumentDefinition {
	var first *ast.ArgumentDefinition
	for _, ad := range fd.Arguments {
		if first == nil && ad.Type.Name() == "Int" && ad.Type.Elem == nil {
			first = ad
			continue
		}
		if ad.Type.NonNull && ad.DefaultValue == nil {
			return nil
		}
	}
	return first
}

// genVarCost draws an operation whose cost is decided by variable values: fields with a custom
// complexity function that multiplies an Int argument, the argument being given through a variable
// (provided, or left to the variable's default).
func genVarCost(t *rapid.T, s *proj.Server) (Case, bool) {
	type cand struct {
		parent *ast.FieldDefinition // root field leading to the object, nil for a root field
		obj    string
		fd     *ast.FieldDefinition
	}
	var cands []cand
	q := s.Schema.Query
	for _, f := range q.Fields {
		if strings.HasPrefix(f.Name, "__") {
			continue
		}
		if intArg(f) != nil && s.U.ComplexityFields[q.Name+"."+f.Name] {
			cands = append(cands, cand{nil, q.Name, f})
		}
		td := s.Schema.Types[f.Type.Name()]
		needs := false
		for _, ad := range f.Arguments {
			if ad.Type.NonNull && ad.DefaultValue == nil {
				needs = true
			}
		}
		if td == nil || td.Kind != ast.Object || needs {
			continue
		}
		for _, g := range td.Fields {
			if intArg(g) != nil && s.U.ComplexityFields[td.Name+"."+g.Name] {
				cands = append(cands, cand{f, td.Name, g})
			}
		}
	}
	if len(cands) == 0 {
		return Case{}, false
	}
	c := Case{Specs: map[string]univ.CSpec{}, Variables: map[string]any{}}
	var decls, sels []string
	n := rapid.IntRange(1, 3).Draw(t, "nvarfields")
	for i := 0; i < n; i++ {
		cd := cands[rapid.IntRange(0, len(cands)-1).Draw(t, "cand")]
		ad := intArg(cd.fd)
		v := fmt.Sprintf("c%d", i)
		val := rapid.SampledFrom([]int64{0, 1, 2, 7, 1000, 1<<31 - 1}).Draw(t, "varvalue")
		switch rapid.IntRange(0, 2).Draw(t, "varform") {
		case 0: // provided
			typ := "Int"
			if ad.Type.NonNull {
				typ = "Int!"
			}
			decls = append(decls, "$"+v+": "+typ)
			c.Variables[v] = val
		case 1: // left to the variable's default
			decls = append(decls, fmt.Sprintf("$%s: Int = %d", v, val))
		default: // provided, overriding a default
			decls = append(decls, fmt.Sprintf("$%s: Int = %d", v, rapid.SampledFrom([]int64{0, 3, 500}).Draw(t, "vardefault")))
			c.Variables[v] = val
		}
		sel := fmt.Sprintf("v%d: %s(%s: $%s)", i, cd.fd.Name, ad.Name, v)
		if td := s.Schema.Types[cd.fd.Type.Name()]; td != nil && td.IsCompositeType() {
			sel += " { __typename }"
		}
		if cd.parent != nil {
			sel = fmt.Sprintf("p%d: %s { %s }", i, cd.parent.Name, sel)
		}
		sels = append(sels, sel)
		c.Specs[cd.obj+"."+cd.fd.Name] = univ.CSpec{
			A: rapid.SampledFrom([]int64{0, 1, 2}).Draw(t, "va"),
			B: rapid.SampledFrom([]int64{1, 5, 1 << 30}).Draw(t, "vb"),
			C: rapid.SampledFrom([]int64{0, 1, -5}).Draw(t, "vc"),
		}
	}
	c.Query = "query(" + strings.Join(decls, ", ") + ") { " + strings.Join(sels, " ") + " }"
	return c, true
}

func gen(t *rapid.T) Case {
	var c Case
	c.Project = kit.DrawProject(t)
	srvs, err := kit.Servers(c.Project)
	if err != nil {
		t.Fatalf("harness: %v", err)
	}
	s := srvs[0]
	if rapid.IntRange(0, 4).Draw(t, "varcost?") == 0 {
		if vc, ok := genVarCost(t, s); ok {
			vc.Project = c.Project
			if _, f := kit.Prepare(s, kit.Case{Query: vc.Query, Variables: vc.Variables}); f != nil {
				t.Fatalf("harness: generated variable-cost operation is invalid: %s: %s", vc.Query, f.Msg)
			}
			vc.LimitRel = rapid.SampledFrom([]int{-2, -1, 0, 1, 99}).Draw(t, "limitrel")
			vc.Limit = rapid.SampledFrom([]int64{0, 1, 5, 20, 100, 1000}).Draw(t, "limit")
			return vc
		}
	}
	op := opgen.Generate(t, s.Schema, opgen.Options{MaxFields: 25, MaxDepth: 5})
	c.Query, c.Variables = op.Query, op.Variables
	if _, f := kit.Prepare(s, kit.Case{Query: c.Query, Variables: c.Variables}); f != nil {
		t.Skip("invalid: " + f.Msg)
	}
	if op.OpName != "" {
		t.Skip("named")
	}
	if rapid.Bool().Draw(t, "extra?") {
		op2 := opgen.Generate(t, s.Schema, opgen.Options{MaxFields: 10, MaxDepth: 4, NoSkip: true})
		if len(op2.Variables) == 0 && op2.OpName == "" {
			c.Extra = op2.Query
		}
	}
	keys := specKeys(s.U)
	n := rapid.IntRange(0, 8).Draw(t, "nspecs")
	c.Specs = map[string]univ.CSpec{}
	for i := 0; i < n && len(keys) > 0; i++ {
		k := keys[rapid.IntRange(0, len(keys)-1).Draw(t, "speckey")]
		c.Specs[k] = univ.CSpec{
			A: rapid.SampledFrom([]int64{0, 1, 1, 2, 3, 10, 1 << 20, 1 << 40}).Draw(t, "a"),
			B: rapid.SampledFrom([]int64{0, 0, 1, 5, 1 << 30}).Draw(t, "b"),
			C: rapid.SampledFrom(cvals).Draw(t, "c"),
		}
	}
	c.LimitRel = rapid.SampledFrom([]int{-2, -1, 0, 1, 2, 99, 99}).Draw(t, "limitrel")
	c.Install = rapid.SampledFrom([]string{"", "", "func", "wrapped", "among"}).Draw(t, "install")
	c.Via = rapid.SampledFrom([]string{"", "", "", "post", "get", "sse", "ws", "ws"}).Draw(t, "via")
	c.Limit = rapid.SampledFrom([]int64{0, 1, 5, 20, 100, 1000, univ.MaxInt, univ.MaxInt - 1}).Draw(t, "limit")
	return c
}

func TestComplexity(t *testing.T) {
	vfrun.Run(t, vfrun.Prop[Case]{Property: "C14", Name: "TestComplexity", Gen: gen, Check: check}, vfrun.N(4000, 1500000))
}

// TestSafeAddGrid reaches the saturating addition black-box: '{ s i }' with constant custom costs
// (a, b) makes Calculate return safeAdd(safeAdd(0, a'), b') where a negative custom cost is ignored
// (the field then has its default cost 1). The grid is enumerated exhaustively.
func TestSafeAddGrid(t *testing.T) {
	type GridCase struct {
		A int64 `json:"a"`
		B int64 `json:"b"`
	}
	grid := []int64{0, 1, 2, univ.MaxInt/2 - 1, univ.MaxInt / 2, univ.MaxInt/2 + 1, univ.MaxInt - 2, univ.MaxInt - 1, univ.MaxInt, -1, -2, -univ.MaxInt, -univ.MaxInt - 1}
	checkGrid := func(g GridCase) *vfrun.Failure {
		for _, name := range proj.Names() {
			srvs, err := kit.Servers(name)
			if err != nil {
				return vfrun.Failf("harness.no-project", "%v", err)
			}
			for _, s := range srvs {
				if !s.U.ComplexityFields["Query.s"] || !s.U.ComplexityFields["Query.i"] {
					continue
				}
				pr, f := kit.Prepare(s, kit.Case{Query: "{ s i }"})
				if f != nil {
					return f
				}
				s.U.SetComplexity(map[string]univ.CSpec{"Query.s": {C: g.A}, "Query.i": {C: g.B}})
				got := complexity.Calculate(context.Background(), s.ES, pr.Op, nil)
				eff := func(x int64) *big.Int {
					if x < 0 {
						return big.NewInt(1)
					}
					return big.NewInt(x)
				}
				want := sat(new(big.Int).Add(eff(g.A), eff(g.B)))
				vfrun.Eval()
				if big.NewInt(int64(got)).Cmp(want) != 0 {
					return vfrun.Failf("complexity.safeadd", "[%s] costs (%d, %d): Calculate = %d, want %s", s.P.Vec, g.A, g.B, got, want)
				}
				if g.A >= univ.MaxInt/2 || g.B >= univ.MaxInt/2 || g.A < 0 || g.B < 0 {
					vfrun.NonTrivial(fmt.Sprintf("grid|%d|%d", g.A, g.B))
				}
			}
		}
		return nil
	}
	// exhaustive grid, no randomness
	vfrun.Run(t, vfrun.Prop[GridCase]{Property: "C14", Name: "TestSafeAddGrid",
		Gen: func(t *rapid.T) GridCase {
			return GridCase{rapid.SampledFrom(grid).Draw(t, "a"), rapid.SampledFrom(grid).Draw(t, "b")}
		},
		Check: checkGrid}, 0)
	if vfrun.Shard() != 0 {
		return
	}
	n := 0
	for _, a := range grid {
		for _, b := range grid {
			if f := checkGrid(GridCase{a, b}); f != nil {
				vfrun.WriteReplay("C14", "TestSafeAddGrid", GridCase{a, b}, f)
				t.Fatalf("key=%s %s", f.Key, f.Msg)
			}
			n++
		}
	}
	vfrun.SampleCat("grid", map[string]any{"grid_points": n, "values": grid})
	vfrun.Label("safeadd-grid-exhaustive")
}

// gateVia sends the operation to a handler.Server with the limit configured, over one of gqlgen's
// transports: the gate has to hold whatever carries the request.
func gateVia(s *proj.Server, c Case, limit int, over bool) *vfrun.Failure {
	h := handler.New(s.ES)
	h.AddTransport(transport.Websocket{})
	h.AddTransport(transport.SSE{})
	h.AddTransport(transport.GET{})
	h.AddTransport(transport.POST{})
	h.Use(extension.FixedComplexityLimit(limit))
	e := univ.NewExec(plan.New(1))
	s.U.SetExec(e)
	vars := ""
	if len(c.Variables) > 0 {
		b, _ := json.Marshal(c.Variables)
		vars = string(b)
	}
	var answer string
	switch c.Via {
	case "ws":
		srv := httptest.NewServer(h)
		defer srv.Close()
		d := websocket.Dialer{Subprotocols: []string{"graphql-transport-ws"}, HandshakeTimeout: 5 * time.Second}
		conn, _, err := d.Dial("ws"+strings.TrimPrefix(srv.URL, "http"), nil)
		if err != nil {
			return vfrun.Failf("harness.dial", "%v", err)
		}
		defer conn.Close()
		send := func(v any) { b, _ := json.Marshal(v); _ = conn.WriteMessage(websocket.TextMessage, b) }
		send(map[string]any{"type": "connection_init"})
		send(map[string]any{"type": "subscribe", "id": "1", "payload": map[string]any{"query": c.Query, "variables": c.Variables}})
		_ = conn.SetReadDeadline(time.Now().Add(5 * time.Second))
		for {
			_, b, err := conn.ReadMessage()
			if err != nil {
				return vfrun.Failf("complexity.ws-operation-not-terminated", "[%s via ws] the operation received neither error nor complete (%v); frames %s", s.P.Vec, err, answer)
			}
			answer += string(b) + " | "
			var f struct {
				Type string `json:"type"`
			}
			_ = json.Unmarshal(b, &f)
			if f.Type == "complete" || f.Type == "error" {
				break
			}
		}
		// give a wrongly started operation a moment to reach its resolvers
		if over {
			time.Sleep(20 * time.Millisecond)
		}
	default:
		r := hsrv.Req{Transport: "post", Query: c.Query, HasQuery: true, Variables: vars, Headers: map[string]string{}}
		switch c.Via {
		case "get":
			r.Transport = "get"
		case "sse":
			r.Headers["Accept"] = "text/event-stream"
		}
		res := hsrv.Serve(h, r.Build())
		answer = string(res.Body)
	}
	ncalls := len(e.Keys("R")) + len(e.Keys("D"))
	rejected := strings.Contains(answer, "exceeds the limit")
	what := fmt.Sprintf("[%s via %s] limit %d", s.P.Vec, c.Via, limit)
	switch {
	case over && ncalls > 0:
		return vfrun.Failf("complexity.gate-executed", "%s: the operation is over the limit, yet %d resolver/directive calls ran; answer %s", what, ncalls, answer)
	case over && !rejected:
		return vfrun.Failf("complexity.gate-open", "%s: the operation is over the limit but was not rejected; answer %s", what, answer)
	case !over && rejected:
		return vfrun.Failf("complexity.gate-closed", "%s: the operation is within the limit but was rejected; answer %s", what, answer)
	}
	vfrun.Label("gate-via:" + c.Via)
	return nil
}
