package c15

import (
	"crypto/sha256"
	"encoding/hex"
	"encoding/json"
	"fmt"
	"strings"
	"sync/atomic"
	"testing"

	"github.com/99designs/gqlgen/graphql/handler/extension"
	"github.com/99designs/gqlgen/graphql/handler/lru"
	"github.com/vektah/gqlparser/v2/ast"
	"pgregory.net/rapid"

	"vh/hsrv"
	"vh/kit"
	"vh/plan"
	"vh/proj"
	"vh/strictjson"
	"vh/univ"
	"vh/vfrun"
)

// the alphabet: texts and the root field that reveals which text was executed
// the last two texts differ only in the case of a letter inside a string literal: they have different
// hashes and must never stand in for each other (whatever a cache does to its keys)
// longPad: more than 1 KiB of selections that run no resolver; the last two texts are longer than
// that, share everything but their tail and have different hashes (whatever a cache does to long keys)
var longPad = func() string {
	var sb strings.Builder
	for i := 0; sb.Len() < 1200; i++ {
		fmt.Fprintf(&sb, "t%d: __typename ", i)
	}
	return sb.String()
}()

var texts = []string{"{ s }", "{ i }", "mutation { m3 }", "{ nope }", `{ echo(s: "Alice") }`, `{ echo(s: "alice") }`, "{ " + longPad + "s }", "{ " + longPad + "i }"}
var reveals = []string{"s", "i", "m3", "", "echo", "echo", "s", "i"}
var revealArg = []string{"", "", "", "", "Alice", "alice", "", ""}

func hashOf(t string) string {
	b := sha256.Sum256([]byte(t))
	return hex.EncodeToString(b[:])
}

// Step is one request of the alphabet.
type Step struct {
	Form string `json:"form"` // text | text+hash | text+wronghash | hash | malformed | version | upperhash
	Text int    `json:"text"` // index into texts
	Alt  int    `json:"alt"`  // for text+wronghash: whose hash is sent
	Get  bool   `json:"get"`  // use the GET transport
	// Form: the JSON body is posted as application/x-www-form-urlencoded (the UrlEncodedForm
	// transport decodes JSON bodies too; a hash-only request spells "query":"")
	FormPost bool `json:"form_post,omitempty"`
}

var forms = []string{"text", "text+hash", "text+wronghash", "hash", "malformed", "version", "upperhash", "blank+hash"}

func alphabet() []Step {
	var out []Step
	for ti := range texts {
		out = append(out, Step{Form: "text", Text: ti}, Step{Form: "text+hash", Text: ti}, Step{Form: "hash", Text: ti})
		out = append(out, Step{Form: "text+wronghash", Text: ti, Alt: (ti + 1) % len(texts)})
	}
	out = append(out, Step{Form: "malformed", Text: 0}, Step{Form: "version", Text: 0}, Step{Form: "upperhash", Text: 0}, Step{Form: "blank+hash", Text: 0}, Step{Form: "blank+hash", Text: 1})
	return out
}

func (st Step) request() hsrv.Req {
	r := hsrv.Req{Transport: "post"}
	if st.Get {
		r.Transport = "get"
	}
	t := texts[st.Text]
	ext := func(h string, version int) string {
		return fmt.Sprintf(`{"persistedQuery":{"version":%d,"sha256Hash":%q}}`, version, h)
	}
	switch st.Form {
	case "text":
		r.Query, r.HasQuery = t, true
	case "text+hash":
		r.Query, r.HasQuery = t, true
		r.Extensions = ext(hashOf(t), 1)
	case "text+wronghash":
		r.Query, r.HasQuery = t, true
		r.Extensions = ext(hashOf(texts[st.Alt]), 1)
	case "hash":
		r.Extensions = ext(hashOf(t), 1)
	case "malformed":
		r.Query, r.HasQuery = t, true
		r.Extensions = `{"persistedQuery":"` + hashOf(t) + `"}`
	case "version":
		r.Query, r.HasQuery = t, true
		r.Extensions = ext(hashOf(t), 2)
	case "upperhash":
		r.Query, r.HasQuery = t, true
		r.Extensions = ext(strings.ToUpper(hashOf(t)), 1)
	case "blank+hash":
		// a text is sent, and it is not the one that hashes to the hash: blanks only
		r.Query, r.HasQuery = " \n", true
		r.Extensions = ext(hashOf(t), 1)
	}
	if st.FormPost && !st.Get {
		r.HasQuery = true
		r.Headers = map[string]string{"Content-Type": "application/x-www-form-urlencoded"}
	}
	return r
}

type Case struct {
	Steps []Step `json:"steps"`
	Bound int    `json:"cache_bound"` // 0 = unbounded
	// QueryCache: the server also caches parsed documents in an lru.LRU, as NewDefaultServer does
	QueryCache bool `json:"query_cache,omitempty"`
}

var srv *proj.Server

func server() (*proj.Server, *vfrun.Failure) {
	if srv != nil {
		return srv, nil
	}
	ss, err := kit.Servers("core")
	if err != nil {
		return nil, vfrun.Failf("harness.no-project", "%v", err)
	}
	srv = ss[0]
	return srv, nil
}

func check(c Case) *vfrun.Failure {
	s, f := server()
	if f != nil {
		return f
	}
	var recovers atomic.Int64
	cache := hsrv.NewRecCache[string](c.Bound)
	h := hsrv.New(s, hsrv.Config{Transports: []string{"get", "post", "urlencoded"}, Recovers: &recovers})
	h.Use(extension.AutomaticPersistedQuery{Cache: cache})
	if c.QueryCache {
		h.SetQueryCache(lru.New[*ast.QueryDocument](100))
	}
	reg := map[string]string{} // model: hash -> text, every registration ever made
	sawReg, sawHit, sawMismatchOrEvict := false, false, false
	for i, st := range c.Steps {
		e := univ.NewExec(plan.New(7))
		e.RecordArgs = true
		s.U.SetExec(e)
		before := cache.Snapshot()
		res := hsrv.Serve(h, st.request().Build())
		vfrun.Eval()
		body, perr := strictjson.Parse(res.Body)
		if perr != nil {
			return vfrun.Failf("apq.body-not-json", "step %d %+v: body %q: %v", i, st, res.Body, perr)
		}
		hasErrors := body.Get("errors") != nil
		errText := string(res.Body)
		roots := e.Keys("R")
		executed := ""
		if len(roots) > 0 {
			executed = roots[0]
		}
		after := cache.Snapshot()
		// invariant: the cache binds a hash only to text that hashes to it
		for hsh, txt := range after {
			if hashOf(txt) != hsh {
				return vfrun.Failf("apq.cache-poisoned", "after step %d %+v the cache maps %s to %q (sha256 %s)", i, st, hsh, txt, hashOf(txt))
			}
		}
		t := texts[st.Text]
		desc := fmt.Sprintf("step %d of %s (%+v)", i, describe(c), st)
		sameCache := func() bool {
			if len(before) != len(after) {
				return false
			}
			for k, v := range before {
				if after[k] != v {
					return false
				}
			}
			return true
		}
		isMutationOverGet := st.Get && (st.Text == 2)
		expectExec := func(ti int, what string) *vfrun.Failure {
			if isMutationOverGet || (st.Get && ti == 2) {
				if executed != "" {
					return vfrun.Failf("apq.get-mutation-executed", "%s: a mutation was executed over GET", desc)
				}
				return nil
			}
			if reveals[ti] == "" {
				if executed != "" || !hasErrors {
					return vfrun.Failf("apq.invalid-text-executed", "%s: %s: invalid text answered %s", desc, what, errText)
				}
				return nil
			}
			if executed != reveals[ti] {
				return vfrun.Failf("apq.wrong-text-executed", "%s: %s: expected root field %q to run, ran %q; body %s", desc, what, reveals[ti], roots, errText)
			}
			if revealArg[ti] != "" {
				for _, ev := range e.Events() {
					if ev.Kind == "R" && ev.Key == executed {
						if got := fmt.Sprint(ev.Args); !strings.Contains(got, "s:"+revealArg[ti]) {
							return vfrun.Failf("apq.wrong-text-executed", "%s: %s: expected the text with argument %q to run, the resolver received %s", desc, what, revealArg[ti], got)
						}
					}
				}
			}
			return nil
		}
		switch st.Form {
		case "text":
			if f := expectExec(st.Text, "plain request"); f != nil {
				return f
			}
			if !sameCache() {
				return vfrun.Failf("apq.registered-without-hash", "%s: the cache changed on a request without persistedQuery extension", desc)
			}
		case "text+hash":
			if f := expectExec(st.Text, "text with its own hash"); f != nil {
				return f
			}
			reg[hashOf(t)] = t
			sawReg = true
		case "text+wronghash", "upperhash", "malformed", "version", "blank+hash":
			if executed != "" || !hasErrors {
				return vfrun.Failf("apq.mismatch-executed", "%s: request must be rejected and execute nothing; ran %q body %s", desc, roots, errText)
			}
			if !sameCache() {
				return vfrun.Failf("apq.mismatch-registered", "%s: a rejected request changed the cache: before %v after %v", desc, before, after)
			}
			sawMismatchOrEvict = true
		case "hash":
			hsh := hashOf(t)
			if strings.Contains(errText, "PersistedQueryNotFound") {
				if executed != "" {
					return vfrun.Failf("apq.notfound-but-executed", "%s", desc)
				}
				if _, held := before[hsh]; held {
					return vfrun.Failf("apq.notfound-although-registered", "%s: the cache held the hash", desc)
				}
				if _, ever := reg[hsh]; ever {
					sawMismatchOrEvict = true // evicted
				}
			} else {
				want, ok := reg[hsh]
				if !ok {
					return vfrun.Failf("apq.hash-resolved-without-registration", "%s: hash %s was never sent with its text, yet the answer is %s (ran %q)", desc, hsh, errText, roots)
				}
				ti := -1
				for k, x := range texts {
					if x == want {
						ti = k
					}
				}
				if f := expectExec(ti, "hash-only request"); f != nil {
					return f
				}
				sawHit = true
			}
		}
		if recovers.Load() != 0 {
			return vfrun.Failf("apq.panic", "%s: recover hook ran", desc)
		}
	}
	vfrun.Label(fmt.Sprintf("len%d", len(c.Steps)))
	if sawReg && sawHit && sawMismatchOrEvict {
		vfrun.NonTrivial(describe(c))
		vfrun.Label("registration+hit+mismatch-or-eviction")
	}
	if sawReg && sawHit {
		vfrun.Label("registration+hit")
	}
	vfrun.SampleCat(fmt.Sprintf("len%d-bound%d", len(c.Steps), c.Bound), c)
	return nil
}

func describe(c Case) string {
	b, _ := json.Marshal(c)
	return string(b)
}

// TestExhaustive enumerates every sequence over the alphabet up to the length bound (3 quick, 4
// thorough), sharded by the first step.
func TestExhaustive(t *testing.T) {
	vfrun.Run(t, vfrun.Prop[Case]{Property: "C15", Name: "TestExhaustive", Gen: genHistory, Check: check}, 0)
	alpha := alphabet()
	maxLen := 3
	if vfrun.Thorough() {
		maxLen = 4
	}
	n := 0
	var rec func(prefix []Step)
	rec = func(prefix []Step) {
		if len(prefix) > 0 {
			c := Case{Steps: append([]Step(nil), prefix...), QueryCache: true}
			if f := check(c); f != nil {
				vfrun.WriteReplay("C15", "TestExhaustive", c, f)
				t.Fatalf("key=%s %s", f.Key, f.Msg)
			}
			n++
		}
		if len(prefix) == maxLen {
			return
		}
		for i, st := range alpha {
			if len(prefix) == 0 && i%vfrun.Shards() != vfrun.Shard() {
				continue
			}
			rec(append(prefix, st))
		}
	}
	rec(nil)
	vfrun.LabelN("exhaustive-sequences", n)
}

func genHistory(t *rapid.T) Case {
	alpha := alphabet()
	n := rapid.IntRange(4, 25).Draw(t, "len")
	c := Case{Bound: rapid.SampledFrom([]int{0, 1, 2, 2, 3}).Draw(t, "bound"), QueryCache: rapid.Bool().Draw(t, "querycache")}
	for i := 0; i < n; i++ {
		st := alpha[rapid.IntRange(0, len(alpha)-1).Draw(t, "step")]
		st.Get = rapid.IntRange(0, 3).Draw(t, "get") == 0
		st.FormPost = !st.Get && rapid.IntRange(0, 4).Draw(t, "formpost") == 0
		c.Steps = append(c.Steps, st)
	}
	return c
}

// TestHistories: long random histories with a bounded (evicting) cache, POST and GET.
func TestHistories(t *testing.T) {
	vfrun.Run(t, vfrun.Prop[Case]{Property: "C15", Name: "TestHistories", Gen: genHistory, Check: check}, vfrun.N(3000, 800000))
}
