package c16

import (
	"context"
	"fmt"
	"github.com/vektah/gqlparser/v2/gqlerror"
	"sort"
	"strconv"
	"strings"
	"sync/atomic"
	"testing"

	"github.com/99designs/gqlgen/graphql"
	"github.com/99designs/gqlgen/graphql/executor"
	"github.com/99designs/gqlgen/graphql/handler/extension"
	"github.com/vektah/gqlparser/v2"
	"github.com/vektah/gqlparser/v2/ast"
	"github.com/vektah/gqlparser/v2/parser"
	"pgregory.net/rapid"

	"vh/proj"
	"vh/sdlgen"
	"vh/strictjson"
	"vh/vfrun"
)

type Case struct {
	Files    map[string]string `json:"files"`
	Shape    string            `json:"shape"` // standard aliased by-variable
	Disabled bool              `json:"disabled"`
}

// the query, written with a key prefix so that the aliased shape is the same text with aliases
func introspectionQuery(px string) string {
	k := func(f string) string {
		if px == "" {
			return f
		}
		return px + f + ": " + f
	}
	typeRef := k("kind") + " " + k("name") + " " + k("ofType") + " { " + k("kind") + " " + k("name") + " " + k("ofType") + " { " + k("kind") + " " + k("name") + " " + k("ofType") + " { " + k("kind") + " " + k("name") + " " + k("ofType") + " { " + k("kind") + " " + k("name") + " " + k("ofType") + " { " + k("kind") + " " + k("name") + " } } } } }"
	inputValue := k("name") + " " + k("description") + " " + k("type") + " { ...TypeRef } " + k("defaultValue") + " " + k("isDeprecated") + " " + k("deprecationReason")
	fullType := k("kind") + " " + k("name") + " " + k("description") + " " +
		strings.Replace(k("fields"), "fields", "fields(includeDeprecated: true)", -1)[len(k("fields"))-len("fields"):] + " "
	_ = fullType
	f := func(name, args string) string {
		if px == "" {
			return name + args
		}
		return px + name + ": " + name + args
	}
	full := k("kind") + " " + k("name") + " " + k("description") + " " +
		f("fields", "(includeDeprecated: true)") + " { " + k("name") + " " + k("description") + " " + f("args", "(includeDeprecated: true)") + " { ...InputValue } " + k("type") + " { ...TypeRef } " + k("isDeprecated") + " " + k("deprecationReason") + " } " +
		f("inputFields", "(includeDeprecated: true)") + " { ...InputValue } " +
		k("interfaces") + " { ...TypeRef } " +
		f("enumValues", "(includeDeprecated: true)") + " { " + k("name") + " " + k("description") + " " + k("isDeprecated") + " " + k("deprecationReason") + " } " +
		k("possibleTypes") + " { ...TypeRef }"
	q := "query Introspect { " + k("__schema") + " { " + k("queryType") + " { " + k("name") + " } " + k("mutationType") + " { " + k("name") + " } " + k("subscriptionType") + " { " + k("name") + " } " +
		k("types") + " { ...FullType } " +
		k("directives") + " { " + k("name") + " " + k("description") + " " + k("locations") + " " + k("isRepeatable") + " " + f("args", "(includeDeprecated: true)") + " { ...InputValue } } } }\n"
	q += "fragment FullType on __Type { " + full + " }\n"
	q += "fragment InputValue on __InputValue { " + inputValue + " }\n"
	q += "fragment TypeRef on __Type { " + typeRef + " }\n"
	return q
}

var (
	baseProj *proj.Project
)

func project() *proj.Project {
	if baseProj == nil {
		ps := proj.Vectors("core")
		if len(ps) > 0 {
			baseProj = ps[0]
		}
	}
	return baseProj
}

func load(files map[string]string) (*ast.Schema, error) {
	var names []string
	for n := range files {
		names = append(names, n)
	}
	sort.Strings(names)
	var srcs []*ast.Source
	for _, n := range names {
		srcs = append(srcs, &ast.Source{Name: n, Input: files[n]})
	}
	s, err := gqlparser.LoadSchema(srcs...)
	if err != nil {
		return nil, err
	}
	return s, nil
}

// disableAgain is an extension registered after extension.Introspection that switches introspection
// off again for the request (the usual way to restrict it to some callers).
type disableAgain struct{}

func (disableAgain) ExtensionName() string                   { return "DisableAgain" }
func (disableAgain) Validate(graphql.ExecutableSchema) error { return nil }
func (disableAgain) MutateOperationContext(ctx context.Context, rc *graphql.OperationContext) *gqlerror.Error {
	rc.DisableIntrospection = true
	return nil
}

// guardMode: disabled servers are built in one of two ways - no introspection extension at all, or
// extension.Introspection followed by an extension that disables it again.
var guardMode atomic.Int64

func run(es graphql.ExecutableSchema, enabled bool, query string, vars map[string]any) (*graphql.Response, bool) {
	ex := executor.New(es)
	if enabled {
		ex.Use(extension.Introspection{})
	} else if guardMode.Add(1)%2 == 0 {
		ex.Use(extension.Introspection{})
		ex.Use(disableAgain{})
	}
	ctx := graphql.StartOperationTrace(context.Background())
	rc, errs := ex.CreateOperationContext(ctx, &graphql.RawParams{Query: query, Variables: vars})
	if errs != nil {
		return ex.DispatchError(graphql.WithOperationContext(ctx, rc), errs), true
	}
	rh, ctx2 := ex.DispatchOperation(ctx, rc)
	return rh(ctx2), false
}

type reader struct{ px string }

func (r reader) get(v *strictjson.Value, f string) *strictjson.Value {
	if v == nil {
		return nil
	}
	return v.Get(r.px + f)
}

func (r reader) str(v *strictjson.Value, f string) (string, bool) {
	x := r.get(v, f)
	if x == nil || x.Kind != strictjson.String {
		return "", false
	}
	return x.Str, true
}

// typeRef renders an introspected type reference back to GraphQL type syntax.
func (r reader) typeRef(v *strictjson.Value) string {
	if v == nil || v.Kind != strictjson.Object {
		return "<nil>"
	}
	kind, _ := r.str(v, "kind")
	switch kind {
	case "NON_NULL":
		return r.typeRef(r.get(v, "ofType")) + "!"
	case "LIST":
		return "[" + r.typeRef(r.get(v, "ofType")) + "]"
	}
	n, _ := r.str(v, "name")
	return n
}

func descOf(r reader, v *strictjson.Value) string {
	s, _ := r.str(v, "description")
	return s
}

// sameConst compares a printed default value with the schema's default by re-parsing it as a
// GraphQL const value.
func sameConst(printed string, want *ast.Value) (bool, string) {
	doc, err := parser.ParseQuery(&ast.Source{Input: "{ f(a: " + printed + ") }"})
	if err != nil {
		return false, "not a GraphQL value: " + err.Error()
	}
	got := doc.Operations[0].SelectionSet[0].(*ast.Field).Arguments[0].Value
	if !sameValue(got, want) {
		return false, fmt.Sprintf("parses to %s, schema has %s", got.String(), want.String())
	}
	return true, ""
}

func sameValue(a, b *ast.Value) bool {
	if a == nil || b == nil {
		return a == b
	}
	ak, bk := a.Kind, b.Kind
	if ak == ast.BlockValue {
		ak = ast.StringValue
	}
	if bk == ast.BlockValue {
		bk = ast.StringValue
	}
	if ak != bk {
		return false
	}
	switch ak {
	case ast.ListValue:
		if len(a.Children) != len(b.Children) {
			return false
		}
		for i := range a.Children {
			if !sameValue(a.Children[i].Value, b.Children[i].Value) {
				return false
			}
		}
		return true
	case ast.ObjectValue:
		if len(a.Children) != len(b.Children) {
			return false
		}
		for _, ac := range a.Children {
			found := false
			for _, bc := range b.Children {
				if ac.Name == bc.Name && sameValue(ac.Value, bc.Value) {
					found = true
				}
			}
			if !found {
				return false
			}
		}
		return true
	}
	return a.Raw == b.Raw
}

func exoticString(v *ast.Value) bool {
	if v == nil {
		return false
	}
	if v.Kind == ast.StringValue || v.Kind == ast.BlockValue {
		for _, r := range v.Raw {
			if r < 0x20 && r != '\n' && r != '\t' && r != '\r' || r == 0x7f {
				return true
			}
		}
	}
	for _, c := range v.Children {
		if exoticString(c.Value) {
			return true
		}
	}
	return false
}

func deprecationOf(dirs ast.DirectiveList) (bool, string) {
	d := dirs.ForName("deprecated")
	if d == nil {
		return false, ""
	}
	if a := d.Arguments.ForName("reason"); a != nil && a.Value != nil {
		return true, a.Value.Raw
	}
	return true, "No longer supported"
}

func (r reader) checkDeprecation(v *strictjson.Value, dirs ast.DirectiveList, what string, keyIfWrong string) *vfrun.Failure {
	wantDep, wantReason := deprecationOf(dirs)
	isDep := r.get(v, "isDeprecated")
	if isDep == nil || isDep.Kind != strictjson.Bool || isDep.B != wantDep {
		return vfrun.Failf(keyIfWrong, "%s: isDeprecated %v, schema says %v", what, canon(isDep), wantDep)
	}
	reason := r.get(v, "deprecationReason")
	if wantDep {
		if reason == nil || reason.Kind != strictjson.String || reason.Str != wantReason {
			return vfrun.Failf(keyIfWrong, "%s: deprecationReason %v, schema says %q", what, canon(reason), wantReason)
		}
	} else if reason != nil && reason.Kind != strictjson.Null {
		return vfrun.Failf(keyIfWrong, "%s: deprecationReason %v on an element that is not deprecated", what, canon(reason))
	}
	return nil
}

func canon(v *strictjson.Value) string {
	if v == nil {
		return "<absent>"
	}
	return v.Canon()
}

func (r reader) checkInputValues(list *strictjson.Value, defs ast.ArgumentDefinitionList, what, deprKey string) *vfrun.Failure {
	if list == nil || list.Kind != strictjson.Array || len(list.Arr) != len(defs) {
		return vfrun.Failf("introspect.input-values", "%s: %d input values, schema has %d: %s", what, arrLen(list), len(defs), canon(list))
	}
	for i, d := range defs {
		v := list.Arr[i]
		w := what + "." + d.Name
		if n, _ := r.str(v, "name"); n != d.Name {
			return vfrun.Failf("introspect.input-values", "%s: name %q at position %d", w, n, i)
		}
		if descOf(r, v) != d.Description {
			return vfrun.Failf("introspect.description", "%s: description %q, schema %q", w, descOf(r, v), d.Description)
		}
		if tr := r.typeRef(r.get(v, "type")); tr != d.Type.String() {
			return vfrun.Failf("introspect.type-ref", "%s: type %s, schema %s", w, tr, d.Type.String())
		}
		dv := r.get(v, "defaultValue")
		switch {
		case d.DefaultValue == nil:
			if dv != nil && dv.Kind != strictjson.Null {
				return vfrun.Failf("introspect.default-value", "%s: defaultValue %s but the schema has none", w, canon(dv))
			}
		default:
			if dv == nil || dv.Kind != strictjson.String {
				return vfrun.Failf("introspect.default-value", "%s: defaultValue %s, schema %s", w, canon(dv), d.DefaultValue.String())
			}
			if ok, why := sameConst(dv.Str, d.DefaultValue); !ok {
				key := "introspect.default-value"
				if exoticString(d.DefaultValue) {
					key = "introspect.default-go-escapes"
				}
				f := vfrun.Failf(key, "%s: defaultValue %q %s", w, dv.Str, why)
				if !vfrun.IsKnown(key) {
					return f
				}
			}
		}
		if f := r.checkDeprecation(v, d.Directives, w, deprKey); f != nil {
			return f
		}
	}
	return nil
}

func arrLen(v *strictjson.Value) int {
	if v == nil {
		return -1
	}
	return len(v.Arr)
}

func names(r reader, list *strictjson.Value) []string {
	var out []string
	if list == nil {
		return nil
	}
	for _, x := range list.Arr {
		n, _ := r.str(x, "name")
		out = append(out, n)
	}
	sort.Strings(out)
	return out
}

func fieldsToArgs(fl ast.FieldList) ast.ArgumentDefinitionList {
	var out ast.ArgumentDefinitionList
	for _, f := range fl {
		out = append(out, &ast.ArgumentDefinition{Name: f.Name, Description: f.Description, Type: f.Type, DefaultValue: f.DefaultValue, Directives: f.Directives})
	}
	return out
}

func (r reader) checkType(schema *ast.Schema, v *strictjson.Value, def *ast.Definition) *vfrun.Failure {
	w := "type " + def.Name
	if k, _ := r.str(v, "kind"); k != string(def.Kind) {
		return vfrun.Failf("introspect.kind", "%s: kind %q, schema %s", w, k, def.Kind)
	}
	if descOf(r, v) != def.Description {
		return vfrun.Failf("introspect.description", "%s: description %q, schema %q", w, descOf(r, v), def.Description)
	}
	// fields
	fl := r.get(v, "fields")
	if def.Kind == ast.Object || def.Kind == ast.Interface {
		var want ast.FieldList
		for _, f := range def.Fields {
			if !strings.HasPrefix(f.Name, "__") {
				want = append(want, f)
			}
		}
		if fl == nil || fl.Kind != strictjson.Array || len(fl.Arr) != len(want) {
			return vfrun.Failf("introspect.fields", "%s: %d fields, schema has %d", w, arrLen(fl), len(want))
		}
		for i, f := range want {
			fv := fl.Arr[i]
			fw := w + "." + f.Name
			if n, _ := r.str(fv, "name"); n != f.Name {
				return vfrun.Failf("introspect.fields", "%s: name %q at position %d", fw, n, i)
			}
			if descOf(r, fv) != f.Description {
				return vfrun.Failf("introspect.description", "%s: description %q, schema %q", fw, descOf(r, fv), f.Description)
			}
			if tr := r.typeRef(r.get(fv, "type")); tr != f.Type.String() {
				return vfrun.Failf("introspect.type-ref", "%s: type %s, schema %s", fw, tr, f.Type.String())
			}
			if ff := r.checkDeprecation(fv, f.Directives, fw, "introspect.field-deprecation"); ff != nil {
				return ff
			}
			if ff := r.checkInputValues(r.get(fv, "args"), f.Arguments, fw, "introspect.arg-deprecation-from-field"); ff != nil {
				return ff
			}
		}
	} else if fl != nil && fl.Kind != strictjson.Null && len(fl.Arr) > 0 {
		return vfrun.Failf("introspect.fields", "%s: fields on a %s", w, def.Kind)
	}
	// input fields
	if def.Kind == ast.InputObject {
		if ff := r.checkInputValues(r.get(v, "inputFields"), fieldsToArgs(def.Fields), w, "introspect.input-field-deprecation"); ff != nil {
			return ff
		}
	}
	// interfaces
	if def.Kind == ast.Object || def.Kind == ast.Interface {
		got := names(r, r.get(v, "interfaces"))
		want := append([]string(nil), def.Interfaces...)
		sort.Strings(want)
		if strings.Join(got, ",") != strings.Join(want, ",") {
			key := "introspect.interfaces"
			if def.Kind == ast.Interface {
				key = "introspect.interface-interfaces-empty"
			}
			return vfrun.Failf(key, "%s: interfaces %v, schema %v", w, got, want)
		}
	}
	// possible types: the object types of an abstract type
	if def.Kind == ast.Interface || def.Kind == ast.Union {
		got := names(r, r.get(v, "possibleTypes"))
		var want []string
		for _, p := range schema.GetPossibleTypes(def) {
			if p.Kind == ast.Object {
				want = append(want, p.Name)
			}
		}
		sort.Strings(want)
		if strings.Join(got, ",") != strings.Join(want, ",") {
			return vfrun.Failf("introspect.possible-types", "%s: possibleTypes %v, the object types implementing it are %v", w, got, want)
		}
	}
	// enum values
	if def.Kind == ast.Enum {
		ev := r.get(v, "enumValues")
		if ev == nil || len(ev.Arr) != len(def.EnumValues) {
			return vfrun.Failf("introspect.enum-values", "%s: %d enum values, schema has %d", w, arrLen(ev), len(def.EnumValues))
		}
		for i, e := range def.EnumValues {
			x := ev.Arr[i]
			if n, _ := r.str(x, "name"); n != e.Name {
				return vfrun.Failf("introspect.enum-values", "%s: value %q at position %d, schema %q", w, n, i, e.Name)
			}
			if descOf(r, x) != e.Description {
				return vfrun.Failf("introspect.description", "%s.%s: description", w, e.Name)
			}
			if ff := r.checkDeprecation(x, e.Directives, w+"."+e.Name, "introspect.enum-value-deprecation"); ff != nil {
				return ff
			}
		}
	}
	return nil
}

func check(c Case) *vfrun.Failure {
	p := project()
	if p == nil {
		return vfrun.Failf("harness.no-project", "core not linked")
	}
	schema, err := load(c.Files)
	if err != nil {
		return vfrun.Failf("harness.invalid-schema", "%v", err)
	}
	es := p.NewSchema(schema)
	if c.Disabled {
		return checkDisabled(c, es, schema)
	}
	px := ""
	if c.Shape == "aliased" {
		px = "k_"
	}
	r := reader{px}
	resp, rejected := run(es, true, introspectionQuery(px), nil)
	if rejected || len(resp.Errors) > 0 {
		return vfrun.Failf("introspect.query-failed", "introspection query failed: %v", resp.Errors)
	}
	data, perr := strictjson.Parse(resp.Data)
	if perr != nil {
		return vfrun.Failf("introspect.not-json", "%v", perr)
	}
	sv := r.get(data, "__schema")
	if sv == nil || sv.Kind != strictjson.Object {
		return vfrun.Failf("introspect.no-schema", "%s", canon(data))
	}
	rootName := func(f string) string { n, _ := r.str(r.get(sv, f), "name"); return n }
	defName := func(d *ast.Definition) string {
		if d == nil {
			return ""
		}
		return d.Name
	}
	if rootName("queryType") != defName(schema.Query) || rootName("mutationType") != defName(schema.Mutation) || rootName("subscriptionType") != defName(schema.Subscription) {
		return vfrun.Failf("introspect.roots", "root types %q %q %q", rootName("queryType"), rootName("mutationType"), rootName("subscriptionType"))
	}
	types := r.get(sv, "types")
	if types == nil || types.Kind != strictjson.Array {
		return vfrun.Failf("introspect.types", "no types")
	}
	seen := map[string]bool{}
	for _, tv := range types.Arr {
		n, _ := r.str(tv, "name")
		def := schema.Types[n]
		if def == nil {
			return vfrun.Failf("introspect.types", "type %q is not in the schema", n)
		}
		if seen[n] {
			return vfrun.Failf("introspect.types", "type %q listed twice", n)
		}
		seen[n] = true
		var f *vfrun.Failure
		if c.Shape == "by-variable" {
			// the same type fetched through __type(name: $n) must agree
			q := "query($n: String!) { __type(name: $n) { ...FullType } }\n" + strings.SplitN(introspectionQuery(""), "\n", 2)[1]
			r2, rej := run(es, true, q, map[string]any{"n": n})
			if rej || len(r2.Errors) > 0 {
				return vfrun.Failf("introspect.query-failed", "__type(name: %q) failed: %v", n, r2.Errors)
			}
			d2, perr := strictjson.Parse(r2.Data)
			if perr != nil {
				return vfrun.Failf("introspect.not-json", "%v", perr)
			}
			f = reader{""}.checkType(schema, d2.Get("__type"), def)
		} else {
			f = r.checkType(schema, tv, def)
		}
		if f != nil {
			if vfrun.IsKnown(f.Key) {
				continue
			}
			return f
		}
	}
	for n := range schema.Types {
		if !seen[n] {
			return vfrun.Failf("introspect.types", "schema type %q is missing from __schema.types", n)
		}
	}
	// directives
	dv := r.get(sv, "directives")
	seenD := map[string]bool{}
	for _, x := range dv.Arr {
		n, _ := r.str(x, "name")
		d := schema.Directives[n]
		if d == nil {
			return vfrun.Failf("introspect.directives", "directive %q is not in the schema", n)
		}
		seenD[n] = true
		if descOf(r, x) != d.Description {
			return vfrun.Failf("introspect.description", "directive %s: description %q, schema %q", n, descOf(r, x), d.Description)
		}
		var got, want []string
		for _, l := range r.get(x, "locations").Arr {
			got = append(got, l.Str)
		}
		for _, l := range d.Locations {
			want = append(want, string(l))
		}
		sort.Strings(got)
		sort.Strings(want)
		if strings.Join(got, ",") != strings.Join(want, ",") {
			return vfrun.Failf("introspect.directives", "directive %s: locations %v, schema %v", n, got, want)
		}
		if rep := r.get(x, "isRepeatable"); rep == nil || rep.B != d.IsRepeatable {
			return vfrun.Failf("introspect.directive-repeatable", "directive %s: isRepeatable %s, schema %v", n, canon(rep), d.IsRepeatable)
		}
		if f := r.checkInputValues(r.get(x, "args"), d.Arguments, "directive @"+n, "introspect.directive-arg-deprecation"); f != nil {
			if !vfrun.IsKnown(f.Key) {
				return f
			}
		}
	}
	for n := range schema.Directives {
		if !seenD[n] {
			return vfrun.Failf("introspect.directives", "schema directive %q is missing", n)
		}
	}
	return nil
}

// checkDisabled: with introspection disabled, every way of reaching __schema / __type is null with
// an error, and no schema type name appears in the data.
func checkDisabled(c Case, es graphql.ExecutableSchema, schema *ast.Schema) *vfrun.Failure {
	var someType string
	for n, d := range schema.Types {
		if !d.BuiltIn && d.Kind == ast.Object && n != "Query" {
			someType = n
		}
	}
	queries := []struct {
		q    string
		vars map[string]any
		keys []string
	}{
		{"{ __schema { types { name } } }", nil, []string{"__schema"}},
		{"{ x: __schema { queryType { name fields { name } } } }", nil, []string{"x"}},
		{"query($n: String!) { t: __type(name: $n) { name kind fields { name type { name } } } }", map[string]any{"n": someType}, []string{"t"}},
		{"{ ...F } fragment F on Query { a: __schema { directives { name } } b: __type(name: \"Query\") { name } }", nil, []string{"a", "b"}},
		{"{ ... on Query { ... { s: __schema { types { name description } } } } }", nil, []string{"s"}},
		{introspectionQuery("z_"), nil, []string{"z___schema"}},
		// names that are not types of the schema are answered like the others: whether a name exists
		// is part of what stays hidden
		{"{ k0: __type(name: \"NoSuchType\") { name } k1: __type(name: \"\") { name } k2: __type(name: \"String\") { name } k3: __type(name: \"__Schema\") { name } k4: __type(name: " + strconv.Quote(someType) + ") { name } }", nil, []string{"k0", "k1", "k2", "k3", "k4"}},
		{"query($n: String!, $m: String!) { u: __type(name: $n) { name kind } ...G } fragment G on Query { w: __type(name: $m) { name } }", map[string]any{"n": "NoSuchType", "m": someType + "x"}, []string{"u", "w"}},
	}
	for _, q := range queries {
		resp, _ := run(es, false, q.q, q.vars)
		if len(resp.Errors) == 0 {
			return vfrun.Failf("introspect.disabled-no-error", "introspection disabled, query %q answered without error: %s", q.q, resp.Data)
		}
		if len(resp.Data) > 0 && string(resp.Data) != "null" {
			data, perr := strictjson.Parse(resp.Data)
			if perr != nil {
				return vfrun.Failf("introspect.not-json", "%v", perr)
			}
			for _, k := range q.keys {
				if v := data.Get(k); v != nil && v.Kind != strictjson.Null {
					return vfrun.Failf("introspect.disabled-leak", "introspection disabled, query %q: %s is %s", q.q, k, v.Canon())
				}
			}
		}
		// each hidden field is null *with an error* of its own
		for _, k := range q.keys {
			found := false
			for _, ge := range resp.Errors {
				if len(ge.Path) > 0 {
					if n, ok := ge.Path[0].(ast.PathName); ok && string(n) == k {
						found = true
					}
				}
			}
			if !found {
				return vfrun.Failf("introspect.disabled-field-without-error", "introspection disabled, query %q variables %v: no error for %s; errors %v data %s", q.q, q.vars, k, resp.Errors, resp.Data)
			}
		}
		if len(resp.Data) > 0 && string(resp.Data) != "null" {
			data, _ := strictjson.Parse(resp.Data)
			if data == nil {
				continue
			}
			txt := string(resp.Data)
			for n, d := range schema.Types {
				if !d.BuiltIn && len(n) > 2 && strings.Contains(txt, `"`+n+`"`) {
					return vfrun.Failf("introspect.disabled-leak", "introspection disabled, query %q: data mentions type %q: %s", q.q, n, txt)
				}
			}
		}
	}
	vfrun.Label("disabled")
	return nil
}

func gen(t *rapid.T) Case {
	s := sdlgen.Generate(t, sdlgen.Options{Files: rapid.IntRange(1, 2).Draw(t, "files"), Roots: true, ExoticDefaults: true, RichDirectiveArgs: true, DeprecatedInputs: true, MaxTypes: 12})
	c := Case{Files: s.Files, Shape: rapid.SampledFrom([]string{"standard", "standard", "aliased", "by-variable"}).Draw(t, "shape"), Disabled: rapid.IntRange(0, 4).Draw(t, "disabled") == 0}
	schema, err := load(c.Files)
	if err != nil {
		vfrun.Label("generated-schema-invalid(dropped)")
		t.Skip("generated schema is invalid: " + err.Error())
	}
	_ = schema
	for k, v := range s.Features {
		if v {
			vfrun.Label("schema:" + k)
		}
	}
	if s.Features["deprecated-argument"] || s.Features["deprecated-input-field"] {
		if s.Features["interface-implements-interface"] || s.Features["object-default"] {
			vfrun.NonTrivial(s.SDL() + c.Shape)
		}
	}
	vfrun.SampleCat(c.Shape, map[string]any{"shape": c.Shape, "disabled": c.Disabled, "sdl": s.SDL()})
	return c
}

func TestIntrospection(t *testing.T) {
	vfrun.Run(t, vfrun.Prop[Case]{Property: "C16", Name: "TestIntrospection", Gen: gen, Check: check}, vfrun.N(1200, 200000))
}
