package c16

import (
	"fmt"
	"strings"
	"testing"

	"github.com/vektah/gqlparser/v2/ast"
	"pgregory.net/rapid"

	"vh/kit"
	"vh/proj"
	"vh/strictjson"
	"vh/vfrun"
)

// The federation service field is part of what introspection reveals: `_service { sdl }` returns the
// schema when introspection is enabled and is null with an error when it is disabled - whatever was
// asked before on the same server, through aliases, fragments and variables.

type SvcStep struct {
	Enabled bool `json:"enabled"`
	Shape   int  `json:"shape"`
}

type SvcCase struct {
	Project string    `json:"project"`
	Steps   []SvcStep `json:"steps"`
}

var svcShapes = []struct {
	q    string
	vars map[string]any
	key  string
}{
	{"{ _service { sdl } }", nil, "_service"},
	{"{ x: _service { sdl } }", nil, "x"},
	{"{ ...F } fragment F on Query { s: _service { sdl } }", nil, "s"},
	{"query($b: Boolean!) { v: _service @include(if: $b) { sdl } }", map[string]any{"b": true}, "v"},
	{"{ ... on Query { ... { w: _service { s2: sdl } } } }", nil, "w"},
}

func checkService(c SvcCase) *vfrun.Failure {
	ss, err := kit.Servers(c.Project)
	if err != nil {
		return vfrun.Failf("harness.no-project", "%v", err)
	}
	for _, s := range ss {
		if f := checkServiceOn(c, s); f != nil {
			return f
		}
	}
	return nil
}

func checkServiceOn(c SvcCase, s *proj.Server) *vfrun.Failure {
	sawEnabledBeforeDisabled := false
	enabledSeen := false
	for i, st := range c.Steps {
		sh := svcShapes[st.Shape]
		resp, rejected := run(s.ES, st.Enabled, sh.q, sh.vars)
		vfrun.Eval()
		desc := fmt.Sprintf("[%s/%s] step %d of %+v: introspection enabled=%v %q", c.Project, s.P.Vec, i, c.Steps, st.Enabled, sh.q)
		if rejected {
			return vfrun.Failf("harness.service-query-rejected", "%s: %v", desc, resp.Errors)
		}
		var field *strictjson.Value
		if len(resp.Data) > 0 && string(resp.Data) != "null" {
			data, perr := strictjson.Parse(resp.Data)
			if perr != nil {
				return vfrun.Failf("introspect.not-json", "%s: %v", desc, perr)
			}
			field = data.Get(sh.key)
		}
		if st.Enabled {
			enabledSeen = true
			if field == nil || field.Kind != strictjson.Object || len(field.Vals) != 1 || field.Vals[0].Kind != strictjson.String || !strings.Contains(field.Vals[0].Str, "type User") {
				return vfrun.Failf("introspect.service-sdl-missing", "%s: answered %s errors %v", desc, resp.Data, resp.Errors)
			}
			continue
		}
		if enabledSeen {
			sawEnabledBeforeDisabled = true
		}
		if field != nil && field.Kind != strictjson.Null {
			return vfrun.Failf("introspect.disabled-leak", "%s: the service field is %s", desc, field.Canon())
		}
		if strings.Contains(string(resp.Data), "type User") {
			return vfrun.Failf("introspect.disabled-leak", "%s: data carries the SDL: %s", desc, resp.Data)
		}
		found := false
		for _, ge := range resp.Errors {
			if len(ge.Path) > 0 {
				if n, ok := ge.Path[0].(ast.PathName); ok && string(n) == sh.key {
					found = true
				}
			}
		}
		if !found {
			return vfrun.Failf("introspect.disabled-field-without-error", "%s: no error for %s; errors %v data %s", desc, sh.key, resp.Errors, resp.Data)
		}
	}
	vfrun.Label("service-field")
	if sawEnabledBeforeDisabled {
		vfrun.Label("service-field:disabled-after-enabled")
		vfrun.NonTrivial(fmt.Sprintf("%s %+v", c.Project, c.Steps))
	}
	return nil
}

func genService(t *rapid.T) SvcCase {
	var projects []string
	for _, n := range proj.Names() {
		if strings.HasPrefix(n, "fed") {
			projects = append(projects, n)
		}
	}
	if len(projects) == 0 {
		t.Skip("no federation project linked")
	}
	c := SvcCase{Project: rapid.SampledFrom(projects).Draw(t, "project")}
	n := rapid.IntRange(1, 6).Draw(t, "nsteps")
	for i := 0; i < n; i++ {
		c.Steps = append(c.Steps, SvcStep{Enabled: rapid.Bool().Draw(t, "enabled"), Shape: rapid.IntRange(0, len(svcShapes)-1).Draw(t, "shape")})
	}
	return c
}

func TestFederationService(t *testing.T) {
	has := false
	for _, n := range proj.Names() {
		if strings.HasPrefix(n, "fed") {
			has = true
		}
	}
	if !has {
		t.Skip("no federation project linked")
	}
	vfrun.Run(t, vfrun.Prop[SvcCase]{Property: "C16", Name: "TestFederationService", Gen: genService, Check: checkService}, vfrun.N(400, 40000))
}
