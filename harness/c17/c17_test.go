package c17

import (
	"bytes"
	"fmt"
	"os"
	"os/exec"
	"path/filepath"
	"sort"
	"strings"
	"sync/atomic"
	"testing"

	"github.com/vektah/gqlparser/v2"
	"github.com/vektah/gqlparser/v2/ast"
	"pgregory.net/rapid"

	"vh/cfggen"
	"vh/sdlgen"
	"vh/vfrun"
)

type Case struct {
	Files  map[string]string `json:"files"`
	Config cfggen.Config     `json:"config"`
	// UserModel: add an object type bound to a hand-written Go struct whose fields are shared by
	// several schema fields (fieldName aliases, names differing only in case)
	UserModel bool `json:"user_model,omitempty"`
	AutoBind  bool `json:"autobind,omitempty"`
	// SelfAutobind: autobind lists the package the models are generated into; Again: generation is run
	// a second time in the tree it produced
	// UserModelDir: directory of the user's model package (package um); "" = um. Go packages are
	// often named by the tail of their directory (go-um, myum)
	UserModelDir string `json:"user_model_dir,omitempty"`
	// BoundEnums: enums bound to Go constants of the user's model package through @goModel/@goEnum
	BoundEnums   bool `json:"bound_enums,omitempty"`
	SelfAutobind bool `json:"self_autobind,omitempty"`
	Again        bool `json:"again,omitempty"`
	// MapInput: this input object type is bound to map[string]interface{}
	MapInput string `json:"map_input,omitempty"`
}

var seq atomic.Int64

func loadSchema(files map[string]string) (*ast.Schema, error) {
	var names []string
	for n := range files {
		names = append(names, n)
	}
	sort.Strings(names)
	var srcs []*ast.Source
	for _, n := range names {
		srcs = append(srcs, &ast.Source{Name: n, Input: files[n]})
	}
	return gqlparser.LoadSchema(srcs...)
}

func runCmd(dir string, name string, args ...string) (string, error) {
	cmd := exec.Command(name, args...)
	cmd.Dir = dir
	var out bytes.Buffer
	cmd.Stdout, cmd.Stderr = &out, &out
	err := cmd.Run()
	return out.String(), err
}

// Generate writes the project into a fresh package directory of the scratch module, runs the
// generator and type-checks the result. It returns the directory for further inspection.
func Generate(c Case, keep bool) (dir string, f *vfrun.Failure) {
	work := os.Getenv("VF_WORK")
	if work == "" {
		return "", vfrun.Failf("harness.env", "VF_WORK not set")
	}
	pkg := c.Config.Package
	dir = filepath.Join(work, "h", "gen17", fmt.Sprintf("s%dn%d", vfrun.Shard(), seq.Add(1)), pkg)
	if err := os.MkdirAll(dir, 0o755); err != nil {
		return "", vfrun.Failf("harness.io", "%v", err)
	}
	if !keep {
		defer os.RemoveAll(filepath.Dir(dir))
	}
	for n, content := range c.Files {
		_ = os.MkdirAll(filepath.Dir(filepath.Join(dir, n)), 0o755)
		_ = os.WriteFile(filepath.Join(dir, n), []byte(content), 0o644)
	}
	if c.UserModel {
		// an object bound to a user-written Go type, with several schema fields mapped to the same Go
		// field (models.<T>.fields.<f>.fieldName) - the documented way to alias a field
		rel, _ := filepath.Rel(filepath.Join(work, "h"), dir)
		umDir := c.UserModelDir
		if umDir == "" {
			umDir = "um"
		}
		imp := "vh/" + filepath.ToSlash(rel) + "/" + umDir
		_ = os.MkdirAll(filepath.Join(dir, umDir), 0o755)
		if c.BoundEnums {
			// enums bound to the user's own Go constants with @goModel / @goEnum (recipe "Enum
			// binding"): two typed ones and an untyped one, beside whatever enums the schema has
			_ = os.WriteFile(filepath.Join(dir, umDir, "enums.go"), []byte("package um\n\ntype Color int\n\nconst (\n\tColorRed Color = iota + 1\n\tColorGreen\n)\n\ntype Size string\n\nconst (\n\tSizeS Size = \"s\"\n\tSizeL Size = \"l\"\n)\n\nconst (\n\tLevelLow = iota + 1\n\tLevelHigh\n)\n"), 0o644)
			_ = os.WriteFile(filepath.Join(dir, "zz_enums.graphqls"), []byte("directive @goModel(model: String, models: [String!]) on OBJECT | INPUT_OBJECT | SCALAR | ENUM | INTERFACE | UNION\n\ndirective @goEnum(value: String) on ENUM_VALUE\n\nenum VhColor @goModel(model: \""+imp+".Color\") {\n  RED @goEnum(value: \""+imp+".ColorRed\")\n  GREEN @goEnum(value: \""+imp+".ColorGreen\")\n}\n\nenum VhSize @goModel(model: \""+imp+".Size\") {\n  S @goEnum(value: \""+imp+".SizeS\")\n  L @goEnum(value: \""+imp+".SizeL\")\n}\n\nenum VhLevel @goModel(model: \"github.com/99designs/gqlgen/graphql.Int\") {\n  LOW @goEnum(value: \""+imp+".LevelLow\")\n  HIGH @goEnum(value: \""+imp+".LevelHigh\")\n}\n\nenum VhPlain {\n  ONE\n  TWO\n}\n\nextend type Query {\n  vhColor(in: VhSize, lv: VhLevel): VhColor\n  vhPlain: VhPlain\n}\n"), 0o644)
		}
		_ = os.WriteFile(filepath.Join(dir, umDir, "um.go"), []byte("package um\n\n// VhOverlap is a hand-written model.\ntype VhOverlap struct {\n\tA     *string\n\tB     int\n\tUpper *string\n}\n"), 0o644)
		_ = os.WriteFile(filepath.Join(dir, "zz_user.graphqls"), []byte("type VhOverlap {\n  a: String\n  aAlias: String\n  b: Int!\n  bAlias: Int!\n  upper: String\n  UPPER: String\n}\n\nextend type Query {\n  vhOverlap: VhOverlap\n}\n"), 0o644)
		if c.AutoBind {
			// bound by name through autobind; the models entry only carries the field aliases
			c.Config.ExtraModels = "  VhOverlap:\n    fields:\n      aAlias:\n        fieldName: a\n      bAlias:\n        fieldName: b\n"
			if c.Config.Extra == nil {
				c.Config.Extra = map[string]string{}
			}
			c.Config.Extra["autobind"] = "[\"" + imp + "\"]"
		} else {
			c.Config.ExtraModels = "  VhOverlap:\n    model: " + imp + ".VhOverlap\n    fields:\n      aAlias:\n        fieldName: a\n      bAlias:\n        fieldName: b\n"
		}
	}
	if c.MapInput != "" {
		// an input object bound to a map (the documented recipe for "which fields were sent")
		c.Config.ExtraModels += "  " + c.MapInput + ":\n    model: \"map[string]interface{}\"\n"
	}
	if c.SelfAutobind {
		// autobind names the package the models are generated into (as gqlgen's own init template
		// and its default test project do): on a second run the previous models_gen.go is there
		rel, _ := filepath.Rel(filepath.Join(work, "h"), dir)
		self := "vh/" + filepath.ToSlash(rel)
		// the package has to exist before the first run (a user's project has a file of its own there)
		if c.Config.SplitModel {
			self += "/model"
			_ = os.MkdirAll(filepath.Join(dir, "model"), 0o755)
			_ = os.WriteFile(filepath.Join(dir, "model", "doc.go"), []byte("// Package model holds the user's own models beside the generated ones.\npackage model\n"), 0o644)
		} else {
			_ = os.WriteFile(filepath.Join(dir, "doc.go"), []byte("// Package "+c.Config.Package+" holds the user's own code beside the generated one.\npackage "+c.Config.Package+"\n"), 0o644)
		}
		if c.Config.Extra == nil {
			c.Config.Extra = map[string]string{}
		}
		if cur := c.Config.Extra["autobind"]; cur != "" {
			c.Config.Extra["autobind"] = strings.TrimSuffix(cur, "]") + ", \"" + self + "\"]"
		} else {
			c.Config.Extra["autobind"] = "[\"" + self + "\"]"
		}
	}
	_ = os.WriteFile(filepath.Join(dir, "gqlgen.yml"), []byte(c.Config.YAML()), 0o644)
	tool := filepath.Join(work, "gqlgen-gen")
	out, err := runCmd(dir, tool, "-config", "gqlgen.yml", "-stub", "stub.go")
	desc := func() string {
		var sb strings.Builder
		sb.WriteString("gqlgen.yml:\n" + c.Config.YAML() + "\n")
		var names []string
		for n := range c.Files {
			names = append(names, n)
		}
		sort.Strings(names)
		for _, n := range names {
			sb.WriteString("# " + n + "\n" + c.Files[n] + "\n")
		}
		return sb.String()
	}
	if err != nil {
		key := "generate.failed"
		switch {
		case strings.Contains(out, "panic:") || strings.Contains(out, "goroutine "):
			key = "generate.panic"
		}
		return dir, vfrun.Failf(key, "generation failed: %v\n%s\n%s", err, tail(out, 3000), desc())
	}
	if out2, err := runCmd(dir, "go", "build", "-trimpath", "./..."); err != nil {
		return dir, vfrun.Failf("generate.does-not-compile", "generated code does not compile:\n%s\n%s", tail(out2, 3000), desc())
	}
	if out3, err := runCmd(dir, "go", "vet", "./..."); err != nil {
		return dir, vfrun.Failf("generate.vet", "go vet of the generated code fails:\n%s\n%s", tail(out3, 3000), desc())
	}
	if c.Again {
		// generation is something users repeat: on the tree it produced itself it has to finish and
		// compile just the same
		out, err := runCmd(dir, tool, "-config", "gqlgen.yml", "-stub", "stub.go")
		if err != nil {
			key := "generate.second-run-failed"
			if strings.Contains(out, "panic:") || strings.Contains(out, "goroutine ") {
				key = "generate.panic"
			}
			return dir, vfrun.Failf(key, "the second generation in the same tree failed: %v\n%s\n%s", err, tail(out, 3000), desc())
		}
		if out2, err := runCmd(dir, "go", "build", "-trimpath", "./..."); err != nil {
			return dir, vfrun.Failf("generate.does-not-compile", "after the second generation the code does not compile:\n%s\n%s", tail(out2, 3000), desc())
		}
	}
	return dir, nil
}

func tail(s string, n int) string {
	if len(s) > n {
		return "…" + s[len(s)-n:]
	}
	return s
}

// classify maps compile / generation errors of known root causes to their finding keys.
func classify(c Case, f *vfrun.Failure) {
	switch {
	case strings.Contains(f.Msg, "cannot use ec (variable of type executionContext)") || strings.Contains(f.Msg, "cannot use ec (variable of struct type executionContext)"):
		f.Key = "funcsyntax.operation-directive"
	case strings.Contains(f.Msg, "duplicate case") && strings.Contains(f.Msg, "in type switch"):
		f.Key = "bind.colliding-type-names"
	case strings.Contains(f.Msg, "non-unique key") && strings.Contains(f.Msg, "2map"):
		f.Key = "bind.map-backed-input-in-list-and-single"
	case strings.Contains(f.Msg, "invalid recursive type"):
		f.Key = "modelgen.value-struct-fields-recursive-type"
	case strings.Contains(f.Msg, "Middleware redeclared in this block") || (strings.Contains(f.Msg, "Middleware already declared at")):
		f.Key = "followschema.operation-directives-in-two-files"
	case strings.Contains(f.Msg, "Resolver redeclared in this block") && strings.Contains(f.Msg, " _"):
		f.Key = "naming.leading-underscore-type-resolver"
	case c.Config.Bools["omit_resolver_fields"] && strings.Contains(f.Msg, "models_gen.go") && strings.Contains(f.Msg, "undefined (type") && strings.Contains(f.Msg, "has no field or method"):
		f.Key = "modelgen.omit-resolver-fields-interface-getter"
	}
}

func check(c Case) *vfrun.Failure {
	_, f := Generate(c, false)
	if f != nil {
		classify(c, f)
		return f
	}
	return nil
}

func objectFields(schema *ast.Schema) []string {
	var out []string
	var names []string
	for n := range schema.Types {
		names = append(names, n)
	}
	sort.Strings(names)
	for _, n := range names {
		d := schema.Types[n]
		if d.BuiltIn || d.Kind != ast.Object || d == schema.Query || d == schema.Mutation || d == schema.Subscription {
			continue
		}
		for _, f := range d.Fields {
			out = append(out, n+"."+f.Name)
		}
	}
	return out
}

// nonNullObjectCycle: is there a cycle of object (or input object) types linked by non-null,
// non-list fields?
func nonNullObjectCycle(schema *ast.Schema) bool {
	edges := map[string][]string{}
	for n, d := range schema.Types {
		if d.BuiltIn || (d.Kind != ast.Object && d.Kind != ast.InputObject) {
			continue
		}
		for _, f := range d.Fields {
			if f.Type.NonNull && f.Type.Elem == nil {
				if td := schema.Types[f.Type.NamedType]; td != nil && (td.Kind == ast.Object || td.Kind == ast.InputObject) {
					edges[n] = append(edges[n], td.Name)
				}
			}
		}
	}
	state := map[string]int{}
	var visit func(n string) bool
	visit = func(n string) bool {
		switch state[n] {
		case 1:
			return true
		case 2:
			return false
		}
		state[n] = 1
		for _, m := range edges[n] {
			if visit(m) {
				return true
			}
		}
		state[n] = 2
		return false
	}
	var names []string
	for n := range edges {
		names = append(names, n)
	}
	sort.Strings(names)
	for _, n := range names {
		if visit(n) {
			return true
		}
	}
	return false
}

func gen(t *rapid.T) Case {
	hostile := rapid.Bool().Draw(t, "hostile")
	// a sixth of the projects keep their schema files under one base name in different directories
	sameBase := rapid.IntRange(0, 5).Draw(t, "samebase") == 0
	// a third generate their models into a package of their own (the layout of gqlgen's init
	// template); their schemas may name types like exported identifiers of the exec file
	splitModel := rapid.IntRange(0, 2).Draw(t, "splitmodel") == 0
	files := rapid.IntRange(1, 3).Draw(t, "files")
	if sameBase {
		files = rapid.IntRange(2, 3).Draw(t, "files-samebase")
	}
	s := sdlgen.Generate(t, sdlgen.Options{SameBase: sameBase, ExecNames: splitModel, RichDirectiveArgs: true, Files: files, Roots: true, Hostile: hostile, DeprecatedInputs: true, MaxTypes: 12, ExecDirectives: true})
	schema, err := loadSchema(s.Files)
	if err != nil {
		vfrun.Label("generated-schema-invalid(dropped)")
		t.Skip("invalid schema: " + err.Error())
	}
	c := Case{Files: s.Files, Config: cfggen.Draw(t, "gen", objectFields(schema))}
	if splitModel {
		c.Config.SplitModel = true
		vfrun.Label("models-in-own-package")
	}
	if !sameBase && rapid.IntRange(0, 7).Draw(t, "federation") == 0 {
		// a federation subgraph beside the drawn schema's options, with or without explicit_requires
		c.Files = map[string]string{"schema0.graphqls": sdlgen.FederationProbe}
		c.Config.ResolverFields = nil
		c.Config.Federation = []string{}
		if rapid.Bool().Draw(t, "explicit-requires") {
			c.Config.Federation = []string{"explicit_requires"}
		}
		vfrun.Label("federation:" + strings.Join(c.Config.Federation, ","))
		return c
	}
	if sameBase {
		c.Config.SchemaGlob = "./**/*.graphqls"
		vfrun.Label("same-base-name-files:exec:" + c.Config.ExecLayout)
	}
	c.UserModel = rapid.IntRange(0, 2).Draw(t, "usermodel") == 0
	var inputs []string
	for n, d := range schema.Types {
		if d.Kind == ast.InputObject && !d.BuiltIn {
			inputs = append(inputs, n)
		}
	}
	sort.Strings(inputs)
	if vfrun.KnownListed("bind.map-backed-input-in-list-and-single") {
		// known finding, excluded by construction: a map-backed input that occurs both inside a list
		// type and outside one makes generation panic (the binder drops the list wrappers)
		inList := map[string]bool{}
		mark := func(t *ast.Type) {
			if t.Elem != nil {
				inList[t.Name()] = true
			}
		}
		for _, d := range schema.Types {
			for _, f := range d.Fields {
				mark(f.Type)
				for _, a := range f.Arguments {
					mark(a.Type)
				}
			}
		}
		for _, d := range schema.Directives {
			for _, a := range d.Arguments {
				mark(a.Type)
			}
		}
		var keep []string
		for _, n := range inputs {
			if !inList[n] {
				keep = append(keep, n)
			} else {
				vfrun.Label("excluded-by-construction:bind.map-backed-input-in-list-and-single")
			}
		}
		inputs = keep
	}
	if len(inputs) > 0 && rapid.IntRange(0, 2).Draw(t, "mapinput") == 0 {
		c.MapInput = inputs[rapid.IntRange(0, len(inputs)-1).Draw(t, "whichinput")]
		vfrun.Label("map-backed-input")
	}
	c.SelfAutobind = rapid.IntRange(0, 3).Draw(t, "selfautobind") == 0
	c.Again = c.SelfAutobind || rapid.IntRange(0, 3).Draw(t, "again") == 0
	if c.SelfAutobind {
		vfrun.Label("autobind-own-model-package")
	}
	if c.Again {
		vfrun.Label("generated-twice")
	}
	if c.UserModel {
		c.UserModelDir = rapid.SampledFrom([]string{"", "", "go-um", "myum", "um.v2"}).Draw(t, "usermodeldir")
		if c.UserModelDir != "" {
			vfrun.Label("user-model-package-named-by-directory-tail")
		}
		c.AutoBind = rapid.Bool().Draw(t, "autobind")
		if rapid.Bool().Draw(t, "boundenums") {
			c.BoundEnums = true
			vfrun.Label("enums-bound-to-go-constants")
		}
		vfrun.Label("user-model-with-aliased-fields")
		if c.AutoBind {
			vfrun.Label("user-model-via-autobind")
		}
	}
	if c.Config.Bools["omit_resolver_fields"] && !c.Config.Bools["omit_getters"] && vfrun.KnownListed("modelgen.omit-resolver-fields-interface-getter") {
		// known finding, excluded by construction: a resolver field that an implemented interface
		// declares keeps its getter although the struct field is omitted
		for tf := range c.Config.ResolverFields {
			parts := strings.SplitN(tf, ".", 2)
			def := schema.Types[parts[0]]
			for _, in := range def.Interfaces {
				if idef := schema.Types[in]; idef != nil && idef.Fields.ForName(parts[1]) != nil {
					delete(c.Config.ResolverFields, tf)
					vfrun.Label("excluded-by-construction:modelgen.omit-resolver-fields-interface-getter")
				}
			}
		}
	}
	if v, set := c.Config.Bools["struct_fields_always_pointers"]; set && !v && nonNullObjectCycle(schema) && vfrun.KnownListed("modelgen.value-struct-fields-recursive-type") {
		// known finding, excluded by construction: value-typed struct fields of a type that
		// refers to itself through non-null object fields are an invalid recursive Go type
		delete(c.Config.Bools, "struct_fields_always_pointers")
		vfrun.Label("excluded-by-construction:modelgen.value-struct-fields-recursive-type")
	}
	nfeat := 0
	for _, k := range []string{"interface-implements-interface", "union", "recursive-input", "default-value", "directive-applied", "subscription", "multi-file-extension", "hostile-names"} {
		if s.Features[k] {
			nfeat++
			vfrun.Label("schema:" + k)
		}
	}
	if nfeat >= 3 {
		vfrun.NonTrivial(s.SDL() + c.Config.YAML())
	}
	vfrun.Label("exec:" + c.Config.ExecLayout)
	vfrun.Label("resolver:" + c.Config.ResolverLayout)
	vfrun.SampleCat(c.Config.ExecLayout+"/"+c.Config.ResolverLayout, map[string]any{"gqlgen_yml": c.Config.YAML(), "sdl": s.SDL()})
	return c
}

func TestGenerate(t *testing.T) {
	vfrun.Run(t, vfrun.Prop[Case]{Property: "C17", Name: "TestGenerate", Gen: gen, Check: check}, vfrun.N(128, 1000))
}
