package c18

import (
	"bytes"
	"crypto/sha256"
	"encoding/hex"
	"fmt"
	"os"
	"os/exec"
	"path/filepath"
	"sort"
	"strings"
	"sync/atomic"
	"testing"

	"github.com/vektah/gqlparser/v2"
	"github.com/vektah/gqlparser/v2/ast"
	"pgregory.net/rapid"

	"vh/cfggen"
	"vh/sdlgen"
	"vh/vfrun"
)

type Case struct {
	Files  map[string]string `json:"files"`
	Config cfggen.Config     `json:"config"`
	// SelfAutobind: autobind lists the package the exec file is generated into (it holds a
	// hand-written doc.go, as a user's package holds hand-written models)
	SelfAutobind bool `json:"self_autobind,omitempty"`
	// ExecNamed: schema types named like an exported identifier of the generated exec file
	ExecNamed []string `json:"exec_named,omitempty"`
	// MoreRuns: generate this many more times on a clean tree (schemas with object-literal
	// defaults: small Go maps iterate as a rotation, so a missing sort shows only in some processes)
	MoreRuns int `json:"more_runs,omitempty"`
}

const staleExecKey = "idempotence.followschema-stale-exec-files-autobound"

// staleExecClass: the input class of the known finding - the follow-schema layout leaves the
// previous exec files in place while the next run binds (api.Generate removes only exec.filename),
// so with the exec package in autobind a schema type named like one of their exported identifiers
// is bound to that identifier on the second run.
func (c Case) staleExecClass() bool {
	return c.Config.ExecLayout == "follow-schema" && c.SelfAutobind && len(c.ExecNamed) > 0
}

var seq atomic.Int64

type run struct {
	name     string
	wipe     bool // remove every generated file first
	maxprocs int
	subdir   bool // start the tool from a sub-directory of the project
}

var runs = []run{
	{"clean tree, GOMAXPROCS=1, project root", true, 1, false},
	{"clean tree, GOMAXPROCS=16, sub-directory", true, 16, true},
	{"tree with previous output, GOMAXPROCS=2, project root", false, 2, false},
	{"tree with previous output, GOMAXPROCS=16, sub-directory", false, 16, true},
	{"clean tree, GOMAXPROCS=3, project root", true, 3, false},
}

func hashTree(dir string) (map[string]string, error) {
	out := map[string]string{}
	err := filepath.Walk(dir, func(p string, info os.FileInfo, err error) error {
		if err != nil {
			return err
		}
		if info.IsDir() || !strings.HasSuffix(p, ".go") {
			return nil
		}
		b, err := os.ReadFile(p)
		if err != nil {
			return err
		}
		h := sha256.Sum256(b)
		rel, _ := filepath.Rel(dir, p)
		out[filepath.ToSlash(rel)] = hex.EncodeToString(h[:])
		return nil
	})
	return out, err
}

// wipe removes every generated file (all Go files but the hand-written doc.go).
func wipe(dir string) {
	_ = filepath.Walk(dir, func(p string, info os.FileInfo, err error) error {
		if err == nil && !info.IsDir() && strings.HasSuffix(p, ".go") && filepath.Base(p) != "doc.go" {
			_ = os.Remove(p)
		}
		return nil
	})
}

func diffTrees(a, b map[string]string) string {
	var names []string
	for n := range a {
		names = append(names, n)
	}
	for n := range b {
		if _, ok := a[n]; !ok {
			names = append(names, n)
		}
	}
	sort.Strings(names)
	var out []string
	for _, n := range names {
		switch {
		case a[n] == "":
			out = append(out, n+" (only in the later run)")
		case b[n] == "":
			out = append(out, n+" (missing in the later run)")
		case a[n] != b[n]:
			out = append(out, n+" (content differs)")
		}
	}
	return strings.Join(out, ", ")
}

func check(c Case) *vfrun.Failure {
	work := os.Getenv("VF_WORK")
	if work == "" {
		return vfrun.Failf("harness.env", "VF_WORK not set")
	}
	root := filepath.Join(work, "h", "gen18", fmt.Sprintf("s%dn%d", vfrun.Shard(), seq.Add(1)))
	dir := filepath.Join(root, c.Config.Package)
	if err := os.MkdirAll(filepath.Join(dir, "sub", "deeper"), 0o755); err != nil {
		return vfrun.Failf("harness.io", "%v", err)
	}
	defer os.RemoveAll(root)
	for n, content := range c.Files {
		_ = os.MkdirAll(filepath.Dir(filepath.Join(dir, n)), 0o755)
		_ = os.WriteFile(filepath.Join(dir, n), []byte(content), 0o644)
	}
	if c.SelfAutobind {
		rel, _ := filepath.Rel(filepath.Join(work, "h"), dir)
		_ = os.WriteFile(filepath.Join(dir, "doc.go"), []byte("// Package "+c.Config.Package+" holds the user's own code beside the generated one.\npackage "+c.Config.Package+"\n"), 0o644)
		if c.Config.Extra == nil {
			c.Config.Extra = map[string]string{}
		}
		c.Config.Extra["autobind"] = "[\"vh/" + filepath.ToSlash(rel) + "\"]"
	}
	_ = os.WriteFile(filepath.Join(dir, "gqlgen.yml"), []byte(c.Config.YAML()), 0o644)
	tool := filepath.Join(work, "gqlgen-gen")
	var first map[string]string
	var firstContent map[string][]byte
	allRuns := runs
	for k := 0; k < c.MoreRuns; k++ {
		allRuns = append(append([]run{}, allRuns...), run{fmt.Sprintf("clean tree, GOMAXPROCS=%d, project root (extra run %d)", 1+k%4, k), true, 1 + k%4, false})
	}
	for i, r := range allRuns {
		if r.wipe {
			wipe(dir)
		}
		cwd := dir
		if r.subdir {
			cwd = filepath.Join(dir, "sub", "deeper")
		}
		cmd := exec.Command(tool, "-config", "auto", "-stub", "stub.go")
		cmd.Dir = cwd
		cmd.Env = append(os.Environ(), fmt.Sprintf("GOMAXPROCS=%d", r.maxprocs))
		var out bytes.Buffer
		cmd.Stdout, cmd.Stderr = &out, &out
		vfrun.Eval()
		if err := cmd.Run(); err != nil {
			if i == 0 {
				// whether this project generates at all is C17's business
				vfrun.Label("discarded:generation-fails(C17)")
				if c.Config.SchemaGlob != "" {
					vfrun.Label("discarded:generation-fails(C17):same-base-name-files")
					if os.Getenv("VF_DEBUG") != "" {
						_ = os.WriteFile(os.Getenv("VF_DEBUG"), []byte(c.Config.YAML()+"\n"+out.String()), 0o644)
					}
				}
				return nil
			}
			if !r.wipe && c.staleExecClass() && vfrun.IsKnown(staleExecKey) {
				return nil
			}
			return vfrun.Failf("determinism.later-run-fails", "run %d (%s) fails although run 0 succeeded: %v\n%s", i, r.name, err, tail(out.String()))
		}
		h, err := hashTree(dir)
		if err != nil {
			return vfrun.Failf("harness.io", "%v", err)
		}
		if i == 0 {
			first = h
			firstContent = map[string][]byte{}
			for n := range h {
				firstContent[n], _ = os.ReadFile(filepath.Join(dir, n))
			}
			if len(h) == 0 {
				return vfrun.Failf("harness.no-output", "no files generated")
			}
			continue
		}
		if c.Config.ResolverLayout == "single-file" && !r.wipe && first["resolver.go"] != h["resolver.go"] && vfrun.KnownListed("resolvergen.single-file-root-struct") {
			// known finding: the first regeneration moves 'type Resolver struct{}' into the warning
			// block of resolver.go; every other file must still be identical
			b, _ := os.ReadFile(filepath.Join(dir, "resolver.go"))
			if strings.Contains(string(b), "!!! WARNING !!!") && strings.Contains(string(b), "type Resolver struct{}") {
				vfrun.IsKnown("resolvergen.single-file-root-struct")
				h["resolver.go"] = first["resolver.go"]
			}
		}
		if d := diffTrees(first, h); d != "" {
			key := "determinism.output-differs"
			if !r.wipe {
				key = "idempotence.regeneration-changes-files"
				if c.staleExecClass() && vfrun.IsKnown(staleExecKey) {
					return nil
				}
			}
			detail := ""
			for n := range h {
				if first[n] != "" && first[n] != h[n] {
					b, _ := os.ReadFile(filepath.Join(dir, n))
					detail = firstDiff(n, firstContent[n], b)
					break
				}
			}
			return vfrun.Failf(key, "run %d (%s) differs from run 0 (%s): %s\n%s\ngqlgen.yml:\n%s", i, r.name, runs[0].name, d, detail, c.Config.YAML())
		}
	}
	vfrun.Label("exec:" + c.Config.ExecLayout)
	if c.Config.SchemaGlob != "" {
		vfrun.Label("same-base-name-files:exec:" + c.Config.ExecLayout)
	}
	vfrun.Label("resolver:" + c.Config.ResolverLayout)
	return nil
}

func firstDiff(name string, a, b []byte) string {
	la, lb := strings.Split(string(a), "\n"), strings.Split(string(b), "\n")
	for i := 0; i < len(la) && i < len(lb); i++ {
		if la[i] != lb[i] {
			return fmt.Sprintf("%s line %d:\n- %s\n+ %s", name, i+1, la[i], lb[i])
		}
	}
	return fmt.Sprintf("%s: %d vs %d lines", name, len(la), len(lb))
}

func tail(s string) string {
	if len(s) > 2500 {
		return "…" + s[len(s)-2500:]
	}
	return s
}

func loadSchema(files map[string]string) (*ast.Schema, error) {
	var names []string
	for n := range files {
		names = append(names, n)
	}
	sort.Strings(names)
	var srcs []*ast.Source
	for _, n := range names {
		srcs = append(srcs, &ast.Source{Name: n, Input: files[n]})
	}
	return gqlparser.LoadSchema(srcs...)
}

func gen(t *rapid.T) Case {
	// a third of the multi-file projects keep their schema files under one base name in different
	// directories, which the follow-schema layouts merge into one generated file
	sameBase := rapid.IntRange(0, 2).Draw(t, "samebase") == 0
	// a third of the projects generate their models into a package of their own (gqlgen's init
	// layout); half of those autobind the exec package, and their schemas may name types like
	// exported identifiers of the exec file
	splitModel := rapid.IntRange(0, 2).Draw(t, "splitmodel") == 0
	files := rapid.IntRange(1, 3).Draw(t, "files")
	if sameBase {
		files = rapid.IntRange(2, 3).Draw(t, "files-samebase")
	}
	s := sdlgen.Generate(t, sdlgen.Options{SameBase: sameBase, ExecNames: splitModel, RichDirectiveArgs: true, Files: files, Roots: true, Hostile: rapid.Bool().Draw(t, "hostile"), DeprecatedInputs: true, MaxTypes: 14, ExecDirectives: true, Cycles: true})
	schema, err := loadSchema(s.Files)
	if err != nil {
		t.Skip("invalid schema")
	}
	var fields []string
	var names []string
	for n := range schema.Types {
		names = append(names, n)
	}
	sort.Strings(names)
	for _, n := range names {
		d := schema.Types[n]
		if !d.BuiltIn && d.Kind == ast.Object && d != schema.Query && d != schema.Mutation && d != schema.Subscription {
			for _, f := range d.Fields {
				fields = append(fields, n+"."+f.Name)
			}
		}
	}
	c := Case{Files: s.Files, Config: cfggen.Draw(t, "gen", fields)}
	if !sameBase && rapid.IntRange(0, 3).Draw(t, "federation") == 0 {
		// a federation subgraph instead of the drawn schema, with or without explicit_requires
		c.Files = map[string]string{"schema0.graphqls": sdlgen.FederationProbe}
		c.Config.ResolverFields = nil
		c.Config.Federation = []string{}
		if rapid.IntRange(0, 2).Draw(t, "explicit-requires") != 0 {
			c.Config.Federation = []string{"explicit_requires"}
		}
		vfrun.Label("federation:" + strings.Join(c.Config.Federation, ","))
		splitModel = false
	}
	if splitModel {
		c.Config.SplitModel = true
		vfrun.Label("models-in-own-package")
		for _, n := range sdlgen.ExecFileTypeNames {
			if schema.Types[n] != nil {
				c.ExecNamed = append(c.ExecNamed, n)
			}
		}
		if len(c.ExecNamed) > 0 {
			vfrun.Label("schema:type-named-like-exec-identifier")
		}
		if rapid.Bool().Draw(t, "selfautobind") {
			c.SelfAutobind = true
			if c.staleExecClass() && vfrun.KnownListed(staleExecKey) {
				// known finding, excluded by construction (pinned by a corpus case)
				c.SelfAutobind = false
				vfrun.Label("excluded-by-construction:" + staleExecKey)
			} else {
				vfrun.Label("models-in-own-package+autobind-exec-package")
				if len(c.ExecNamed) > 0 {
					vfrun.Label("autobind-exec-package+type-named-like-exec-identifier")
				}
			}
		}
	}
	if s.Features["non-null-object-cycle"] && rapid.Bool().Draw(t, "valuefields") {
		// the order-sensitive pass of modelgen (cyclical relationships) only runs with value fields
		c.Config.Bools["struct_fields_always_pointers"] = false
		vfrun.Label("schema:non-null-object-cycle+value-fields")
	}
	follow := c.Config.ExecLayout == "follow-schema" || c.Config.ResolverLayout == "follow-schema"
	if sameBase {
		c.Config.SchemaGlob = "./**/*.graphqls"
		if rapid.Bool().Draw(t, "samebase-follow") {
			c.Config.ExecLayout = "follow-schema"
		}
		follow = follow || c.Config.ExecLayout == "follow-schema"
		if len(s.Files) >= 2 && follow {
			vfrun.Label("same-base-name-files+follow-schema")
		}
	}
	if len(s.Files) >= 2 && follow {
		vfrun.NonTrivial(s.SDL() + c.Config.YAML())
		vfrun.Label("multi-file+follow-schema")
	}
	if s.Features["colliding-type-names"] {
		vfrun.Label("schema:colliding-type-names")
	}
	if s.Features["object-default"] && c.Config.Federation == nil {
		c.MoreRuns = 6
		vfrun.Label("schema:object-literal-default(+6 runs)")
	}
	vfrun.SampleCat(c.Config.ExecLayout+"/"+c.Config.ResolverLayout, map[string]any{"gqlgen_yml": c.Config.YAML(), "files": len(s.Files), "runs": len(runs)})
	return c
}

func TestDeterminism(t *testing.T) {
	vfrun.Run(t, vfrun.Prop[Case]{Property: "C18", Name: "TestDeterminism", Gen: gen, Check: check}, vfrun.N(48, 600))
}
