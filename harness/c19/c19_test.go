package c19

import (
	"bytes"
	"fmt"
	"go/ast"
	"go/parser"
	"go/scanner"
	"go/token"
	"os"
	"os/exec"
	"path/filepath"
	"sort"
	"strings"
	"sync/atomic"
	"testing"
	"unicode"

	"pgregory.net/rapid"

	"vh/vfrun"
)

// ---------------------------------------------------------------------------------------------
// schema model and its evolution

type Field struct {
	Name string `json:"name"`
	Type string `json:"type"`
	Args string `json:"args,omitempty"`
	File int    `json:"file"` // 0: with the type, 1: in an 'extend type' of the other schema file
}

type Type struct {
	Name   string  `json:"name"`
	Fields []Field `json:"fields"`
}

type SchemaModel struct {
	Types []Type `json:"types"` // Query first; every field of every type is a resolver
}

func (m SchemaModel) render() map[string]string {
	var a, b strings.Builder
	for _, t := range m.Types {
		var own, ext []Field
		for _, f := range t.Fields {
			if f.File == 1 {
				ext = append(ext, f)
			} else {
				own = append(own, f)
			}
		}
		fmt.Fprintf(&a, "type %s {\n", t.Name)
		if len(own) == 0 {
			fmt.Fprintf(&a, "  placeholder%s: Int\n", t.Name)
		}
		for _, f := range own {
			fmt.Fprintf(&a, "  %s%s: %s\n", f.Name, f.Args, f.Type)
		}
		a.WriteString("}\n\n")
		if len(ext) > 0 {
			fmt.Fprintf(&b, "extend type %s {\n", t.Name)
			for _, f := range ext {
				fmt.Fprintf(&b, "  %s%s: %s\n", f.Name, f.Args, f.Type)
			}
			b.WriteString("}\n\n")
		}
	}
	// a scalar bound to a type of the user's util package: a field of this type makes the resolver
	// file import that package (whose name a user alias of another import may already have taken)
	a.WriteString("scalar Stamp\n")
	out := map[string]string{"a.graphqls": a.String()}
	if b.Len() > 0 {
		out["b.graphqls"] = b.String()
	}
	return out
}

func (m SchemaModel) yml(layout string, opts ...string) string {
	var sb strings.Builder
	sb.WriteString("schema:\n  - \"*.graphqls\"\nskip_mod_tidy: true\nskip_validation: true\nexec:\n  filename: generated.go\n  package: gen\nmodel:\n  filename: models_gen.go\n  package: gen\n")
	if layout == "single-file" {
		sb.WriteString("resolver:\n  filename: resolver.go\n  package: gen\n  type: Resolver\n")
	} else {
		sb.WriteString("resolver:\n  layout: follow-schema\n  dir: .\n  package: gen\n  type: Resolver\n")
	}
	for _, o := range opts {
		sb.WriteString("  " + o + ": true\n")
	}
	sb.WriteString("models:\n  Stamp:\n    model: PKGPATH/util.Stamp\n")
	for _, t := range m.Types[1:] {
		fmt.Fprintf(&sb, "  %s:\n    fields:\n", t.Name)
		fmt.Fprintf(&sb, "      placeholder%s:\n        resolver: false\n", t.Name)
		for _, f := range t.Fields {
			fmt.Fprintf(&sb, "      %s:\n        resolver: true\n", f.Name)
		}
	}
	return sb.String()
}

func (m SchemaModel) has(structName, method string) bool {
	for _, t := range m.Types {
		if lcFirst(t.Name)+"Resolver" != structName {
			continue
		}
		for _, f := range t.Fields {
			if ucFirst(f.Name) == method {
				return true
			}
		}
	}
	return false
}

func lcFirst(s string) string { return strings.ToLower(s[:1]) + s[1:] }
func ucFirst(s string) string { return strings.ToUpper(s[:1]) + s[1:] }

// ---------------------------------------------------------------------------------------------
// the case: a history

type Edit struct {
	File    string   `json:"-"`      // the resolver file the method was in when it was edited
	Method  string   `json:"method"` // "queryResolver.Foo"
	Body    string   `json:"body,omitempty"`
	Doc     string   `json:"doc,omitempty"`
	Results []string `json:"results,omitempty"` // names for (value, error)
	Imports []string `json:"imports,omitempty"` // "alias path" the body uses
}

type Helper struct {
	File string `json:"file"` // "" = the file of the first edited method
	Text string `json:"text"`
}

type Step struct {
	Kind    string       `json:"kind"` // edit evolve regenerate
	Edits   []Edit       `json:"edits,omitempty"`
	Helpers []Helper     `json:"helpers,omitempty"`
	Schema  *SchemaModel `json:"schema,omitempty"` // evolve: the new schema
	Op      string       `json:"op,omitempty"`
	Times   int          `json:"times,omitempty"`
}

type Case struct {
	Layout string `json:"layout"` // single-file follow-schema
	// ResolverOpts: boolean options of the resolver section that are switched on (omit_template_comment)
	ResolverOpts []string    `json:"resolver_opts,omitempty"`
	Schema       SchemaModel `json:"schema"`
	Steps        []Step      `json:"steps"`
	// SameBase: the two schema files are sa/schema.graphqls and sb/schema.graphqls
	SameBase bool `json:"same_base,omitempty"`
}

var seq atomic.Int64

// ---------------------------------------------------------------------------------------------
// token streams

func tokens(src string) []string {
	fset := token.NewFileSet()
	f := fset.AddFile("", fset.Base(), len(src))
	var s scanner.Scanner
	s.Init(f, []byte(src), nil, scanner.ScanComments)
	var out []string
	for {
		_, tok, lit := s.Scan()
		if tok == token.EOF {
			break
		}
		if tok == token.SEMICOLON && lit == "\n" {
			continue // automatic semicolons depend on line breaks only
		}
		if tok == token.COMMENT {
			lit = strings.Join(strings.Fields(lit), " ")
		}
		if lit != "" {
			out = append(out, tok.String()+":"+lit)
		} else {
			out = append(out, tok.String())
		}
	}
	return out
}

func squash(s string) string {
	return strings.Map(func(r rune) rune {
		if unicode.IsSpace(r) {
			return -1
		}
		return r
	}, s)
}

// ---------------------------------------------------------------------------------------------
// running the generator and reading resolver files

type method struct {
	file    string
	decl    *ast.FuncDecl
	body    string
	doc     string
	results []string
}

type parsed struct {
	methods map[string]*method  // "struct.Method"
	imports map[string][]string // file -> "alias path"
	all     string              // all resolver files concatenated
	files   map[string]string
}

func resolverFiles(dir, layout string) []string {
	if layout == "single-file" {
		return []string{filepath.Join(dir, "resolver.go")}
	}
	m, _ := filepath.Glob(filepath.Join(dir, "*.resolvers.go"))
	sort.Strings(m)
	return append(m, filepath.Join(dir, "resolver.go"))
}

func parseResolvers(dir, layout string) (*parsed, *vfrun.Failure) {
	p := &parsed{methods: map[string]*method{}, imports: map[string][]string{}, files: map[string]string{}}
	for _, fn := range resolverFiles(dir, layout) {
		b, err := os.ReadFile(fn)
		if err != nil {
			continue
		}
		src := string(b)
		p.files[fn] = src
		p.all += src + "\n"
		fset := token.NewFileSet()
		f, err := parser.ParseFile(fset, fn, src, parser.ParseComments)
		if err != nil {
			return nil, vfrun.Failf("rewrite.output-does-not-parse", "%s does not parse after generation: %v\n%s", filepath.Base(fn), err, src)
		}
		for _, im := range f.Imports {
			alias := ""
			if im.Name != nil {
				alias = im.Name.Name
			}
			p.imports[fn] = append(p.imports[fn], strings.TrimSpace(alias+" "+strings.Trim(im.Path.Value, `"`)))
		}
		for _, d := range f.Decls {
			fd, ok := d.(*ast.FuncDecl)
			if !ok || fd.Recv == nil || len(fd.Recv.List) == 0 || fd.Body == nil {
				continue
			}
			recv := fd.Recv.List[0].Type
			if st, ok := recv.(*ast.StarExpr); ok {
				recv = st.X
			}
			id, ok := recv.(*ast.Ident)
			if !ok {
				continue
			}
			m := &method{file: fn, decl: fd}
			m.body = src[fset.Position(fd.Body.Lbrace).Offset+1 : fset.Position(fd.Body.Rbrace).Offset]
			if fd.Doc != nil {
				m.doc = fd.Doc.Text()
			}
			if fd.Type.Results != nil {
				for _, r := range fd.Type.Results.List {
					if len(r.Names) > 0 {
						m.results = append(m.results, r.Names[0].Name)
					} else {
						m.results = append(m.results, "")
					}
				}
			}
			p.methods[id.Name+"."+fd.Name.Name] = m
		}
	}
	return p, nil
}

func generate(dir string, work string) (string, error) {
	cmd := exec.Command(filepath.Join(work, "gqlgen-gen"), "-config", "gqlgen.yml")
	cmd.Dir = dir
	var out bytes.Buffer
	cmd.Stdout, cmd.Stderr = &out, &out
	err := cmd.Run()
	return out.String(), err
}

// applyEdits rewrites resolver files: bodies, doc comments, result names, imports, helpers.
func applyEdits(dir, layout string, st Step) *vfrun.Failure {
	p, f := parseResolvers(dir, layout)
	if f != nil {
		return f
	}
	type repl struct {
		start, end int
		text       string
	}
	perFile := map[string][]repl{}
	addImports := map[string]map[string]bool{}
	firstFile := ""
	for _, e := range st.Edits {
		m := p.methods[e.Method]
		if m == nil {
			continue
		}
		if firstFile == "" {
			firstFile = m.file
		}
		src := p.files[m.file]
		fset := token.NewFileSet()
		pf, _ := parser.ParseFile(fset, m.file, src, parser.ParseComments)
		var fd *ast.FuncDecl
		for _, d := range pf.Decls {
			if x, ok := d.(*ast.FuncDecl); ok && x.Name.Name == m.decl.Name.Name && x.Recv != nil {
				recv := x.Recv.List[0].Type
				if s, ok := recv.(*ast.StarExpr); ok {
					recv = s.X
				}
				if id, ok := recv.(*ast.Ident); ok && id.Name+"."+x.Name.Name == e.Method {
					fd = x
				}
			}
		}
		if fd == nil {
			continue
		}
		off := func(pos token.Pos) int { return fset.Position(pos).Offset }
		if e.Body != "" {
			perFile[m.file] = append(perFile[m.file], repl{off(fd.Body.Lbrace) + 1, off(fd.Body.Rbrace), "\n" + e.Body + "\n"})
		}
		if e.Doc != "" {
			start := off(fd.Pos())
			if fd.Doc != nil {
				start = off(fd.Doc.Pos())
			}
			var doc strings.Builder
			for _, ln := range strings.Split(e.Doc, "\n") {
				doc.WriteString("// " + ln + "\n")
			}
			perFile[m.file] = append(perFile[m.file], repl{start, off(fd.Pos()), doc.String()})
		}
		if len(e.Results) == 2 && fd.Type.Results != nil && len(fd.Type.Results.List) == 2 {
			r0, r1 := fd.Type.Results.List[0], fd.Type.Results.List[1]
			perFile[m.file] = append(perFile[m.file], repl{off(r0.Type.Pos()), off(r0.Type.Pos()), e.Results[0] + " "})
			perFile[m.file] = append(perFile[m.file], repl{off(r1.Type.Pos()), off(r1.Type.Pos()), e.Results[1] + " "})
			if len(r0.Names) > 0 {
				perFile[m.file][len(perFile[m.file])-2] = repl{off(r0.Pos()), off(r0.Type.Pos()), e.Results[0] + " "}
				perFile[m.file][len(perFile[m.file])-1] = repl{off(r1.Pos()), off(r1.Type.Pos()), e.Results[1] + " "}
			}
		}
		for _, im := range e.Imports {
			if addImports[m.file] == nil {
				addImports[m.file] = map[string]bool{}
			}
			addImports[m.file][im] = true
		}
	}
	helperText := map[string]string{}
	for _, h := range st.Helpers {
		fn := firstFile
		if fn == "" {
			for f := range p.files {
				if fn == "" || f < fn {
					fn = f
				}
			}
		}
		helperText[fn] += "\n" + h.Text + "\n"
	}
	for fn, src := range p.files {
		rs := perFile[fn]
		sort.Slice(rs, func(i, j int) bool { return rs[i].start > rs[j].start })
		for _, r := range rs {
			src = src[:r.start] + r.text + src[r.end:]
		}
		src += helperText[fn]
		if ims := addImports[fn]; len(ims) > 0 {
			var block strings.Builder
			block.WriteString("\nimport (\n")
			var keys []string
			for k := range ims {
				keys = append(keys, k)
			}
			sort.Strings(keys)
			have := strings.Join(p.imports[fn], "\n")
			for _, k := range keys {
				if strings.Contains(have, k) {
					continue
				}
				parts := strings.Fields(k)
				if len(parts) == 2 {
					fmt.Fprintf(&block, "\t%s %q\n", parts[0], parts[1])
				} else {
					fmt.Fprintf(&block, "\t%q\n", parts[0])
				}
			}
			block.WriteString(")\n")
			// after the package clause
			i := strings.Index(src, "\npackage ")
			j := strings.Index(src[i+1:], "\n") + i + 1
			src = src[:j+1] + block.String() + src[j+1:]
		}
		if src != p.files[fn] {
			if err := os.WriteFile(fn, []byte(src), 0o644); err != nil {
				return vfrun.Failf("harness.io", "%v", err)
			}
			// the edited file must be valid Go, or the harness made the mistake
			if _, err := parser.ParseFile(token.NewFileSet(), fn, src, parser.ParseComments); err != nil {
				return vfrun.Failf("harness.bad-edit", "edited %s does not parse: %v\n%s", filepath.Base(fn), err, src)
			}
		}
	}
	return nil
}

type expectation struct {
	edits   map[string]Edit // latest user version of each method
	helpers []Helper
}

func check(c Case) *vfrun.Failure {
	work := os.Getenv("VF_WORK")
	if work == "" {
		return vfrun.Failf("harness.env", "VF_WORK not set")
	}
	root := filepath.Join(work, "h", "gen19", fmt.Sprintf("s%dn%d", vfrun.Shard(), seq.Add(1)))
	dir := filepath.Join(root, "gen")
	pkgPath := "vh/gen19/" + filepath.Base(root) + "/gen"
	defer os.RemoveAll(root)
	for _, sub := range []string{"errors", "util"} {
		_ = os.MkdirAll(filepath.Join(dir, sub), 0o755)
		_ = os.WriteFile(filepath.Join(dir, sub, sub+".go"), []byte("package "+sub+"\n\n// Wrap is a helper of the user's own package.\nfunc Wrap(s string) string { return s }\n"), 0o644)
	}
	_ = os.WriteFile(filepath.Join(dir, "util", "stamp.go"), []byte("package util\n\nimport (\n\t\"fmt\"\n\t\"io\"\n\t\"strconv\"\n)\n\n// Stamp is the Go type of the Stamp scalar.\ntype Stamp string\n\nfunc (s Stamp) MarshalGQL(w io.Writer) { _, _ = io.WriteString(w, strconv.Quote(string(s))) }\n\nfunc (s *Stamp) UnmarshalGQL(v any) error {\n\t*s = Stamp(fmt.Sprint(v))\n\treturn nil\n}\n"), 0o644)
	_ = os.MkdirAll(filepath.Join(dir, "strutil"), 0o755)
	_ = os.WriteFile(filepath.Join(dir, "strutil", "strutil.go"), []byte("package strutil\n\n// Pad is a helper of the user's own package.\nfunc Pad(s string) string { return s }\n"), 0o644)
	// a package meant to be dot-imported: its only exported name cannot collide with anything else
	_ = os.MkdirAll(filepath.Join(dir, "dotutil"), 0o755)
	_ = os.WriteFile(filepath.Join(dir, "dotutil", "dotutil.go"), []byte("package dotutil\n\n// DotWrap is used unqualified through a dot import.\nfunc DotWrap(s string) string { return s }\n"), 0o644)
	writeSchema := func(m SchemaModel) {
		old, _ := filepath.Glob(filepath.Join(dir, "*.graphqls"))
		for _, f := range old {
			_ = os.Remove(f)
		}
		for _, sub := range []string{"sa", "sb"} {
			_ = os.RemoveAll(filepath.Join(dir, sub))
		}
		yml := m.yml(c.Layout, c.ResolverOpts...)
		for n, s := range m.render() {
			if c.SameBase {
				// the schema files share one base name in different directories: the follow-schema
				// layout keeps their resolvers in one file (schema.resolvers.go)
				n = "s" + strings.TrimSuffix(n, ".graphqls") + "/schema.graphqls"
				_ = os.MkdirAll(filepath.Dir(filepath.Join(dir, n)), 0o755)
			}
			_ = os.WriteFile(filepath.Join(dir, n), []byte(s), 0o644)
		}
		if c.SameBase {
			yml = strings.Replace(yml, "\"*.graphqls\"", "\"./**/*.graphqls\"", 1)
		}
		yml = strings.ReplaceAll(yml, "PKGPATH", pkgPath)
		_ = os.WriteFile(filepath.Join(dir, "gqlgen.yml"), []byte(yml), 0o644)
	}
	schema := c.Schema
	writeSchema(schema)
	if out, err := generate(dir, work); err != nil {
		return vfrun.Failf("harness.initial-generation", "%v\n%s", err, out)
	}
	exp := expectation{edits: map[string]Edit{}}
	onlyAdded, edited, evolved, helpers := true, false, false, false
	importFinding := false // a known import finding was hit: the build is then known to break
	builtBefore := false
	for si, st := range c.Steps {
		switch st.Kind {
		case "edit":
			es := st
			for i := range es.Edits {
				for j, im := range es.Edits[i].Imports {
					es.Edits[i].Imports[j] = strings.ReplaceAll(im, "PKG", pkgPath)
				}
			}
			if f := applyEdits(dir, c.Layout, es); f != nil {
				return f
			}
			p, _ := parseResolvers(dir, c.Layout)
			for _, e := range es.Edits {
				if p != nil && p.methods[e.Method] != nil {
					prev := exp.edits[e.Method]
					if e.Body == "" {
						e.Body = prev.Body
						e.Imports = append(e.Imports, prev.Imports...)
					}
					if e.Doc == "" {
						e.Doc = prev.Doc
					}
					if len(e.Results) == 0 {
						e.Results = prev.Results
					}
					e.File = filepath.Base(p.methods[e.Method].file)
					exp.edits[e.Method] = e
					edited = true
				}
			}
			exp.helpers = append(exp.helpers, st.Helpers...)
			if len(st.Helpers) > 0 {
				helpers = true
			}
			if !helpers && onlyAdded {
				// "a package that compiled before": the state the user left it in with this edit (an
				// edit that replaces a body can leave an import unused, which does not compile)
				_, err := runBuild(dir)
				builtBefore = err == nil
			}
		case "evolve":
			if st.Op != "add-field" && st.Op != "add-type" {
				onlyAdded = false
			}
			schema = *st.Schema
			writeSchema(schema)
			evolved = true
		case "regenerate":
			for k := 0; k < max(1, st.Times); k++ {
				out, err := generate(dir, work)
				vfrun.Eval()
				if err != nil {
					return vfrun.Failf("rewrite.regeneration-fails", "step %d: regeneration fails: %v\n%s", si, err, tailStr(out))
				}
				p, f := parseResolvers(dir, c.Layout)
				if f != nil {
					if strings.Contains(allHelpers(exp), "*/") {
						f.Key = "rewrite.block-comment-terminator"
						if vfrun.IsKnown(f.Key) {
							return nil
						}
					}
					return f
				}
				_ = out
				var keys []string
				for k := range exp.edits {
					keys = append(keys, k)
				}
				sort.Strings(keys)
				for _, key := range keys {
					e := exp.edits[key]
					parts := strings.SplitN(key, ".", 2)
					m := p.methods[key]
					if schema.has(parts[0], parts[1]) {
						if m == nil {
							return vfrun.Failf("rewrite.resolver-missing", "step %d: resolver %s still exists in the schema but has no method after regeneration", si, key)
						}
						if e.Body != "" && strings.Join(tokens(m.body), " ") != strings.Join(tokens(e.Body), " ") {
							return vfrun.Failf("rewrite.body-changed", "step %d: body of %s changed\nwas:\n%s\nnow:\n%s", si, key, e.Body, m.body)
						}
						if e.Doc != "" && strings.TrimSpace(m.doc) != strings.TrimSpace(e.Doc) {
							return vfrun.Failf("rewrite.doc-comment-changed", "step %d: doc comment of %s changed\nwas: %q\nnow: %q", si, key, e.Doc, m.doc)
						}
						if len(e.Results) == 2 && strings.Join(m.results, ",") != strings.Join(e.Results, ",") {
							return vfrun.Failf("rewrite.named-results-changed", "step %d: result names of %s changed: was %v now %v", si, key, e.Results, m.results)
						}
						for _, im := range e.Imports {
							found := false
							for _, have := range p.imports[m.file] {
								if have == im {
									found = true
								}
								// an import the user wrote without a name may come back with the
								// package's own name spelled out (rand "math/rand/v2"): the same import
								if !strings.Contains(im, " ") && strings.HasSuffix(have, " "+im) && !strings.HasPrefix(have, ". ") && !strings.HasPrefix(have, "_ ") {
									found = true
								}
							}
							if !found {
								key2 := "rewrite.import-dropped"
								if strings.HasSuffix(im, "/errors") {
									key2 = "rewrite.reserved-import-name"
								} else if e.File != "" && e.File != filepath.Base(m.file) {
									key2 = "rewrite.import-lost-on-file-move"
								}
								if vfrun.IsKnown(key2) {
									importFinding = true
									continue
								}
								return vfrun.Failf(key2, "step %d: %s uses import %q, which is gone from %s after regeneration (imports now %v)", si, key, im, filepath.Base(m.file), p.imports[m.file])
							}
						}
					} else if e.Body != "" {
						// removed or renamed: the body must still be somewhere in this run's output
						if !strings.Contains(squash(p.all), squash(e.Body)) {
							if st.Times > 1 && k > 0 {
								continue // only the output of the run that dropped it is promised to hold it
							}
							return vfrun.Failf("rewrite.removed-resolver-body-lost", "step %d: resolver %s was removed from the schema; its body is nowhere in the regenerated files\nbody:\n%s", si, key, e.Body)
						}
						if k == 0 {
							delete(exp.edits, key)
						}
					}
				}
				if k == 0 {
					for _, h := range exp.helpers {
						if !strings.Contains(squash(p.all), squash(h.Text)) {
							return vfrun.Failf("rewrite.helper-lost", "step %d: helper declaration is nowhere in the regenerated files:\n%s\nfiles:\n%s", si, h.Text, p.all)
						}
					}
					// the helpers were moved into the warning block by this run; the property promises
					// them for the output of this run only (a comment is not carried over again)
					exp.helpers = nil
				}
				if !helpers && onlyAdded && builtBefore && !importFinding {
					if out, err := runBuild(dir); err != nil {
						return vfrun.Failf("rewrite.build-broken-by-regeneration", "step %d: the package compiled before, only fields were added, and it no longer compiles:\n%s", si, tailStr(out))
					}
				}
			}
			if edited && evolved {
				vfrun.Label("regeneration-after-edit-and-evolution")
			}
		}
	}
	tricky := false
	for _, e := range exp.edits {
		if strings.Contains(e.Body, "{ }") || strings.Contains(e.Body, "`") {
			tricky = true
		}
	}
	if edited && evolved && (tricky || helpers) {
		vfrun.NonTrivial(fmt.Sprintf("%+v", c))
	}
	vfrun.Label("layout:" + c.Layout)
	vfrun.SampleCat(c.Layout, c)
	return nil
}

// allHelpers: everything that may end up in the warning block (helpers and bodies of resolvers).
func allHelpers(e expectation) string {
	var sb strings.Builder
	for _, h := range e.helpers {
		sb.WriteString(h.Text)
	}
	for _, ed := range e.edits {
		sb.WriteString(ed.Body)
	}
	return sb.String()
}

func runBuild(dir string) (string, error) {
	cmd := exec.Command("go", "build", "-trimpath", ".")
	cmd.Dir = dir
	var out bytes.Buffer
	cmd.Stdout, cmd.Stderr = &out, &out
	err := cmd.Run()
	return out.String(), err
}

func tailStr(s string) string {
	if len(s) > 2500 {
		return "…" + s[len(s)-2500:]
	}
	return s
}

// ---------------------------------------------------------------------------------------------
// generators

var stmtPool = []string{
	"x := 1\n_ = x",
	"if len(\"a\") > 0 {\n\t_ = 1\n}",
	"for i := 0; i < 3; i++ {\n\tif i == 1 {\n\t\tcontinue\n\t}\n}",
	"s := \"braces { } and quote \\\" in a string\"\n_ = s",
	"raw := `raw { string } with \"quotes\"`\n_ = raw",
	"// a line comment with a brace {",
	"f := func(n int) int {\n\treturn n + 1\n}\n_ = f(2)",
	"outer:\n\tfor {\n\t\tbreak outer\n\t}",
	"switch {\ncase true:\n\t_ = 0\ndefault:\n}",
	"var m = map[string][]int{\"k\": {1, 2}}\n_ = m",
	"_ = struct{ A, B int }{1, 2}",
	"defer func() { _ = recover() }()",
	"rn := '}'\n_ = rn",
}

var importUses = []struct{ imp, stmt string }{
	{"strings", "_ = strings.ToUpper(\"a\")"},
	{"fmt", "_ = fmt.Sprint(1)"},
	{"u PKG/util", "_ = u.Wrap(\"x\")"},
	{"PKG/errors", "_ = errors.Wrap(\"x\")"},
	{"os", "_ = os.Getpid()"},
	{". PKG/dotutil", "_ = DotWrap(\"d\")"},
	// an alias that is not the package's name but happens to be the tail of its path
	{"util PKG/strutil", "_ = util.Pad(\"p\")"},
	// a standard-library package whose name is not the last element of its path
	{"math/rand/v2", "_ = rand.IntN(3)"},
}

func genBody(t *rapid.T, n int, allowReservedImport bool) (string, []string) {
	var parts []string
	var imps []string
	k := rapid.IntRange(1, 4).Draw(t, "nstmts")
	pool := stmtPool
	if allowReservedImport {
		// the hostile variant: block comments inside bodies (known finding when such a body is moved
		// into the warning block)
		pool = append(append([]string{}, stmtPool...), "/* a block comment } */")
	}
	perm := rapid.Permutation(pool).Draw(t, "stmts")
	parts = append(parts, perm[:k]...)
	if rapid.Bool().Draw(t, "useimport") {
		pool := importUses
		if !allowReservedImport {
			pool = append(append([]struct{ imp, stmt string }{}, importUses[:3]...), importUses[4], importUses[5], importUses[6], importUses[7])
		}
		u := pool[rapid.IntRange(0, len(pool)-1).Draw(t, "import")]
		parts = append(parts, u.stmt)
		imps = append(imps, u.imp)
	}
	parts = append(parts, fmt.Sprintf("panic(\"impl %d\")", n))
	for i := range parts {
		parts[i] = "\t" + strings.ReplaceAll(parts[i], "\n", "\n\t")
	}
	return strings.Join(parts, "\n"), imps
}

var helperPool = []string{
	"func helperOne(a int) int {\n\treturn a * 2\n}",
	"type helperType struct {\n\tA int\n\tB string\n}",
	"var helperVar = map[string]int{\"a\": 1}",
	"const helperConst = \"c { }\"",
	"func (h helperType2) Method() string {\n\treturn \"m\"\n}\n\ntype helperType2 struct{}",
	"func (h helperType3) Alpha() string {\n\treturn \"same name as a resolver method\"\n}\n\ntype helperType3 struct{}",
}

var hostileHelpers = []string{
	"var terminator = \"*/\"",
	"func withBlockComment() {\n\t/* inner */\n}",
}

func methodsOf(m SchemaModel) []string {
	var out []string
	for _, t := range m.Types {
		for _, f := range t.Fields {
			out = append(out, lcFirst(t.Name)+"Resolver."+ucFirst(f.Name))
		}
	}
	return out
}

var fieldNames = []string{"alpha", "beta", "gamma", "delta", "epsilon", "zeta", "eta", "theta", "iota", "kappa"}
var fieldTypes = []string{"String", "Int!", "[String!]", "Boolean", "Thing", "[Thing!]!", "Stamp", "Stamp!"}

// evolve draws one schema evolution. preferred lists "Type.field" of resolvers the user has edited:
// removals and renames pick among them most of the time (that is where user code can be lost).
func evolve(t *rapid.T, m SchemaModel, preferred []string) (SchemaModel, string) {
	cp := SchemaModel{}
	for _, ty := range m.Types {
		cp.Types = append(cp.Types, Type{Name: ty.Name, Fields: append([]Field(nil), ty.Fields...)})
	}
	op := rapid.SampledFrom([]string{"add-field", "add-field", "remove-field", "rename-field", "move-field", "add-type", "remove-type"}).Draw(t, "op")
	ti := rapid.IntRange(0, len(cp.Types)-1).Draw(t, "type")
	prefField := -1
	if (op == "remove-field" || op == "rename-field" || op == "move-field") && len(preferred) > 0 && rapid.IntRange(0, 3).Draw(t, "preferred?") != 0 {
		pf := strings.SplitN(preferred[rapid.IntRange(0, len(preferred)-1).Draw(t, "preferred")], ".", 2)
		for i, ty := range cp.Types {
			if ty.Name == pf[0] {
				for k, f := range ty.Fields {
					if f.Name == pf[1] {
						ti, prefField = i, k
					}
				}
			}
		}
	}
	pickField := func() int {
		if prefField >= 0 {
			return prefField
		}
		return rapid.IntRange(0, len(cp.Types[ti].Fields)-1).Draw(t, "which")
	}
	used := func(ty Type, n string) bool {
		for _, f := range ty.Fields {
			if f.Name == n {
				return true
			}
		}
		return false
	}
	fresh := func(ty Type) string {
		for _, n := range fieldNames {
			if !used(ty, n) {
				return n
			}
		}
		return fmt.Sprintf("f%d", len(ty.Fields))
	}
	switch op {
	case "add-field":
		cp.Types[ti].Fields = append(cp.Types[ti].Fields, Field{Name: fresh(cp.Types[ti]), Type: rapid.SampledFrom(fieldTypes).Draw(t, "ftype"), Args: rapid.SampledFrom([]string{"", "", "(n: Int)"}).Draw(t, "fargs")})
	case "remove-field":
		if len(cp.Types[ti].Fields) > 1 {
			k := pickField()
			cp.Types[ti].Fields = append(cp.Types[ti].Fields[:k], cp.Types[ti].Fields[k+1:]...)
		} else {
			op = "noop"
		}
	case "rename-field":
		k := pickField()
		cp.Types[ti].Fields[k].Name = fresh(cp.Types[ti])
	case "move-field":
		k := pickField()
		cp.Types[ti].Fields[k].File = 1 - cp.Types[ti].Fields[k].File
	case "add-type":
		name := fmt.Sprintf("Extra%d", len(cp.Types))
		cp.Types = append(cp.Types, Type{Name: name, Fields: []Field{{Name: "alpha", Type: "String"}}})
		cp.Types[0].Fields = append(cp.Types[0].Fields, Field{Name: fresh(cp.Types[0]), Type: name})
	case "remove-type":
		// only types nothing refers to (the extras)
		last := cp.Types[len(cp.Types)-1]
		if strings.HasPrefix(last.Name, "Extra") {
			cp.Types = cp.Types[:len(cp.Types)-1]
			var keep []Field
			for _, f := range cp.Types[0].Fields {
				if f.Type != last.Name {
					keep = append(keep, f)
				}
			}
			cp.Types[0].Fields = keep
		} else {
			op = "noop"
		}
	}
	return cp, op
}

func gen(t *rapid.T) Case {
	c := Case{Layout: rapid.SampledFrom([]string{"follow-schema", "follow-schema", "single-file"}).Draw(t, "layout")}
	if rapid.IntRange(0, 3).Draw(t, "samebase") == 0 {
		c.SameBase = true
		vfrun.Label("same-base-name-schema-files:" + c.Layout)
	}
	if rapid.IntRange(0, 2).Draw(t, "omit_template_comment") == 0 {
		c.ResolverOpts = append(c.ResolverOpts, "omit_template_comment")
	}
	c.Schema = SchemaModel{Types: []Type{
		{Name: "Query", Fields: []Field{{Name: "alpha", Type: "String"}, {Name: "thing", Type: "Thing", Args: "(id: ID!)"}, {Name: "beta", Type: "[Thing!]!", File: 1}}},
		{Name: "Thing", Fields: []Field{{Name: "alpha", Type: "String"}, {Name: "gamma", Type: "String"}, {Name: "delta", Type: "Int!", File: 1}, {Name: "beta", Type: "Int"}}},
	}}
	if rapid.IntRange(0, 2).Draw(t, "roots") == 0 {
		// the other root types: mutation resolvers, and subscription resolvers whose value result is a
		// receive-only channel
		c.Schema.Types = append(c.Schema.Types,
			Type{Name: "Mutation", Fields: []Field{{Name: "setAlpha", Type: "String", Args: "(v: String!)"}, {Name: "bump", Type: "Int!", File: 1}}},
			Type{Name: "Subscription", Fields: []Field{{Name: "ticks", Type: "Int!"}, {Name: "things", Type: "Thing", File: 1}}})
	}
	cur := c.Schema
	nsteps := rapid.IntRange(2, 6).Draw(t, "nsteps")
	n := 0
	var editedFields []string
	hostile := rapid.IntRange(0, 5).Draw(t, "hostile") == 0
	for i := 0; i < nsteps; i++ {
		kind := rapid.SampledFrom([]string{"edit", "edit", "evolve", "regenerate"}).Draw(t, "kind")
		switch kind {
		case "edit":
			st := Step{Kind: "edit"}
			ms := methodsOf(cur)
			k := rapid.IntRange(1, min(3, len(ms))).Draw(t, "nedits")
			perm := rapid.Permutation(ms).Draw(t, "which")
			for _, m := range perm[:k] {
				n++
				body, imps := genBody(t, n, hostile)
				e := Edit{Method: m, Body: body, Imports: imps}
				if rapid.Bool().Draw(t, "doc") {
					e.Doc = rapid.SampledFrom([]string{"documented by the user.", "two\nlines", "with { brace", "first paragraph of the user\n\nDeprecated: second paragraph.", "a\n\nb\n\nc"}).Draw(t, "doctext")
				}
				if rapid.IntRange(0, 3).Draw(t, "named") == 0 {
					e.Results = []string{"res", "err"}
				}
				st.Edits = append(st.Edits, e)
				// "queryResolver.Alpha" -> "Query.alpha"
				mp := strings.SplitN(m, ".", 2)
				editedFields = append(editedFields, ucFirst(strings.TrimSuffix(mp[0], "Resolver"))+"."+lcFirst(mp[1]))
			}
			if rapid.IntRange(0, 2).Draw(t, "helper") == 0 {
				pool := helperPool
				if hostile {
					pool = append(append([]string{}, helperPool...), hostileHelpers...)
				}
				st.Helpers = append(st.Helpers, Helper{Text: rapid.SampledFrom(pool).Draw(t, "helpertext")})
			}
			c.Steps = append(c.Steps, st)
		case "evolve":
			nm, op := evolve(t, cur, editedFields)
			if op == "noop" {
				continue
			}
			cur = nm
			c.Steps = append(c.Steps, Step{Kind: "evolve", Schema: &nm, Op: op})
		default:
			c.Steps = append(c.Steps, Step{Kind: "regenerate", Times: rapid.IntRange(1, 3).Draw(t, "times")})
		}
	}
	c.Steps = append(c.Steps, Step{Kind: "regenerate", Times: rapid.IntRange(1, 2).Draw(t, "finaltimes")})
	// helper names must be unique within a package
	seen := map[string]bool{}
	for si := range c.Steps {
		var keep []Helper
		for _, h := range c.Steps[si].Helpers {
			if !seen[h.Text] {
				seen[h.Text] = true
				keep = append(keep, h)
			}
		}
		c.Steps[si].Helpers = keep
	}
	return c
}

func TestRegeneration(t *testing.T) {
	vfrun.Run(t, vfrun.Prop[Case]{Property: "C19", Name: "TestRegeneration", Gen: gen, Check: check}, vfrun.N(80, 1000))
}
