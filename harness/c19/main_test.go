package c19

import (
	"testing"

	"vh/vfrun"
)

func TestMain(m *testing.M) { vfrun.Main(m) }
