package c20

import (
	"context"
	"encoding/json"
	"errors"
	"fmt"
	"go/ast"
	"go/parser"
	"go/token"
	"os"
	"path/filepath"
	"reflect"
	"sort"
	"strings"
	"sync"
	"testing"
	"time"

	"pgregory.net/rapid"

	"vh/kit"
	"vh/plan"
	"vh/proj"
	"vh/strictjson"
	"vh/univ"
	"vh/vfrun"
)

// the entities of the fed probes: keys in declaration order
type keyDef struct {
	resolver string
	fields   [][]string // each key field as a path
}

type entityDef struct {
	name  string
	multi bool
	keys  []keyDef
}

var entities = []entityDef{
	{"User", false, []keyDef{{"FindUserByID", [][]string{{"id"}}}}},
	{"Item", false, []keyDef{{"FindItemBySku", [][]string{{"sku"}}}, {"FindItemByUpc", [][]string{{"upc"}}}}},
	{"Pair", false, []keyDef{{"FindPairByAAndB", [][]string{{"a"}, {"b"}}}}},
	{"Crate", false, []keyDef{{"FindCrateBySkuAndRegion", [][]string{{"sku"}, {"region"}}}, {"FindCrateByUpc", [][]string{{"upc"}}}}},
	{"Nested", false, []keyDef{{"FindNestedByOwnerIDAndCode", [][]string{{"owner", "id"}, {"code"}}}}},
	{"Planet", false, []keyDef{{"FindPlanetByName", [][]string{{"name"}}}}},
	{"Shipment", false, []keyDef{{"FindShipmentByID", [][]string{{"id"}}}}},
	{"MUser", true, []keyDef{{"FindManyMUserByIDs", [][]string{{"id"}}}}},
	{"MItem", true, []keyDef{{"FindManyMItemBySkus", [][]string{{"sku"}}}, {"FindManyMItemByUpcs", [][]string{{"upc"}}}}},
}

// valueEntities: do the entity resolvers of this vector return values instead of pointers?
func valueEntities(s *proj.Server) bool {
	f := reflect.ValueOf(s.Stub).Elem().FieldByName("EntityResolver").FieldByName("FindUserByID")
	return f.IsValid() && f.Type().Out(0).Kind() != reflect.Ptr
}

func entityByName(n string) *entityDef {
	for i := range entities {
		if entities[i].name == n {
			return &entities[i]
		}
	}
	return nil
}

// Case: a list of representations (JSON objects as text) and per-key outcomes.
type Case struct {
	Project  string            `json:"project"`
	Reps     []string          `json:"representations"`
	Outcomes map[string]string `json:"outcomes,omitempty"` // key description -> error | panic | nil | batch-error
	DelaysUS map[string]int    `json:"delays_us,omitempty"`
}

const query = `query($r: [_Any!]!) { _entities(representations: $r) { __typename ... on User { marker } ... on Item { marker } ... on Pair { marker } ... on Crate { marker } ... on Nested { marker } ... on Planet { marker diameter size } ... on Shipment { marker volume cost tax crateWeight crate { weight box { dims { width height } } } } ... on MUser { marker } ... on MItem { marker } } }`

// state the entity resolvers consult
type state struct {
	mu       sync.Mutex
	outcomes map[string]string
	delays   map[string]int
	calls    []string
}

var cur = &state{}

func setState(c Case) {
	cur.mu.Lock()
	cur.outcomes, cur.delays, cur.calls = c.Outcomes, c.DelaysUS, nil
	cur.mu.Unlock()
}

func keyDesc(resolver string, vals []any) string {
	b, _ := json.Marshal(vals)
	return resolver + string(b)
}

func treeVals(args []reflect.Value) []any {
	var out []any
	for _, a := range args {
		out = append(out, univ.ToTree(a))
	}
	return out
}

func newEntity(t reflect.Type, marker string) reflect.Value {
	// t is *Entity, or Entity with resolvers_always_return_pointers: false
	st := t
	if t.Kind() == reflect.Ptr {
		st = t.Elem()
	}
	p := reflect.New(st)
	f := p.Elem().FieldByName("Marker")
	if f.IsValid() {
		m := marker
		if f.Kind() == reflect.Ptr {
			f.Set(reflect.ValueOf(&m))
		} else {
			f.SetString(m)
		}
	}
	allocNested(p.Elem(), 0)
	if t.Kind() == reflect.Ptr {
		return p
	}
	return p.Elem()
}

// allocNested gives every pointer-to-struct field a value (the generated code assigns @requires
// fields into the entity the resolver returned: entity.Crate.Box.Dims.Width = ...).
func allocNested(v reflect.Value, depth int) {
	if depth > 4 || v.Kind() != reflect.Struct {
		return
	}
	for i := 0; i < v.NumField(); i++ {
		f := v.Field(i)
		if f.Kind() == reflect.Ptr && f.Type().Elem().Kind() == reflect.Struct && f.CanSet() && f.Type().Elem() != v.Type() {
			f.Set(reflect.New(f.Type().Elem()))
			allocNested(f.Elem(), depth+1)
		}
	}
}

var errType = reflect.TypeOf((*error)(nil)).Elem()

func outcomeOf(desc string) (string, int) {
	cur.mu.Lock()
	defer cur.mu.Unlock()
	cur.calls = append(cur.calls, desc)
	return cur.outcomes[desc], cur.delays[desc]
}

// entityParamNames reads the parameter names of the generated EntityResolver interface from the
// generated sources: a user's resolver body refers to its parameters by name, so the names are part
// of what is generated (reflection does not see them).
func entityParamNames(p *proj.Project) map[string][]string {
	out := map[string][]string{}
	dir := filepath.Join(os.Getenv("VF_WORK"), "h", "gen", p.Name, p.Vec)
	pkgs, err := parser.ParseDir(token.NewFileSet(), dir, nil, 0)
	if err != nil {
		return out
	}
	for _, pkg := range pkgs {
		for _, f := range pkg.Files {
			ast.Inspect(f, func(n ast.Node) bool {
				ts, ok := n.(*ast.TypeSpec)
				if !ok || ts.Name.Name != "EntityResolver" {
					return true
				}
				it, ok := ts.Type.(*ast.InterfaceType)
				if !ok {
					return true
				}
				for _, m := range it.Methods.List {
					ft, ok := m.Type.(*ast.FuncType)
					if !ok || len(m.Names) == 0 {
						continue
					}
					var names []string
					for _, prm := range ft.Params.List {
						for _, n := range prm.Names {
							names = append(names, n.Name)
						}
					}
					if len(names) > 0 {
						out[m.Names[0].Name] = names[1:] // without ctx
					}
				}
				return false
			})
		}
	}
	return out
}

// goParam: the parameter name gqlgen gives a key field (sku -> sku, owner { id } -> ownerID).
func goParam(path []string) string {
	out := path[0]
	for _, p := range path[1:] {
		if p == "id" {
			out += "ID"
		} else {
			out += strings.ToUpper(p[:1]) + p[1:]
		}
	}
	return out
}

// byDeclaration orders the values a single-entity resolver received into the declaration order of
// its key, going by the names of the parameters they were bound to (as a hand-written body would).
func byDeclaration(resolver string, params []string, vals []any) []any {
	for _, ent := range entities {
		for _, kd := range ent.keys {
			if kd.resolver != resolver || len(kd.fields) != len(vals) || len(params) != len(vals) {
				continue
			}
			out := make([]any, len(vals))
			for k, path := range kd.fields {
				at := -1
				for j, pn := range params {
					if pn == goParam(path) {
						at = j
					}
				}
				if at < 0 {
					return vals
				}
				out[k] = vals[at]
			}
			return out
		}
	}
	return vals
}

// fillEntityResolvers installs the harness's entity resolvers into a generated Stub.
func fillEntityResolvers(stub any, paramNames map[string][]string) {
	sv := reflect.ValueOf(stub).Elem().FieldByName("EntityResolver")
	st := sv.Type()
	for i := 0; i < st.NumField(); i++ {
		name := st.Field(i).Name
		ft := st.Field(i).Type
		multi := strings.HasPrefix(name, "FindMany")
		sv.Field(i).Set(reflect.MakeFunc(ft, func(in []reflect.Value) []reflect.Value {
			noErr := reflect.Zero(errType)
			mkErr := func(msg string) reflect.Value { return reflect.ValueOf(errors.New(msg)).Convert(errType) }
			if !multi {
				desc := keyDesc(name, byDeclaration(name, paramNames[name], treeVals(in[1:])))
				oc, d := outcomeOf(desc)
				if d > 0 {
					time.Sleep(time.Duration(d) * time.Microsecond)
				}
				switch oc {
				case "error":
					return []reflect.Value{reflect.Zero(ft.Out(0)), mkErr("entity resolver failed for " + desc)}
				case "panic":
					panic("entity resolver panicked for " + desc)
				case "nil":
					return []reflect.Value{reflect.Zero(ft.Out(0)), noErr}
				}
				return []reflect.Value{newEntity(ft.Out(0), desc), noErr}
			}
			reps := in[1]
			out := reflect.MakeSlice(ft.Out(0), reps.Len(), reps.Len())
			fail := ""
			for k := 0; k < reps.Len(); k++ {
				el := reps.Index(k).Elem()
				var vals []any
				for f := 0; f < el.NumField(); f++ {
					vals = append(vals, univ.ToTree(el.Field(f)))
				}
				desc := keyDesc(name, vals)
				oc, d := outcomeOf(desc)
				if d > 0 {
					time.Sleep(time.Duration(d) * time.Microsecond)
				}
				switch oc {
				case "error", "batch-error":
					fail = "error"
				case "panic":
					fail = "panic"
				case "nil":
				default:
					out.Index(k).Set(newEntity(ft.Out(0).Elem(), desc))
				}
			}
			switch fail {
			case "error":
				return []reflect.Value{reflect.Zero(ft.Out(0)), mkErr("batch failed in " + name)}
			case "panic":
				panic("batch panicked in " + name)
			}
			return []reflect.Value{out, noErr}
		}))
	}
}

// fillRequiresResolvers (federation computed_requires): a @requires field is a resolver that is handed
// its representation; it answers with the sum of the numbers its @requires selection names, so the
// response tells which representation gqlgen handed over.
func fillRequiresResolvers(stub any) {
	sv := reflect.ValueOf(stub).Elem()
	mapT := reflect.TypeOf(map[string]any{})
	for i := 0; i < sv.NumField(); i++ {
		rs := sv.Field(i)
		if rs.Kind() != reflect.Struct {
			continue
		}
		for j := 0; j < rs.NumField(); j++ {
			ft := rs.Type().Field(j).Type
			if ft.Kind() != reflect.Func || ft.NumIn() < 3 || ft.In(ft.NumIn()-1) != mapT || !rs.Field(j).CanSet() {
				continue
			}
			fname := rs.Type().Field(j).Name
			rs.Field(j).Set(reflect.MakeFunc(ft, func(in []reflect.Value) []reflect.Value {
				sum := requiredSum(fname, in[len(in)-1].Interface())
				out := reflect.New(ft.Out(0)).Elem()
				switch out.Kind() {
				case reflect.Int, reflect.Int64, reflect.Int32:
					out.SetInt(sum)
				case reflect.Ptr:
					p := reflect.New(out.Type().Elem())
					p.Elem().SetInt(sum)
					out.Set(p)
				}
				return []reflect.Value{out, reflect.Zero(errType)}
			}))
		}
	}
}

// requiredSum: the resolver is handed the whole representation; it reads the selection its own
// @requires names.
func requiredSum(field string, rep any) int64 {
	at := func(path ...string) any {
		v := rep
		for _, p := range path {
			m, _ := v.(map[string]any)
			v = m[p]
		}
		return v
	}
	switch field {
	case "Volume":
		return sumNumbers(at("crate", "box", "dims", "width")) + sumNumbers(at("crate", "box", "dims", "height"))
	case "Cost":
		return sumNumbers(at("crate", "weight"))
	case "Tax":
		return sumNumbers(at("crateWeight"))
	}
	return sumNumbers(rep)
}

func sumNumbers(v any) int64 {
	switch x := v.(type) {
	case map[string]any:
		var s int64
		for _, e := range x {
			s += sumNumbers(e)
		}
		return s
	case []any:
		var s int64
		for _, e := range x {
			s += sumNumbers(e)
		}
		return s
	case json.Number:
		n, _ := x.Int64()
		return n
	case float64:
		return int64(x)
	case int:
		return int64(x)
	case int64:
		return x
	}
	return 0
}

var (
	srvMu sync.Mutex
	built = map[string][]*proj.Server{}
)

func servers(name string) ([]*proj.Server, error) {
	srvMu.Lock()
	defer srvMu.Unlock()
	if s, ok := built[name]; ok {
		return s, nil
	}
	ss, err := kit.Servers(name)
	if err != nil {
		return nil, err
	}
	for _, s := range ss {
		names := entityParamNames(s.P)
		if len(names) == 0 {
			return nil, fmt.Errorf("no EntityResolver interface found in the generated sources of %s/%s", s.P.Name, s.P.Vec)
		}
		fillEntityResolvers(s.Stub, names)
		fillRequiresResolvers(s.Stub)
	}
	built[name] = ss
	return ss, nil
}

// ---------------------------------------------------------------------------------------------
// the model

type expected struct {
	null    bool
	failing bool   // an error must be reported
	marker  string // key description
	group   string // multi: batch group
	typ     string
	diam    *int64
	dims    *[2]int64 // width, height of a Shipment's nested @requires
	weights *[2]int64 // crate.weight and crateWeight of a Shipment
}

func lookupPath(m map[string]any, path []string) (any, bool) {
	var cur any = m
	for _, p := range path {
		mm, ok := cur.(map[string]any)
		if !ok {
			return nil, false
		}
		v, ok := mm[p]
		if !ok {
			return nil, false
		}
		cur = v
	}
	return cur, true
}

// keyValue coerces a representation value the way the key's GraphQL type does; ok=false if it
// cannot be coerced (then the representation fails).
func keyValue(ent string, path []string, v any) (any, bool) {
	last := path[len(path)-1]
	switch {
	case ent == "Pair" && last == "b": // Int!
		switch x := v.(type) {
		case json.Number:
			n, err := x.Int64()
			if err != nil {
				return nil, false
			}
			return n, true
		}
		return nil, false
	case last == "id": // ID!
		switch x := v.(type) {
		case string:
			return x, true
		case json.Number:
			return string(x), true
		}
		return nil, false
	case last == "sku" || last == "upc" || last == "region": // String (nullable)
		switch x := v.(type) {
		case string:
			return x, true
		case nil:
			return nil, true
		}
		return nil, false
	default: // String!
		if s, ok := v.(string); ok {
			return s, true
		}
		return nil, false
	}
}

// hetero: multi entity types whose representations in this request do not all use the same key
// resolver, or of which some cannot be resolved at all (the known finding's input class)
var hetero map[string]bool

func model(c Case) ([]expected, bool) {
	hetero = map[string]bool{}
	usedResolver := map[string]string{}
	exp := make([]expected, len(c.Reps))
	type member struct {
		i    int
		desc string
	}
	groups := map[string][]member{}
	var groupOrder []string
	lenient := false
	for i, raw := range c.Reps {
		var rep map[string]any
		dec := json.NewDecoder(strings.NewReader(raw))
		dec.UseNumber()
		if err := dec.Decode(&rep); err != nil {
			exp[i] = expected{null: true, failing: true}
			continue
		}
		tn, ok := rep["__typename"].(string)
		ent := entityByName(tn)
		if !ok || ent == nil {
			exp[i] = expected{null: true, failing: true}
			continue
		}
		var chosen *keyDef
		var vals []any
		for k := range ent.keys {
			kd := &ent.keys[k]
			all, allNull := true, true
			var vs []any
			for _, path := range kd.fields {
				v, ok := lookupPath(rep, path)
				if !ok {
					all = false
					break
				}
				if v != nil {
					allNull = false
				}
				vs = append(vs, v)
			}
			if all && !allNull {
				chosen, vals = kd, vs
				break
			}
		}
		if chosen == nil {
			exp[i] = expected{null: true, failing: true, typ: ent.name}
			if ent.multi {
				hetero[ent.name] = true
			}
			continue
		}
		if ent.multi {
			if r, ok := usedResolver[ent.name]; ok && r != chosen.resolver {
				hetero[ent.name] = true
			}
			usedResolver[ent.name] = chosen.resolver
		}
		var coerced []any
		bad := false
		for k, v := range vals {
			cv, ok := keyValue(ent.name, chosen.fields[k], v)
			if !ok {
				bad = true
			}
			coerced = append(coerced, cv)
		}
		if bad {
			exp[i] = expected{null: true, failing: true, typ: ent.name}
			if ent.multi {
				hetero[ent.name] = true
				// a representation that cannot be decoded fails its batch: which members are
				// affected is not documented
				lenient = true
			}
			continue
		}
		desc := keyDesc(chosen.resolver, coerced)
		e := expected{marker: desc, typ: ent.name}
		if ent.name == "Shipment" {
			if w, ok := lookupPath(rep, []string{"crate", "box", "dims", "width"}); ok {
				if h, ok2 := lookupPath(rep, []string{"crate", "box", "dims", "height"}); ok2 {
					wn, _ := w.(json.Number)
					hn, _ := h.(json.Number)
					wi, e1 := wn.Int64()
					hi, e2 := hn.Int64()
					if e1 == nil && e2 == nil {
						e.dims = &[2]int64{wi, hi}
					}
					cw, ok3 := lookupPath(rep, []string{"crate", "weight"})
					fw, ok4 := lookupPath(rep, []string{"crateWeight"})
					if ok3 && ok4 {
						cn, _ := cw.(json.Number)
						fn, _ := fw.(json.Number)
						ci, e3 := cn.Int64()
						fi, e4 := fn.Int64()
						if e3 == nil && e4 == nil {
							e.weights = &[2]int64{ci, fi}
						}
					}
				}
			}
		}
		if ent.name == "Planet" {
			if dv, ok := rep["diameter"].(json.Number); ok {
				n, err := dv.Int64()
				if err == nil {
					e.diam = &n
				} else {
					e = expected{null: true, failing: true}
				}
			}
			// a representation without its @requires field: gateways always send it; what the
			// server does without it is not documented, the diameter is then not asserted
		}
		if ent.multi {
			g := ent.name + "/" + chosen.resolver
			if _, ok := groups[g]; !ok {
				groupOrder = append(groupOrder, g)
			}
			groups[g] = append(groups[g], member{i, desc})
			e.group = g
		} else if !e.null {
			switch c.Outcomes[desc] {
			case "error", "panic", "batch-error":
				e = expected{null: true, failing: true}
			case "nil":
				e = expected{null: true}
			}
		}
		exp[i] = e
	}
	for _, g := range groupOrder {
		fail := false
		for _, m := range groups[g] {
			switch c.Outcomes[m.desc] {
			case "error", "panic", "batch-error":
				fail = true
			}
		}
		for _, m := range groups[g] {
			switch {
			case fail:
				exp[m.i] = expected{null: true, failing: true, group: g, typ: exp[m.i].typ}
			case c.Outcomes[m.desc] == "nil":
				exp[m.i] = expected{null: true, group: g, typ: exp[m.i].typ}
			}
		}
	}
	return exp, lenient
}

func check(c Case) *vfrun.Failure {
	ss, err := servers(c.Project)
	if err != nil {
		return vfrun.Failf("harness.no-project", "%v", err)
	}
	exp, lenient := model(c)
	reps := make([]any, len(c.Reps))
	for i, raw := range c.Reps {
		dec := json.NewDecoder(strings.NewReader(raw))
		dec.UseNumber()
		var v any
		if err := dec.Decode(&v); err != nil {
			return vfrun.Failf("harness.bad-case", "%v", err)
		}
		reps[i] = v
	}
	for _, s := range ss {
		setState(c)
		kit.Journal(map[string]any{"case": c, "vector": s.P.Vec})
		e := univ.NewExec(plan.New(1))
		resp := s.Do(context.Background(), e, query, "", map[string]any{"r": reps})
		vfrun.Eval()
		desc := fmt.Sprintf("[%s/%s] representations %v outcomes %v", c.Project, s.P.Vec, c.Reps, c.Outcomes)
		if resp.Panic != nil {
			return vfrun.Failf("entities.panic-escaped", "%s: panic %v\n%s", desc, resp.Panic, resp.PanicStack)
		}
		if resp.Rejected {
			return vfrun.Failf("entities.request-rejected", "%s: %v", desc, resp.Errors)
		}
		data, perr := strictjson.Parse(resp.Data)
		if perr != nil {
			return vfrun.Failf("entities.not-json", "%s: %v", desc, perr)
		}
		list := data.Get("_entities")
		if list == nil || list.Kind != strictjson.Array || len(list.Arr) != len(c.Reps) {
			return vfrun.Failf("entities.length", "%s: _entities is %s, want a list of %d; errors %v", desc, resp.Data, len(c.Reps), resp.Errors)
		}
		anyFailing := false
		knownHit := false
		for i, ex := range exp {
			el := list.Arr[i]
			if ex.failing {
				anyFailing = true
			}
			multiMixed := hetero[ex.typ]
			if multiMixed && vfrun.KnownListed("entities.multi-resolver-from-first-rep") {
				// known finding: the whole batch of a multi entity type is resolved through the key
				// resolver of its first representation; elements of such a batch are not asserted
				knownHit = true
				continue
			}
			if ex.null && !ex.failing && valueEntities(s) {
				// resolvers that return values (resolvers_always_return_pointers: false) cannot say
				// "no entity": the zero entity stands there
				continue
			}
			if ex.null {
				if el.Kind != strictjson.Null {
					key := "entities.failed-representation-not-null"
					if multiMixed {
						key = "entities.multi-resolver-from-first-rep"
					}
					if lenient && ex.group != "" {
						continue
					}
					return vfrun.Failf(key, "%s: element %d should be null (representation %s cannot be resolved) but is %s; errors %v", desc, i, c.Reps[i], el.Canon(), resp.Errors)
				}
				continue
			}
			if el.Kind != strictjson.Object {
				key := "entities.element-lost"
				if multiMixed {
					key = "entities.multi-resolver-from-first-rep"
				}
				if lenient && ex.group != "" {
					continue
				}
				return vfrun.Failf(key, "%s: element %d is %s, want the entity resolved from representation %s (%s); errors %v", desc, i, el.Canon(), c.Reps[i], ex.marker, resp.Errors)
			}
			m := el.Get("marker")
			if m == nil || m.Kind != strictjson.String || m.Str != ex.marker {
				key := "entities.wrong-entity-at-index"
				if multiMixed {
					key = "entities.multi-resolver-from-first-rep"
				}
				return vfrun.Failf(key, "%s: element %d is %s, but representation %d (%s) resolves to %s", desc, i, el.Canon(), i, c.Reps[i], ex.marker)
			}
			computed := strings.Contains(s.P.Options["federation_options"], "computed_requires")
			if computed {
				// the required fields are not copied into the entity but handed to the resolver of
				// the field that requires them
				if ex.dims != nil {
					if v := el.Get("volume"); v == nil || v.Canon() != fmt.Sprint(ex.dims[0]+ex.dims[1]) {
						return vfrun.Failf("entities.requires-from-other-representation", "%s: element %d: the resolver of volume was handed required fields that sum to %v, its representation's sum to %d", desc, i, v, ex.dims[0]+ex.dims[1])
					}
				}
				if ex.weights != nil {
					if v := el.Get("cost"); v == nil || v.Canon() != fmt.Sprint(ex.weights[0]) {
						return vfrun.Failf("entities.requires-from-other-representation", "%s: element %d: the resolver of cost was handed crate.weight %v, its representation says %d", desc, i, v, ex.weights[0])
					}
					if v := el.Get("tax"); v == nil || v.Canon() != fmt.Sprint(ex.weights[1]) {
						return vfrun.Failf("entities.requires-from-other-representation", "%s: element %d: the resolver of tax was handed crateWeight %v, its representation says %d", desc, i, v, ex.weights[1])
					}
				}
				if ex.diam != nil {
					if v := el.Get("size"); v == nil || v.Canon() != fmt.Sprint(*ex.diam) {
						return vfrun.Failf("entities.requires-from-other-representation", "%s: element %d: the resolver of size was handed diameter %v, its representation says %d", desc, i, v, *ex.diam)
					}
				}
				vfrun.Label("computed-requires")
				continue
			}
			if ex.weights != nil {
				gw, gf := "", ""
				if c := el.Get("crate"); c != nil && c.Kind == strictjson.Object {
					if w := c.Get("weight"); w != nil {
						gw = w.Canon()
					}
				}
				if w := el.Get("crateWeight"); w != nil {
					gf = w.Canon()
				}
				if gw != fmt.Sprint(ex.weights[0]) || gf != fmt.Sprint(ex.weights[1]) {
					return vfrun.Failf("entities.requires-from-other-representation", "%s: element %d has crate.weight=%s crateWeight=%s, its representation says %d and %d", desc, i, gw, gf, ex.weights[0], ex.weights[1])
				}
			}
			if ex.dims != nil {
				var got [2]string
				if c := el.Get("crate"); c != nil && c.Kind == strictjson.Object {
					if b := c.Get("box"); b != nil && b.Kind == strictjson.Object {
						if d := b.Get("dims"); d != nil && d.Kind == strictjson.Object {
							if w := d.Get("width"); w != nil {
								got[0] = w.Canon()
							}
							if h := d.Get("height"); h != nil {
								got[1] = h.Canon()
							}
						}
					}
				}
				if got[0] != fmt.Sprint(ex.dims[0]) || got[1] != fmt.Sprint(ex.dims[1]) {
					return vfrun.Failf("entities.requires-from-other-representation", "%s: element %d has dims width=%s height=%s, its representation says %d x %d", desc, i, got[0], got[1], ex.dims[0], ex.dims[1])
				}
			}
			if ex.diam != nil {
				d := el.Get("diameter")
				if d == nil || d.Kind != strictjson.Number || d.Num != fmt.Sprint(*ex.diam) {
					return vfrun.Failf("entities.requires-from-other-representation", "%s: element %d has diameter %v, its representation says %d", desc, i, d, *ex.diam)
				}
			}
		}
		if knownHit {
			vfrun.IsKnown("entities.multi-resolver-from-first-rep")
		}
		if anyFailing && len(resp.Errors) == 0 && !knownHit {
			return vfrun.Failf("entities.failure-without-error", "%s: a representation failed but no error is reported: %s", desc, resp.Data)
		}
	}
	// classification
	types := map[string]bool{}
	nfail := 0
	for i, ex := range exp {
		if ex.failing {
			nfail++
		}
		var rep map[string]any
		_ = json.Unmarshal([]byte(c.Reps[i]), &rep)
		if tn, ok := rep["__typename"].(string); ok {
			types[tn] = true
		}
	}
	vfrun.Label(fmt.Sprintf("len=%d", min(len(c.Reps), 6)))
	if nfail > 0 {
		vfrun.Label("with-failing-representation")
	}
	if len(types) >= 2 {
		vfrun.Label("interleaved-types")
	}
	if len(types) >= 2 && nfail >= 1 && len(c.Reps) >= 3 {
		b, _ := json.Marshal(c)
		vfrun.NonTrivial(string(b))
	}
	vfrun.SampleCat(c.Project, c)
	return nil
}

// ---------------------------------------------------------------------------------------------
// generator

func genRep(t *rapid.T) string {
	ids := []string{"u1", "u2", "u3"}
	str := func(label string) string { return rapid.SampledFrom(ids).Draw(t, label) }
	switch rapid.IntRange(0, 15).Draw(t, "repkind") {
	case 0:
		return fmt.Sprintf(`{"__typename":"User","id":%q}`, str("id"))
	case 1:
		if rapid.Bool().Draw(t, "bysku") {
			return fmt.Sprintf(`{"__typename":"Item","sku":%q}`, str("sku"))
		}
		return fmt.Sprintf(`{"__typename":"Item","upc":%q}`, str("upc"))
	case 2:
		return fmt.Sprintf(`{"__typename":"Pair","a":%q,"b":%d}`, str("a"), rapid.IntRange(0, 3).Draw(t, "b"))
	case 3:
		return fmt.Sprintf(`{"__typename":"Nested","owner":{"id":%q},"code":%q}`, str("oid"), str("code"))
	case 4:
		return fmt.Sprintf(`{"__typename":"Planet","name":%q,"diameter":%d}`, str("name"), rapid.IntRange(1, 9).Draw(t, "diam"))
	case 12:
		return fmt.Sprintf(`{"__typename":"Shipment","id":%q,"crate":{"weight":%d,"box":{"dims":{"width":%d,"height":%d}}},"crateWeight":%d}`, str("shipid"), rapid.IntRange(100, 140).Draw(t, "cweight"), rapid.IntRange(1, 40).Draw(t, "width"), rapid.IntRange(41, 90).Draw(t, "height"), rapid.IntRange(200, 240).Draw(t, "fweight"))
	case 5, 6:
		return fmt.Sprintf(`{"__typename":"MUser","id":%q}`, str("mid"))
	case 7, 8:
		if rapid.Bool().Draw(t, "mbysku") {
			return fmt.Sprintf(`{"__typename":"MItem","sku":%q}`, str("msku"))
		}
		return fmt.Sprintf(`{"__typename":"MItem","upc":%q}`, str("mupc"))
	case 9:
		return rapid.SampledFrom([]string{`{"__typename":"Nope","id":"x"}`, `{"id":"u1"}`, `{"__typename":5}`, `{"__typename":"User"}`, `{"__typename":"User","id":null}`,
			`{"__typename":"Item","sku":null,"upc":null}`, `{"__typename":"Item","sku":null,"upc":"u1"}`, `{"__typename":"Pair","a":"x"}`, `{"__typename":"Nested","owner":"notamap","code":"c"}`,
			`{"__typename":"Nested","owner":{},"code":"c"}`, `{"__typename":"Planet","name":"p"}`, `{"__typename":"Pair","a":"x","b":"notanint"}`, `{"__typename":"User","id":{"x":1}}`,
			`{"__typename":"MUser"}`, `{"__typename":"MUser","id":[1]}`, `{}`}).Draw(t, "hostile")
	case 10:
		return fmt.Sprintf(`{"__typename":"Item","sku":%q,"upc":%q}`, str("sku2"), str("upc2"))
	case 11:
		return fmt.Sprintf(`{"__typename":"User","id":%d}`, rapid.IntRange(1, 3).Draw(t, "numid"))
	default:
		// any non-batch entity with every field of every key independently present, null or absent:
		// partial composite keys, later keys that are null, several complete keys at once
		var single []entityDef
		for _, e := range entities {
			if !e.multi && e.name != "Planet" && e.name != "Nested" && e.name != "Shipment" {
				single = append(single, e)
			}
		}
		e := single[rapid.IntRange(0, len(single)-1).Draw(t, "anyentity")]
		parts := []string{fmt.Sprintf(`"__typename":%q`, e.name)}
		seen := map[string]bool{}
		for _, k := range e.keys {
			for _, f := range k.fields {
				name := f[0]
				if seen[name] {
					continue
				}
				seen[name] = true
				st := rapid.IntRange(0, 4).Draw(t, "fieldstate")
				if st == 1 && (e.name == "Pair" || e.name == "User") {
					// an explicit null for a key field of non-null type is not a representation a
					// gateway sends; what it resolves to is not defined
					st = 0
				}
				switch st {
				case 0:
				case 1:
					parts = append(parts, fmt.Sprintf(`%q:null`, name))
				default:
					if e.name == "Pair" && name == "b" {
						parts = append(parts, fmt.Sprintf(`%q:%d`, name, rapid.IntRange(0, 3).Draw(t, "anyb")))
					} else {
						parts = append(parts, fmt.Sprintf(`%q:%q`, name, str("anyval")))
					}
				}
			}
		}
		return "{" + strings.Join(parts, ",") + "}"
	}
}

func gen(t *rapid.T) Case {
	c := Case{Project: rapid.SampledFrom(proj.Names()).Draw(t, "project")}
	n := rapid.IntRange(0, 12).Draw(t, "n")
	for i := 0; i < n; i++ {
		if i > 0 && rapid.IntRange(0, 5).Draw(t, "dup") == 0 {
			c.Reps = append(c.Reps, c.Reps[rapid.IntRange(0, i-1).Draw(t, "dupof")])
			continue
		}
		c.Reps = append(c.Reps, genRep(t))
	}
	// outcomes for a few of the keys the model says will be used
	exp, _ := model(c)
	var descs []string
	seen := map[string]bool{}
	for _, e := range exp {
		if e.marker != "" && !seen[e.marker] {
			seen[e.marker] = true
			descs = append(descs, e.marker)
		}
	}
	sort.Strings(descs)
	c.Outcomes, c.DelaysUS = map[string]string{}, map[string]int{}
	for _, d := range descs {
		switch rapid.IntRange(0, 9).Draw(t, "outcome") {
		case 0:
			c.Outcomes[d] = "error"
		case 1:
			c.Outcomes[d] = "panic"
		case 2:
			c.Outcomes[d] = "nil"
		}
		if rapid.IntRange(0, 2).Draw(t, "delay?") == 0 {
			c.DelaysUS[d] = rapid.SampledFrom([]int{50, 300, 1500}).Draw(t, "delay")
		}
	}
	return c
}

func TestEntities(t *testing.T) {
	vfrun.Run(t, vfrun.Prop[Case]{Property: "C20", Name: "TestEntities", Gen: gen, Check: check}, vfrun.N(1500, 300000))
}
