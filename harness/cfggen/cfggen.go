// Package cfggen draws gqlgen.yml option vectors (DESIGN.md §3.2).
package cfggen

import (
	"fmt"
	"sort"
	"strings"

	"pgregory.net/rapid"
)

type Config struct {
	Package        string            `json:"package"`
	ExecLayout     string            `json:"exec_layout"`     // single-file follow-schema
	ResolverLayout string            `json:"resolver_layout"` // "" (none) single-file follow-schema
	WorkerLimit    int               `json:"worker_limit"`
	Bools          map[string]bool   `json:"bools"`
	ResolverFields map[string]bool   `json:"resolver_fields,omitempty"` // "Type.field" -> resolver: true
	Extra          map[string]string `json:"extra,omitempty"`
	// ExtraModels: raw YAML entries of the models section (two-space indented), e.g. a binding to a
	// user-written Go type
	ExtraModels string `json:"extra_models,omitempty"`
	// SchemaGlob: the schema entry ("*.graphqls" when empty)
	SchemaGlob string `json:"schema_glob,omitempty"`
	// SplitModel: models are generated into a package of their own (model/models_gen.go, package
	// model - the layout of gqlgen's own init template) instead of the exec package
	SplitModel bool `json:"split_model,omitempty"`
	// Federation: a federation section (version 2, federation.go in the exec package) with these
	// options (explicit_requires, ...); nil = no federation
	Federation []string `json:"federation,omitempty"`
}

var BoolOptions = []string{
	"use_function_syntax_for_execution_context", "omit_slice_element_pointers", "struct_fields_always_pointers",
	"resolvers_always_return_pointers", "return_pointers_in_unmarshalinput", "nullable_input_omittable",
	"call_argument_directives_with_null", "omit_complexity", "omit_getters", "omit_interface_checks", "omit_root_models",
	"omit_resolver_fields", "enable_model_json_omitempty_tag", "enable_model_json_omitzero_tag", "omit_panic_handler",
	"omit_gqlgen_file_notice", "omit_gqlgen_version_in_file_notice",
}

// Draw draws an option vector. fields lists "Type.field" candidates for resolver: true.
func Draw(t *rapid.T, pkg string, fields []string) Config {
	c := Config{Package: pkg, Bools: map[string]bool{}, ResolverFields: map[string]bool{}}
	c.ExecLayout = rapid.SampledFrom([]string{"single-file", "follow-schema"}).Draw(t, "execlayout")
	c.ResolverLayout = rapid.SampledFrom([]string{"", "single-file", "follow-schema"}).Draw(t, "resolverlayout")
	c.WorkerLimit = rapid.SampledFrom([]int{0, 0, 1, 2, 8}).Draw(t, "workerlimit")
	for _, o := range BoolOptions {
		if rapid.IntRange(0, 3).Draw(t, o) == 0 {
			// most options default to false; two default to true
			def := o == "struct_fields_always_pointers" || o == "resolvers_always_return_pointers"
			c.Bools[o] = !def
		}
	}
	for _, f := range fields {
		if rapid.IntRange(0, 4).Draw(t, "resolverfield") == 0 {
			c.ResolverFields[f] = true
		}
	}
	return c
}

// YAML renders gqlgen.yml.
func (c Config) YAML() string {
	var sb strings.Builder
	glob := "*.graphqls"
	if c.SchemaGlob != "" {
		glob = c.SchemaGlob
	}
	sb.WriteString("schema:\n  - \"" + glob + "\"\nskip_mod_tidy: true\nskip_validation: true\n")
	sb.WriteString("exec:\n")
	if c.ExecLayout == "follow-schema" {
		fmt.Fprintf(&sb, "  layout: follow-schema\n  dir: .\n  package: %s\n", c.Package)
	} else {
		fmt.Fprintf(&sb, "  filename: generated.go\n  package: %s\n", c.Package)
	}
	if c.WorkerLimit > 0 {
		fmt.Fprintf(&sb, "  worker_limit: %d\n", c.WorkerLimit)
	}
	if c.SplitModel {
		sb.WriteString("model:\n  filename: model/models_gen.go\n  package: model\n")
	} else {
		fmt.Fprintf(&sb, "model:\n  filename: models_gen.go\n  package: %s\n", c.Package)
	}
	switch c.ResolverLayout {
	case "single-file":
		fmt.Fprintf(&sb, "resolver:\n  filename: resolver.go\n  package: %s\n  type: Resolver\n", c.Package)
	case "follow-schema":
		fmt.Fprintf(&sb, "resolver:\n  layout: follow-schema\n  dir: .\n  package: %s\n  type: Resolver\n  filename_template: \"{name}.resolvers.go\"\n", c.Package)
	}
	if c.Federation != nil {
		fmt.Fprintf(&sb, "federation:\n  filename: federation.go\n  package: %s\n  version: 2\n", c.Package)
		if len(c.Federation) > 0 {
			sb.WriteString("  options:\n")
			for _, o := range c.Federation {
				fmt.Fprintf(&sb, "    %s: true\n", o)
			}
		}
	}
	var keys []string
	for k := range c.Bools {
		keys = append(keys, k)
	}
	sort.Strings(keys)
	for _, k := range keys {
		fmt.Fprintf(&sb, "%s: %v\n", k, c.Bools[k])
	}
	keys = keys[:0]
	for k := range c.Extra {
		keys = append(keys, k)
	}
	sort.Strings(keys)
	for _, k := range keys {
		fmt.Fprintf(&sb, "%s: %s\n", k, c.Extra[k])
	}
	if len(c.ResolverFields) == 0 && c.ExtraModels != "" {
		sb.WriteString("models:\n" + c.ExtraModels)
	}
	if len(c.ResolverFields) > 0 {
		byType := map[string][]string{}
		for tf := range c.ResolverFields {
			parts := strings.SplitN(tf, ".", 2)
			byType[parts[0]] = append(byType[parts[0]], parts[1])
		}
		var types []string
		for t := range byType {
			types = append(types, t)
		}
		sort.Strings(types)
		sb.WriteString("models:\n")
		for _, t := range types {
			fmt.Fprintf(&sb, "  %s:\n    fields:\n", t)
			sort.Strings(byType[t])
			for _, f := range byType[t] {
				fmt.Fprintf(&sb, "      %s:\n        resolver: true\n", f)
			}
		}
		sb.WriteString(c.ExtraModels)
	}
	return sb.String()
}
