// gqlgen-gen runs gqlgen's generator (from the gqlgen tree this module is built against) on the
// gqlgen.yml in the current directory, adds the stub plugin, and dumps the model map.
package main

import (
	"encoding/json"
	"flag"
	"fmt"
	"os"
	"sort"

	"github.com/99designs/gqlgen/api"
	"github.com/99designs/gqlgen/codegen/config"
	"github.com/99designs/gqlgen/plugin/stubgen"
)

func main() {
	cfgFile := flag.String("config", "gqlgen.yml", "config file")
	stub := flag.String("stub", "", "stub file to generate (empty: none)")
	dump := flag.String("dump", "", "write the model map as JSON to this file")
	flag.Parse()

	var cfg *config.Config
	var err error
	if *cfgFile == "auto" {
		// search upwards from the current directory, like the gqlgen command does
		cfg, err = config.LoadConfigFromDefaultLocations()
	} else {
		cfg, err = config.LoadConfig(*cfgFile)
	}
	if err != nil {
		fmt.Fprintln(os.Stderr, "GENERATE-ERROR load config:", err)
		os.Exit(3)
	}
	var opts []api.Option
	if *stub != "" {
		opts = append(opts, api.AddPlugin(stubgen.New(*stub, "Stub")))
	}
	if err := api.Generate(cfg, opts...); err != nil {
		fmt.Fprintln(os.Stderr, "GENERATE-ERROR", err)
		os.Exit(3)
	}
	if *dump != "" {
		type entry struct {
			Name     string   `json:"name"`
			Model    []string `json:"model"`
			Kind     string   `json:"kind,omitempty"`
			Possible []string `json:"possible,omitempty"`
		}
		var out []entry
		for name, m := range cfg.Models {
			e := entry{Name: name, Model: m.Model}
			if cfg.Schema != nil {
				if def := cfg.Schema.Types[name]; def != nil {
					e.Kind = string(def.Kind)
					if def.IsAbstractType() {
						for _, p := range cfg.Schema.GetPossibleTypes(def) {
							if p.Kind == "OBJECT" {
								e.Possible = append(e.Possible, p.Name)
							}
						}
					}
				}
			}
			out = append(out, e)
		}
		sort.Slice(out, func(i, j int) bool { return out[i].Name < out[j].Name })
		b, _ := json.MarshalIndent(out, "", " ")
		if err := os.WriteFile(*dump, b, 0o644); err != nil {
			fmt.Fprintln(os.Stderr, "GENERATE-ERROR dump:", err)
			os.Exit(3)
		}
	}
}
