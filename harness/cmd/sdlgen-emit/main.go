// Command sdlgen-emit writes the random schema that sdlgen draws for a given seed, so that the
// preparation step can generate and compile servers for random schemas (the execution checks then
// run the reference executor against them like against the probe schemas).
package main

import (
	"flag"
	"fmt"
	"hash/fnv"
	"os"
	"path/filepath"

	"pgregory.net/rapid"

	"vh/sdlgen"
)

func main() {
	seed := flag.Int("seed", 1, "seed")
	out := flag.String("out", "", "directory to write the schema files to")
	maxTypes := flag.Int("max-types", 9, "bound on the number of types")
	flag.Parse()
	g := rapid.Custom(func(t *rapid.T) *sdlgen.Schema {
		return sdlgen.Generate(t, sdlgen.Options{Files: 1, Roots: true, MaxTypes: *maxTypes, DeprecatedInputs: true, NoInputDirectives: true})
	})
	s := g.Example(*seed)
	// about a third of the fields of non-root objects become resolvers (models.<T>.fields.<f>.resolver),
	// so that random schemas have resolver positions (and failures) below the root
	yml := "models:\n"
	n := 0
	for _, on := range s.ObjectNames {
		var fs []string
		for _, f := range s.ObjectFields[on] {
			h := fnv.New32a()
			fmt.Fprintf(h, "%d/%s.%s", *seed, on, f)
			if h.Sum32()%3 == 0 {
				fs = append(fs, f)
			}
		}
		if len(fs) > 0 {
			yml += "  " + on + ":\n    fields:\n"
			for _, f := range fs {
				yml += "      " + f + ":\n        resolver: true\n"
				n++
			}
		}
	}
	if n > 0 {
		if err := os.WriteFile(filepath.Join(*out, "models.yml"), []byte(yml), 0o644); err != nil {
			fmt.Fprintln(os.Stderr, err)
			os.Exit(1)
		}
	}
	for name, text := range s.Files {
		if err := os.WriteFile(filepath.Join(*out, name), []byte(text), 0o644); err != nil {
			fmt.Fprintln(os.Stderr, err)
			os.Exit(1)
		}
	}
}
