// Package deferchk is the @defer oracle shared by C13 and C04: it reads the whole payload sequence,
// merges it in arrival order and compares with the reference executor.
package deferchk

import (
	"context"
	"fmt"
	"regexp"
	"sort"
	"strings"
	"time"

	"github.com/vektah/gqlparser/v2/ast"
	"pgregory.net/rapid"

	"vh/kit"
	"vh/opgen"
	"vh/oracle"
	"vh/plan"
	"vh/proj"
	"vh/refexec"
	"vh/sched"
	"vh/strictjson"
	"vh/univ"
	"vh/vfrun"
)

type Case struct {
	kit.Case
	SchedMode string `json:"sched_mode,omitempty"`
	SchedSeed uint64 `json:"sched_seed,omitempty"`
	// WantRecovers: if > 0, the recover hook must have run exactly this many times (C04)
	WantRecovers int `json:"want_recovers,omitempty"`
	// Via: "" = the response function is drained directly; "mixed" / "sse" = through gqlgen's
	// multipart/mixed or SSE transport (what a client applying payloads in arrival order sees)
	Via string `json:"via,omitempty"`
	// Presenter: the server has an error presenter of its own (it marks every error it presents)
	Presenter bool `json:"presenter,omitempty"`
}

var (
	deferRe = regexp.MustCompile(`\s*@defer(\([^)]*\))?`)
	labelRe = regexp.MustCompile(`label:\s*"([^"]*)"`)
)

// lookup walks a path in the merged tree. It returns the node, its parent and position, and the
// first null ancestor (as path prefix) if the walk hit a null.
func lookup(root *strictjson.Value, path ast.Path) (node *strictjson.Value, set func(*strictjson.Value), nullAt string, ok bool) {
	cur := root
	var setter func(*strictjson.Value)
	walked := ast.Path{}
	for _, el := range path {
		if cur == nil || cur.Kind == strictjson.Null {
			return nil, nil, walked.String(), false
		}
		switch e := el.(type) {
		case ast.PathName:
			if cur.Kind != strictjson.Object {
				return nil, nil, "", false
			}
			found := false
			for i, k := range cur.Keys {
				if k == string(e) {
					parent, idx := cur, i
					setter = func(v *strictjson.Value) { parent.Vals[idx] = v }
					cur = cur.Vals[i]
					found = true
					break
				}
			}
			if !found {
				return nil, nil, "", false
			}
		case ast.PathIndex:
			if cur.Kind != strictjson.Array || int(e) >= len(cur.Arr) {
				return nil, nil, "", false
			}
			parent, idx := cur, int(e)
			setter = func(v *strictjson.Value) { parent.Arr[idx] = v }
			cur = cur.Arr[idx]
		}
		walked = append(walked, el)
	}
	if cur == nil || cur.Kind == strictjson.Null {
		return nil, nil, walked.String(), false
	}
	return cur, setter, "", true
}

func subMultiset(a, b []string) (string, bool) {
	have := map[string]int{}
	for _, x := range b {
		have[x]++
	}
	for _, x := range a {
		if have[x] == 0 {
			return x, false
		}
		have[x]--
	}
	return "", true
}

// Check decides one @defer case on every linked vector of its project.
func Check(c Case) *vfrun.Failure {
	srvs, err := kit.Servers(c.Project)
	if err != nil {
		return vfrun.Failf("harness.no-project", "%v", err)
	}
	pr, f := kit.Prepare(srvs[0], c.Case)
	if f != nil {
		return f
	}
	labels := map[string]bool{"": true}
	for _, m := range labelRe.FindAllStringSubmatch(c.Query, -1) {
		labels[m[1]] = true
	}
	plainQuery := deferRe.ReplaceAllString(c.Query, "")
	for _, s := range srvs {
		p := c.Case.Plan()
		if c.SchedMode != "" {
			p.Schedule = &plan.Schedule{Mode: c.SchedMode, Seed: c.SchedSeed}
			if c.SchedMode == "reverse" {
				ref0 := kit.Reference(s, pr, p)
				p.Schedule.Next = reverseNext(ref0)
			}
		}
		e := univ.NewExec(p)
		type res struct {
			out []*proj.Response
			rej bool
		}
		ch := make(chan res, 1)
		ctx, cancel := context.WithCancel(context.Background())
		before := sched.GqlgenIDs("vh/vfrun.", "pgregory.net/rapid.")
		var tfail *vfrun.Failure
		go func() {
			if c.Via != "" {
				out, rej, f := deliverHTTP(ctx, s, e, c)
				tfail = f
				ch <- res{out, rej}
				return
			}
			s.MarkErrors = c.Presenter
			out, rej := s.DoAll(ctx, e, c.Query, c.OpName, c.Variables, 500)
			s.MarkErrors = false
			ch <- res{out, rej}
		}()
		var r res
		select {
		case r = <-ch:
		case <-time.After(5 * time.Second):
			st, running := sched.SurvivorsIgnoring(2*time.Second, before, "vh/vfrun.", "pgregory.net/rapid.")
			cancel()
			if e.Inflight() > 0 || running || len(st) == 0 {
				return vfrun.Failf("harness.inconclusive", "[%s] payload sequence not finished after 5s, no stable witness", s.P.Vec)
			}
			return vfrun.Failf("defer.sequence-does-not-end", "[%s] all resolvers returned but the payload sequence does not end; parked: %s", s.P.Vec, sched.Signature(st[0]))
		}
		cancel()
		vfrun.Eval()
		if tfail != nil {
			if e.Unrepresentable > 0 {
				return nil
			}
			return tfail
		}
		if c.Via != "" {
			vfrun.Label("via-transport:" + c.Via)
		}
		if e.Unrepresentable > 0 {
			vfrun.Label("discarded:unrepresentable")
			return nil
		}
		if r.rej {
			return vfrun.Failf("defer.valid-operation-rejected", "[%s] %v", s.P.Vec, r.out[0].Errors)
		}
		if len(r.out) == 0 {
			return vfrun.Failf("defer.no-payload", "[%s] no payload at all", s.P.Vec)
		}
		if c.Presenter {
			// the plain execution presents every error; so must every payload
			for i, pl := range r.out {
				for _, ge := range pl.Errors {
					if !proj.Presented(ge) {
						return vfrun.Failf("defer.error-not-presented", "[%s] payload #%d reports %q at %s without the mark of the server's error presenter (the plain execution presents every error)", s.P.Vec, i, ge.Message, ge.Path.String())
					}
				}
			}
			vfrun.Label("user-error-presenter")
		}
		// --- merge in arrival order
		merged, perr := strictjson.Parse(r.out[0].Data)
		if perr != nil {
			return vfrun.Failf("defer.initial-not-json", "[%s] %q: %v", s.P.Vec, r.out[0].Data, perr)
		}
		var allErrs []string
		allErrs = append(allErrs, oracle.NormErrors(r.out[0].Errors)...)
		stopAt := map[string]bool{}
		seen := map[string]bool{}
		nested, inList, failed := false, false, false
		deliveredBy := map[string]bool{} // paths of objects created by incremental payloads
		type pending struct {
			i  int
			pl *proj.Response
		}
		var queue []pending
		// apply merges one incremental payload; it reports why it could not (null on the way)
		apply := func(i int, pl *proj.Response) (applied bool, nullAt string, fail *vfrun.Failure) {
			pstr := pl.Path.String()
			data, perr := strictjson.Parse(pl.Data)
			if perr != nil {
				return false, "", vfrun.Failf("defer.payload-not-json", "[%s] %q: %v", s.P.Vec, pl.Data, perr)
			}
			if merged.Kind == strictjson.Null {
				return false, "<root>", nil
			}
			node, set, nullAt, ok := lookup(merged, pl.Path)
			if !ok {
				if nullAt != "" {
					return false, nullAt, nil
				}
				return false, "", vfrun.Failf("defer.path-not-found", "[%s] payload %d has path %q (label %q) which does not exist in the merge of the payloads before it\nmerged so far: %s", s.P.Vec, i, pstr, pl.Label, merged.Canon())
			}
			if node.Kind != strictjson.Object {
				return false, "", vfrun.Failf("defer.path-not-object", "[%s] payload path %q is not an object", s.P.Vec, pstr)
			}
			for q := range deliveredBy {
				if strings.HasPrefix(pstr, q) {
					nested = true
				}
			}
			if strings.Contains(pstr, "[") {
				inList = true
			}
			switch data.Kind {
			case strictjson.Null:
				failed = true
				stopAt[pstr] = true
				set(&strictjson.Value{Kind: strictjson.Null})
			case strictjson.Object:
				for j, k := range data.Keys {
					deliveredBy[pstr+"."+k] = true
					replaced := false
					for n, nk := range node.Keys {
						if nk == k {
							node.Vals[n] = data.Vals[j]
							replaced = true
						}
					}
					if !replaced {
						node.Keys = append(node.Keys, k)
						node.Vals = append(node.Vals, data.Vals[j])
					}
				}
			default:
				return false, "", vfrun.Failf("defer.payload-data-kind", "[%s] payload data %q is neither object nor null", s.P.Vec, pl.Data)
			}
			return true, "", nil
		}
		for i, pl := range r.out {
			last := i == len(r.out)-1
			if len(r.out) > 1 || pl.HasNext != nil {
				if pl.HasNext == nil {
					return vfrun.Failf("defer.hasnext", "[%s] payload %d of %d has no hasNext", s.P.Vec, i, len(r.out))
				}
				if *pl.HasNext == last {
					return vfrun.Failf("defer.hasnext", "[%s] payload %d of %d has hasNext=%v", s.P.Vec, i, len(r.out), *pl.HasNext)
				}
			}
			if i == 0 {
				continue
			}
			pstr := pl.Path.String()
			id := pstr + "|" + pl.Label
			if seen[id] {
				return vfrun.Failf("defer.group-delivered-twice", "[%s] two payloads for path %q label %q", s.P.Vec, pstr, pl.Label)
			}
			seen[id] = true
			if !labels[pl.Label] {
				return vfrun.Failf("defer.unknown-label", "[%s] payload label %q does not occur in the query", s.P.Vec, pl.Label)
			}
			allErrs = append(allErrs, oracle.NormErrors(pl.Errors)...)
			if len(pl.Errors) > 0 {
				failed = true
			}
			ok, _, fail := apply(i, pl)
			if fail != nil {
				return fail
			}
			if !ok {
				queue = append(queue, pending{i, pl})
			}
		}
		// payloads that could not be applied on arrival: a later payload may deliver the object
		// (the nested group overtook its parent) or an ancestor was nulled for good
		for progress := true; progress && len(queue) > 0; {
			progress = false
			var rest []pending
			for _, q := range queue {
				ok, _, fail := apply(q.i, q.pl)
				if fail != nil {
					return fail
				}
				if ok {
					progress = true
					msg := fmt.Sprintf("[%s] payload %d (path %q label %q) arrived before the payload that delivers its object", s.P.Vec, q.i, q.pl.Path.String(), q.pl.Label)
					if !vfrun.IsKnown("defer.nested-group-before-parent") {
						return vfrun.Failf("defer.nested-group-before-parent", "%s", msg)
					}
				} else {
					rest = append(rest, q)
				}
			}
			queue = rest
		}
		// which response keys did gqlgen deliver through groups of each object?
		deferredKeys := map[string]map[string]bool{}
		for _, pl := range r.out[1:] {
			ps := pl.Path.String()
			if d, perr := strictjson.Parse(pl.Data); perr == nil && d.Kind == strictjson.Object {
				if deferredKeys[ps] == nil {
					deferredKeys[ps] = map[string]bool{}
				}
				for _, k := range d.Keys {
					deferredKeys[ps][k] = true
				}
			}
			// a group that failed delivers data:null; its errors tell which of its fields failed
			for _, ge := range pl.Errors {
				ep := ge.Path.String()
				rest := ""
				if ps == "" {
					rest = ep
				} else if strings.HasPrefix(ep, ps+".") {
					rest = ep[len(ps)+1:]
				}
				if rest != "" {
					key := rest
					if i := strings.IndexAny(key, ".["); i >= 0 {
						key = key[:i]
					}
					if deferredKeys[ps] == nil {
						deferredKeys[ps] = map[string]bool{}
					}
					deferredKeys[ps][key] = true
				}
			}
		}
		// the reference for "what nulled this object": null propagation from a failure inside a
		// deferred group stops at the group's object, whether or not that payload could be applied
		stopAll := map[string]bool{}
		for _, pl := range r.out[1:] {
			if d, perr := strictjson.Parse(pl.Data); perr == nil && d.Kind == strictjson.Null {
				stopAll[pl.Path.String()] = true
			}
		}
		plainRef := kit.ReferenceStop(s, pr, p, stopAll)
		for _, q := range queue {
			// a group must never be started for an object that one of its own eager (non-deferred)
			// non-null fields nulled: that is not the known finding
			ps := q.pl.Path.String()
			for _, k := range plainRef.NullingKeys[ps] {
				if !deferredKeys[ps][k] {
					return vfrun.Failf("defer.group-started-for-object-nulled-by-its-own-field", "[%s] payload %d (path %q label %q) belongs to an object that its own non-deferred non-null field %q nulled: the group must not have been started\npayloads: %s", s.P.Vec, q.i, ps, q.pl.Label, k, payloadDump(r.out))
				}
			}
		}
		for _, q := range queue {
			_, nullAt, _ := apply(q.i, q.pl)
			msg := fmt.Sprintf("[%s] payload %d has path %q (label %q) but %q is null in the merged result: the client can never find it", s.P.Vec, q.i, q.pl.Path.String(), q.pl.Label, nullAt)
			if !vfrun.IsKnown("defer.payload-under-nulled-ancestor") {
				return vfrun.Failf("defer.payload-under-nulled-ancestor", "%s", msg)
			}
		}
		if c.WantRecovers > 0 {
			if got := r.out[len(r.out)-1].Recovers; got != c.WantRecovers {
				return vfrun.Failf("recover.count", "[%s] recover hook ran %d times, want %d", s.P.Vec, got, c.WantRecovers)
			}
		}
		// --- (1) against the reference (plain execution, null propagation stopping at failed groups)
		ref := kit.ReferenceStop(s, pr, p, stopAt)
		if !refexec.SameDataUnordered(merged, ref.Data) {
			return vfrun.Failf("defer.merged-differs-from-plain", "[%s] merged payloads differ from the plain result (%d payloads)\n got: %s\nwant: %s", s.P.Vec, len(r.out), merged.Canon(), ref.Data.Canon())
		}
		sort.Strings(allErrs)
		expErrs := oracle.ExpErrors(ref.Errors)
		if _, ok := subMultiset(allErrs, expErrs); !ok && vfrun.KnownListed(oracle.LeafElemPathKey) {
			expErrs = oracle.ExpErrorsIndexless(ref.Errors)
		}
		if x, ok := subMultiset(allErrs, expErrs); !ok {
			return vfrun.Failf("defer.extra-error", "[%s] error %q is reported with @defer but not by the plain execution %q", s.P.Vec, x, oracle.ExpErrors(ref.Errors))
		}
		// --- (2) against the same server executing the query with every @defer removed
		if len(stopAt) == 0 && plainQuery != c.Query {
			e2 := univ.NewExec(c.Case.Plan())
			resp := s.Do(context.Background(), e2, plainQuery, c.OpName, c.Variables)
			if !resp.Rejected {
				pd, perr := strictjson.Parse(resp.Data)
				if perr == nil && !refexec.SameDataUnordered(merged, pd) {
					return vfrun.Failf("defer.merged-differs-from-plain", "[%s] merged payloads differ from the same server's answer without @defer\n got: %s\nwant: %s", s.P.Vec, merged.Canon(), pd.Canon())
				}
			}
		}
		if len(r.out) > 1 {
			vfrun.Label("deferred")
			if nested {
				vfrun.Label("nested-group")
			}
			if inList {
				vfrun.Label("group-in-list")
			}
			if failed {
				vfrun.Label("failure-in-group")
			}
			if nested || inList || failed {
				vfrun.NonTrivial(fmt.Sprintf("%s|%d|%v|%s", c.Query, c.PlanSeed, c.Overrides, c.SchedMode))
			}
			vfrun.SampleCat("deferred", map[string]any{"case": c, "payloads": len(r.out), "merged": merged.Canon()})
		} else {
			vfrun.Label("nothing-deferred")
		}
	}
	return nil
}

func payloadDump(out []*proj.Response) string {
	var sb strings.Builder
	for i, pl := range out {
		fmt.Fprintf(&sb, "\n  #%d path=%q label=%q data=%s errors=%v", i, pl.Path.String(), pl.Label, pl.Data, pl.Errors)
	}
	return sb.String()
}

func reverseNext(ref *refexec.Result) map[string]string {
	next := map[string]string{}
	byParent := map[string][]string{}
	seen := map[string]bool{}
	for _, k := range ref.ResolverOrder {
		if seen[k] {
			continue
		}
		seen[k] = true
		parent := ""
		if i := strings.LastIndex(k, "."); i >= 0 {
			parent = k[:i]
		}
		byParent[parent] = append(byParent[parent], k)
	}
	for _, sibs := range byParent {
		for i := 0; i+1 < len(sibs); i++ {
			next[sibs[i]] = sibs[i+1]
		}
	}
	return next
}

// Gen draws a query with @defer, a plan and a completion schedule.
func Gen(t *rapid.T) Case {
	var c Case
	c.Project = kit.DrawProject(t)
	srvs, err := kit.Servers(c.Project)
	if err != nil {
		t.Fatalf("harness: %v", err)
	}
	s := srvs[0]
	op := opgen.Generate(t, s.Schema, opgen.Options{MaxFields: 16, MaxDepth: 5, Defer: true, Resolver: s.U.IsResolver})
	c.Query, c.OpName, c.Variables = op.Query, op.OpName, op.Variables
	c.PlanSeed = rapid.Uint64Range(1, 1<<32).Draw(t, "planseed")
	pr, f := kit.Prepare(s, c.Case)
	if f != nil {
		t.Skip("generated operation is not valid: " + f.Msg)
	}
	ref := kit.Reference(s, pr, c.Case.Plan())
	c.Overrides = kit.DrawOverrides(t, kit.Candidates(ref), 3, true)
	c.SchedMode = rapid.SampledFrom([]string{"", "yield", "delay", "reverse", "mixed"}).Draw(t, "sched")
	c.SchedSeed = rapid.Uint64Range(1, 1<<20).Draw(t, "schedseed")
	c.Via = rapid.SampledFrom([]string{"", "", "mixed", "sse"}).Draw(t, "via")
	c.Presenter = rapid.IntRange(0, 2).Draw(t, "presenter") == 0
	return c
}
