package deferchk

import (
	"bufio"
	"bytes"
	"context"
	"encoding/json"
	"io"
	"mime"
	"mime/multipart"
	"net/http/httptest"
	"strings"
	"sync/atomic"

	"github.com/vektah/gqlparser/v2/ast"
	"github.com/vektah/gqlparser/v2/gqlerror"

	"vh/hsrv"
	"vh/proj"
	"vh/strictjson"
	"vh/univ"
	"vh/vfrun"
)

type wirePayload struct {
	Data    json.RawMessage `json:"data"`
	Errors  gqlerror.List   `json:"errors"`
	Path    ast.Path        `json:"path"`
	Label   string          `json:"label"`
	HasNext *bool           `json:"hasNext"`
}

func (w wirePayload) response() *proj.Response {
	return &proj.Response{Data: w.Data, Errors: w.Errors, Path: w.Path, Label: w.Label, HasNext: w.HasNext}
}

// deliverHTTP runs the operation through one of gqlgen's incremental-delivery transports and returns
// the payloads as the client receives them, in order. Framing is C12's business; here only what the
// property says about the sequence is checked on the wire: every part but the last announces
// hasNext=true, the last one hasNext=false, and the stream is terminated.
func deliverHTTP(ctx context.Context, s *proj.Server, e *univ.Exec, c Case) (out []*proj.Response, rejected bool, fail *vfrun.Failure) {
	s.U.SetExec(e)
	var rec atomic.Int64
	h := hsrv.New(s, hsrv.Config{Transports: []string{"sse", "multipartmixed", "post"}, Recovers: &rec, MarkErrors: c.Presenter})
	defer func() {
		if len(out) > 0 {
			out[len(out)-1].Recovers = int(rec.Load())
		}
	}()
	vars := ""
	if len(c.Variables) > 0 {
		b, _ := json.Marshal(c.Variables)
		vars = string(b)
	}
	accept := "multipart/mixed"
	if c.Via == "sse" {
		accept = "text/event-stream"
	}
	req := hsrv.Req{Transport: "post", Query: c.Query, HasQuery: true, OpName: c.OpName, HasOpName: c.OpName != "", Variables: vars, Headers: map[string]string{"Accept": accept}}.Build().WithContext(ctx)
	w := httptest.NewRecorder()
	h.ServeHTTP(w, req)
	body := w.Body.Bytes()
	what := "[" + s.P.Vec + " via " + c.Via + "]"
	if c.Via == "sse" {
		sc := bufio.NewScanner(bytes.NewReader(body))
		sc.Buffer(make([]byte, 1<<20), 1<<26)
		event, complete := "", false
		for sc.Scan() {
			ln := sc.Text()
			switch {
			case strings.HasPrefix(ln, "event: "):
				event = strings.TrimPrefix(ln, "event: ")
				if event == "complete" {
					complete = true
				}
			case strings.HasPrefix(ln, "data: ") && event == "next":
				var p wirePayload
				if err := json.Unmarshal([]byte(strings.TrimPrefix(ln, "data: ")), &p); err != nil {
					return nil, false, vfrun.Failf("defer.payload-not-json", "%s event data %q: %v", what, ln, err)
				}
				if complete {
					return nil, false, vfrun.Failf("defer.payload-after-end", "%s a next event after complete\nbody %q", what, body)
				}
				out = append(out, p.response())
			}
		}
		if !complete {
			return nil, false, vfrun.Failf("defer.sequence-does-not-end", "%s the event stream has no complete event\nbody %q", what, body)
		}
		if len(out) == 1 && out[0].Data == nil && len(out[0].Errors) > 0 {
			return out, true, nil
		}
		return out, false, nil
	}
	mt, params, err := mime.ParseMediaType(w.Header().Get("Content-Type"))
	if err != nil || mt != "multipart/mixed" {
		// rejected before the stream started: a plain JSON error body
		var p wirePayload
		if jerr := json.Unmarshal(body, &p); jerr == nil && len(p.Errors) > 0 {
			return []*proj.Response{p.response()}, true, nil
		}
		return nil, false, vfrun.Failf("defer.transport-content-type", "%s Content-Type %q body %q", what, w.Header().Get("Content-Type"), body)
	}
	mr := multipart.NewReader(bytes.NewReader(body), params["boundary"])
	var partHasNext []bool
	for {
		part, err := mr.NextPart()
		if err == io.EOF {
			break
		}
		if err != nil {
			return nil, false, vfrun.Failf("defer.sequence-does-not-end", "%s the multipart stream is not terminated by its closing boundary: %v\nbody %q", what, err, body)
		}
		pb, _ := io.ReadAll(part)
		if verr := strictjson.Valid(pb); verr != nil {
			return nil, false, vfrun.Failf("defer.payload-not-json", "%s part %q: %v", what, pb, verr)
		}
		if len(partHasNext) == 0 {
			var p wirePayload
			_ = json.Unmarshal(pb, &p)
			out = append(out, p.response())
			partHasNext = append(partHasNext, p.HasNext != nil && *p.HasNext)
			continue
		}
		var inc struct {
			Incremental []wirePayload `json:"incremental"`
			HasNext     *bool         `json:"hasNext"`
		}
		_ = json.Unmarshal(pb, &inc)
		if inc.HasNext == nil || len(inc.Incremental) == 0 {
			return nil, false, vfrun.Failf("defer.payload-not-json", "%s part %q is not an incremental part", what, pb)
		}
		for _, p := range inc.Incremental {
			out = append(out, p.response())
		}
		partHasNext = append(partHasNext, *inc.HasNext)
	}
	for i, hn := range partHasNext {
		if hn != (i < len(partHasNext)-1) {
			return nil, false, vfrun.Failf("defer.hasnext", "%s part %d of %d announces hasNext=%v\nbody %q", what, i, len(partHasNext), hn, body)
		}
	}
	if !bytes.Contains(body, []byte("--"+params["boundary"]+"--")) {
		return nil, false, vfrun.Failf("defer.sequence-does-not-end", "%s no closing boundary\nbody %q", what, body)
	}
	return out, false, nil
}
