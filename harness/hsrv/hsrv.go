// Package hsrv builds gqlgen handler.Servers over a generated server and turns request
// descriptions into http.Requests.
package hsrv

import (
	"bytes"
	"context"
	"encoding/json"
	"net/http"
	"net/http/httptest"
	"net/url"
	"strings"
	"sync"
	"sync/atomic"
	"time"

	"github.com/99designs/gqlgen/graphql"
	"github.com/99designs/gqlgen/graphql/handler"
	"github.com/99designs/gqlgen/graphql/handler/transport"
	"github.com/vektah/gqlparser/v2/gqlerror"

	"vh/proj"
)

// RecCache is an inspectable cache: it records what it holds; a bound > 0 evicts the least
// recently used entry (so eviction is deterministic and visible to the model).
type RecCache[T any] struct {
	mu    sync.Mutex
	Bound int
	keys  []string
	vals  map[string]T
	Adds  int
}

func NewRecCache[T any](bound int) *RecCache[T] {
	return &RecCache[T]{Bound: bound, vals: map[string]T{}}
}

func (c *RecCache[T]) touch(key string) {
	for i, k := range c.keys {
		if k == key {
			c.keys = append(c.keys[:i], c.keys[i+1:]...)
			break
		}
	}
	c.keys = append(c.keys, key)
}

func (c *RecCache[T]) Get(_ context.Context, key string) (T, bool) {
	c.mu.Lock()
	defer c.mu.Unlock()
	v, ok := c.vals[key]
	if ok {
		c.touch(key)
	}
	return v, ok
}

func (c *RecCache[T]) Add(_ context.Context, key string, v T) {
	c.mu.Lock()
	defer c.mu.Unlock()
	c.Adds++
	c.vals[key] = v
	c.touch(key)
	if c.Bound > 0 && len(c.keys) > c.Bound {
		old := c.keys[0]
		c.keys = c.keys[1:]
		delete(c.vals, old)
	}
}

// Snapshot returns a copy of the content.
func (c *RecCache[T]) Snapshot() map[string]T {
	c.mu.Lock()
	defer c.mu.Unlock()
	out := make(map[string]T, len(c.vals))
	for k, v := range c.vals {
		out[k] = v
	}
	return out
}

// Config of a handler.
type Config struct {
	Transports []string // names in order; nil = all
	Recovers   *atomic.Int64
	MaxUpload  int64
	MaxMemory  int64
	KeepAlive  time.Duration
	// ResponseHeaders of the HTTP transports that take them (nil = none)
	ResponseHeaders map[string][]string
	// MarkErrors: the server's error presenter is proj.MarkingPresenter
	MarkErrors bool
	// WSInitReads: the websocket transport has an InitFunc that reads the init payload through
	// gqlgen's own accessors (InitPayload.Authorization, GetString), as an authenticating server does
	WSInitReads bool
}

// AllTransports: the streaming transports come before POST, as the documentation says (POST accepts
// every JSON POST whatever its Accept header, so registered after it they would never be chosen).
var AllTransports = []string{"options", "get", "sse", "multipartmixed", "post", "multipart", "urlencoded", "graphql"}

// New builds a handler.Server over s with the named transports.
func New(s *proj.Server, cfg Config) *handler.Server {
	h := handler.New(s.ES)
	names := cfg.Transports
	if names == nil {
		names = AllTransports
	}
	for _, n := range names {
		switch n {
		case "options":
			h.AddTransport(transport.Options{})
		case "get":
			h.AddTransport(transport.GET{ResponseHeaders: cfg.ResponseHeaders})
		case "post":
			h.AddTransport(transport.POST{ResponseHeaders: cfg.ResponseHeaders})
		case "multipart":
			h.AddTransport(transport.MultipartForm{MaxUploadSize: cfg.MaxUpload, MaxMemory: cfg.MaxMemory, ResponseHeaders: cfg.ResponseHeaders})
		case "urlencoded":
			h.AddTransport(transport.UrlEncodedForm{ResponseHeaders: cfg.ResponseHeaders})
		case "graphql":
			h.AddTransport(transport.GRAPHQL{ResponseHeaders: cfg.ResponseHeaders})
		case "sse":
			h.AddTransport(transport.SSE{KeepAlivePingInterval: cfg.KeepAlive})
		case "multipartmixed":
			h.AddTransport(transport.MultipartMixed{})
		case "websocket":
			ws := transport.Websocket{KeepAlivePingInterval: cfg.KeepAlive}
			if cfg.WSInitReads {
				ws.InitFunc = func(ctx context.Context, ip transport.InitPayload) (context.Context, *transport.InitPayload, error) {
					_ = ip.Authorization()
					_ = ip.GetString("k")
					_ = ip.GetString("Authorization")
					return ctx, nil, nil
				}
			}
			h.AddTransport(ws)
		}
	}
	if cfg.MarkErrors {
		h.SetErrorPresenter(proj.MarkingPresenter)
	}
	rec := cfg.Recovers
	h.SetRecoverFunc(func(ctx context.Context, err any) error {
		if rec != nil {
			rec.Add(1)
		}
		return gqlerror.Errorf("%s", proj.RecoverMsg(err))
	})
	return h
}

// Req describes an HTTP GraphQL request independent of the transport.
type Req struct {
	Transport  string            `json:"transport"` // post get graphql urlencoded
	Query      string            `json:"query"`
	HasQuery   bool              `json:"has_query"`
	OpName     string            `json:"operation_name,omitempty"`
	HasOpName  bool              `json:"has_operation_name,omitempty"`
	Variables  string            `json:"variables,omitempty"` // JSON text; "" = absent
	Extensions string            `json:"extensions,omitempty"`
	Headers    map[string]string `json:"headers,omitempty"`
}

// Build makes the http.Request.
func (r Req) Build() *http.Request {
	var req *http.Request
	switch r.Transport {
	case "get":
		q := url.Values{}
		if r.HasQuery {
			q.Set("query", r.Query)
		}
		if r.HasOpName {
			q.Set("operationName", r.OpName)
		}
		if r.Variables != "" {
			q.Set("variables", r.Variables)
		}
		if r.Extensions != "" {
			q.Set("extensions", r.Extensions)
		}
		req = httptest.NewRequest("GET", "/graphql?"+q.Encode(), nil)
	case "graphql":
		req = httptest.NewRequest("POST", "/graphql", strings.NewReader(r.Query))
		req.Header.Set("Content-Type", "application/graphql")
	case "urlencoded":
		q := url.Values{}
		if r.HasQuery {
			q.Set("query", r.Query)
		}
		if r.HasOpName {
			q.Set("operationName", r.OpName)
		}
		if r.Variables != "" {
			q.Set("variables", r.Variables)
		}
		if r.Extensions != "" {
			q.Set("extensions", r.Extensions)
		}
		req = httptest.NewRequest("POST", "/graphql", strings.NewReader(q.Encode()))
		req.Header.Set("Content-Type", "application/x-www-form-urlencoded")
	default: // post
		var buf bytes.Buffer
		buf.WriteString("{")
		first := true
		add := func(k, rawJSON string) {
			if !first {
				buf.WriteString(",")
			}
			first = false
			kb, _ := json.Marshal(k)
			buf.Write(kb)
			buf.WriteString(":")
			buf.WriteString(rawJSON)
		}
		if r.HasQuery {
			qb, _ := json.Marshal(r.Query)
			add("query", string(qb))
		}
		if r.HasOpName {
			ob, _ := json.Marshal(r.OpName)
			add("operationName", string(ob))
		}
		if r.Variables != "" {
			add("variables", r.Variables)
		}
		if r.Extensions != "" {
			add("extensions", r.Extensions)
		}
		buf.WriteString("}")
		req = httptest.NewRequest("POST", "/graphql", &buf)
		req.Header.Set("Content-Type", "application/json")
	}
	for k, v := range r.Headers {
		req.Header.Set(k, v)
	}
	return req
}

// Result of serving one request.
type Result struct {
	Status int
	Header http.Header
	Body   []byte
}

// Serve runs one request through the handler.
func Serve(h http.Handler, req *http.Request) Result {
	w := httptest.NewRecorder()
	h.ServeHTTP(w, req)
	return Result{Status: w.Code, Header: w.Header(), Body: w.Body.Bytes()}
}

var _ graphql.Cache[string] = (*RecCache[string])(nil)
