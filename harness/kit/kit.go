// Package kit holds what the execution-semantics checks (C01, C04, C05, C06, C13 …) share: the
// cache of built servers, parsing/validation, running the reference executor, drawing overrides.
package kit

import (
	"encoding/json"
	"fmt"
	"os"
	"path/filepath"
	"sort"
	"strings"
	"sync"

	"github.com/vektah/gqlparser/v2/ast"
	"github.com/vektah/gqlparser/v2/gqlerror"
	"github.com/vektah/gqlparser/v2/parser"
	"github.com/vektah/gqlparser/v2/validator"
	"pgregory.net/rapid"

	"vh/plan"
	"vh/proj"
	"vh/refexec"
	"vh/vfrun"
)

// Case is an operation plus the plan that decides every outcome.
type Case struct {
	Project   string                  `json:"project"`
	Query     string                  `json:"query"`
	OpName    string                  `json:"operation_name,omitempty"`
	Variables map[string]any          `json:"variables,omitempty"`
	PlanSeed  uint64                  `json:"plan_seed"`
	Overrides map[string]plan.Outcome `json:"overrides,omitempty"`
	// DefaultRecover: the server keeps gqlgen's own recover hook (graphql.DefaultRecover) instead
	// of the harness's counting one
	DefaultRecover bool `json:"default_recover,omitempty"`
}

func (c Case) Plan() *plan.Plan {
	p := plan.New(c.PlanSeed)
	for k, v := range c.Overrides {
		p.Overrides[k] = v
	}
	return p
}

var (
	srvMu   sync.Mutex
	servers = map[string][]*proj.Server{}
)

// Servers builds (once) every linked vector of a project.
// DrawProject picks the project of a case. The probe schema "core" is built to reach every clause and
// gets most of the cases; the other probes and the random schemas (drawn by sdlgen for this run's
// seed at preparation time) guard against a probe that is accidentally benign.
func DrawProject(t *rapid.T) string {
	var names []string
	for _, n := range proj.Names() {
		w := 1
		if n == "core" {
			w = 4
		}
		for i := 0; i < w; i++ {
			names = append(names, n)
		}
	}
	n := rapid.SampledFrom(names).Draw(t, "project")
	return n
}

func Servers(name string) ([]*proj.Server, error) {
	srvMu.Lock()
	defer srvMu.Unlock()
	if s, ok := servers[name]; ok {
		return s, nil
	}
	var out []*proj.Server
	for _, p := range proj.Vectors(name) {
		s, err := p.Build()
		if err != nil {
			return nil, err
		}
		out = append(out, s)
	}
	if len(out) == 0 {
		return nil, fmt.Errorf("no project %q linked", name)
	}
	servers[name] = out
	return out, nil
}

// Parse parses and validates; gqlparser decides what a valid operation is.
func Parse(schema *ast.Schema, query string) (*ast.QueryDocument, gqlerror.List) {
	doc, err := parser.ParseQuery(&ast.Source{Input: query})
	if err != nil {
		if ge, ok := err.(*gqlerror.Error); ok {
			return nil, gqlerror.List{ge}
		}
		return nil, gqlerror.List{gqlerror.Errorf("%v", err)}
	}
	if errs := validator.Validate(schema, doc); len(errs) > 0 {
		return nil, errs
	}
	return doc, nil
}

// Prepared is a parsed case ready for the reference executor.
type Prepared struct {
	Doc  *ast.QueryDocument
	Op   *ast.OperationDefinition
	Vars map[string]any
}

func Prepare(s *proj.Server, c Case) (*Prepared, *vfrun.Failure) {
	doc, errs := Parse(s.Schema, c.Query)
	if errs != nil {
		return nil, vfrun.Failf("harness.invalid-operation", "%v\n%s", errs, c.Query)
	}
	op := doc.Operations.ForName(c.OpName)
	if op == nil {
		return nil, vfrun.Failf("harness.invalid-operation", "operation %q not found", c.OpName)
	}
	vars, err := validator.VariableValues(s.Schema, op, c.Variables)
	if err != nil {
		return nil, vfrun.Failf("harness.invalid-operation", "variables: %v", err)
	}
	return &Prepared{Doc: doc, Op: op, Vars: vars}, nil
}

// Reference runs the reference executor for a plan.
func Reference(s *proj.Server, pr *Prepared, p *plan.Plan) *refexec.Result {
	return refexec.Execute(refexec.Config{Schema: s.Schema, Doc: pr.Doc, Op: pr.Op, Vars: pr.Vars, Plan: p, IsResolver: s.U.IsResolver})
}

// ReferenceStop is Reference with null propagation stopping at the given object paths.
func ReferenceStop(s *proj.Server, pr *Prepared, p *plan.Plan, stopAt map[string]bool) *refexec.Result {
	return refexec.Execute(refexec.Config{Schema: s.Schema, Doc: pr.Doc, Op: pr.Op, Vars: pr.Vars, Plan: p, IsResolver: s.U.IsResolver, StopAt: stopAt})
}

// Candidate is a key a dry run reaches, with what may be overridden there.
type Candidate struct {
	Key  string
	Kind string // "R" resolver, "D" directive
	Pos  refexec.PosInfo
}

// Candidates lists the distinct resolver and directive keys of a dry run, sorted.
func Candidates(ref *refexec.Result) []Candidate {
	var out []Candidate
	seen := map[string]bool{}
	for _, k := range ref.Resolvers {
		if !seen["R"+k] {
			seen["R"+k] = true
			out = append(out, Candidate{Key: k, Kind: "R", Pos: ref.Pos[k]})
		}
	}
	for _, v := range ref.Values {
		if !seen["V"+v.Key] {
			seen["V"+v.Key] = true
			out = append(out, Candidate{Key: v.Key, Kind: "V", Pos: refexec.PosInfo{NonNull: v.NonNull}})
		}
	}
	for _, k := range ref.Dirs {
		if !seen["D"+k] && !ref.DirsMulti[k] {
			seen["D"+k] = true
			out = append(out, Candidate{Key: k, Kind: "D"})
		}
	}
	sort.Slice(out, func(i, j int) bool {
		if out[i].Kind != out[j].Kind {
			return out[i].Kind > out[j].Kind
		}
		return out[i].Key < out[j].Key
	})
	return out
}

// OverrideKey is the plan key of a candidate.
func (c Candidate) OverrideKey() string {
	if c.Kind == "D" {
		return "D:" + c.Key
	}
	return c.Key
}

// DrawOverrides draws up to max overrides among the candidates; panics only if allowPanic.
func DrawOverrides(t *rapid.T, cands []Candidate, max int, allowPanic bool) map[string]plan.Outcome {
	n := rapid.IntRange(0, max).Draw(t, "noverrides")
	if len(cands) == 0 || n == 0 {
		return nil
	}
	out := map[string]plan.Outcome{}
	for i := 0; i < n; i++ {
		// resolver / directive / value positions are chosen with equal weight, then one of that class
		var classes []string
		byClass := map[string][]Candidate{}
		for _, cd := range cands {
			if len(byClass[cd.Kind]) == 0 {
				classes = append(classes, cd.Kind)
			}
			byClass[cd.Kind] = append(byClass[cd.Kind], cd)
		}
		cl := byClass[classes[rapid.IntRange(0, len(classes)-1).Draw(t, "class")]]
		cd := cl[rapid.IntRange(0, len(cl)-1).Draw(t, "which")]
		kinds := []plan.Kind{plan.Error, plan.Value}
		if cd.Kind == "V" {
			// a value read from the parent object or a list element: it can only be absent (nil
			// pointer, nil interface, zero Time); where the Go type cannot say so the case is
			// discarded by the check (counted)
			out[cd.Key] = plan.Outcome{Kind: plan.Nil}
			continue
		}
		if cd.Kind == "R" {
			// a nil slice in a non-null list position is gqlgen's empty list, not a null
			if !(cd.Pos.NonNull && cd.Pos.List) {
				kinds = append(kinds, plan.Nil)
			}
		} else {
			kinds = []plan.Kind{plan.Error, plan.DirNull}
			if strings.HasPrefix(cd.Key, "@") {
				// a directive on the operation: it can only refuse (what it returns has to be the
				// marshaller it was handed, and nothing recovers a panic above the fields)
				out["D:"+cd.Key] = plan.Outcome{Kind: plan.Error, Msg: fmt.Sprintf("boom%d", i)}
				continue
			}
		}
		if allowPanic {
			kinds = append(kinds, plan.Panic)
		}
		k := kinds[rapid.IntRange(0, len(kinds)-1).Draw(t, "okind")]
		o := plan.Outcome{Kind: k}
		if k == plan.Error || k == plan.Panic {
			o.Msg = fmt.Sprintf("boom%d", i)
		}
		out[cd.OverrideKey()] = o
	}
	return out
}

// Journal records the case about to be executed, so that a crash of the process still leaves a
// reproduction behind.
func Journal(v any) {
	dir := os.Getenv("VF_OUT")
	if dir == "" {
		return
	}
	b, err := json.Marshal(v)
	if err != nil {
		return
	}
	_ = os.WriteFile(filepath.Join(dir, fmt.Sprintf("journal-%d.json", vfrun.Shard())), b, 0o644)
}
