// Package opgen draws valid GraphQL operations for a schema from rapid: aliases, repeated response
// keys, inline fragments with and without type condition, named fragments spread several times,
// @skip/@include with literals and variables, __typename, arguments as literals or variables.
package opgen

import (
	"fmt"
	"sort"
	"strings"

	"github.com/vektah/gqlparser/v2/ast"
	"pgregory.net/rapid"
)

type Options struct {
	MaxDepth   int
	MaxFields  int
	Mutation   bool // generate a mutation (if the schema has one)
	Defer      bool // put @defer on fragments
	NoSkip     bool // no @skip/@include
	OnlyFields map[string]bool
	// SkipFields: "Type.field" never selected
	SkipFields map[string]bool
	// ArgValue produces a literal for an argument (default: simple literals); return "" to omit
	ArgValue func(t *rapid.T, g *Gen, arg *ast.ArgumentDefinition) string
	// NoDupSpread: never spread the same fragment twice in one selection set
	NoDupSpread bool
	// Resolver (optional) tells which fields have resolvers; with Defer set, selections below the
	// root prefer them (only resolver fields are ever deferred by gqlgen)
	Resolver func(typ, field string) bool
}

// Op is a generated operation.
type Op struct {
	Query     string         `json:"query"`
	Variables map[string]any `json:"variables,omitempty"`
	OpName    string         `json:"operation_name,omitempty"`
	Kind      string         `json:"kind"`
}

type fragment struct {
	name string
	on   string
	body string
}

type Gen struct {
	Schema *ast.Schema
	Opt    Options
	t      *rapid.T
	budget int
	frags  []fragment
	used   map[string]bool
	// response key -> signature (field name + args + type) that key must keep everywhere
	keys    map[string]string
	varDefs []string
	vars    map[string]any
	nvar    int
	nalias  int
	deferN  int
	// forceDefer: the next fragment gets @defer and its body prefers resolver fields
	forceDefer bool
}

// Generate draws one operation.
func Generate(t *rapid.T, schema *ast.Schema, opt Options) Op {
	if opt.MaxDepth == 0 {
		opt.MaxDepth = 5
	}
	if opt.MaxFields == 0 {
		opt.MaxFields = 40
	}
	g := &Gen{Schema: schema, Opt: opt, t: t, budget: opt.MaxFields, used: map[string]bool{}, keys: map[string]string{}, vars: map[string]any{}}
	root := schema.Query
	kind := "query"
	if opt.Mutation && schema.Mutation != nil {
		root = schema.Mutation
		kind = "mutation"
	}
	body := g.selectionSet(root, 0, true)
	var sb strings.Builder
	sb.WriteString(kind)
	name := ""
	if rapid.Bool().Draw(t, "named") {
		name = "Op"
		sb.WriteString(" Op")
	}
	if len(g.varDefs) > 0 {
		sb.WriteString("(" + strings.Join(g.varDefs, ", ") + ")")
	}
	if d := g.operationDirective(kind); d != "" && !opt.NoSkip && rapid.IntRange(0, 5).Draw(t, "opdir?") == 0 {
		// an executable directive of the user on the operation itself
		g.nalias++
		sb.WriteString(fmt.Sprintf(" @%s(tag: \"o%d\")", d, g.nalias))
	}
	sb.WriteString(" " + body)
	for _, f := range g.frags {
		if !g.used[f.name] {
			continue
		}
		sb.WriteString("\nfragment " + f.name + " on " + f.on + " " + f.body)
	}
	return Op{Query: sb.String(), Variables: g.vars, OpName: name, Kind: kind}
}

// GenerateSubscription draws a subscription on one root field of the Subscription type whose result is
// an object: `subscription { <alias>: <field> <selection on its type> }` (fragments, aliases,
// @skip/@include inside as in Generate).
func GenerateSubscription(t *rapid.T, schema *ast.Schema, opt Options, field, alias string) Op {
	if opt.MaxDepth == 0 {
		opt.MaxDepth = 4
	}
	if opt.MaxFields == 0 {
		opt.MaxFields = 20
	}
	g := &Gen{Schema: schema, Opt: opt, t: t, budget: opt.MaxFields, used: map[string]bool{}, keys: map[string]string{}, vars: map[string]any{}}
	fd := schema.Subscription.Fields.ForName(field)
	body := g.selectionSet(schema.Types[fd.Type.Name()], 1, false)
	var sb strings.Builder
	sb.WriteString("subscription")
	if len(g.varDefs) > 0 {
		sb.WriteString("(" + strings.Join(g.varDefs, ", ") + ")")
	}
	sb.WriteString(" { " + alias + ": " + field + " " + body + " }")
	for _, f := range g.frags {
		if !g.used[f.name] {
			continue
		}
		sb.WriteString("\nfragment " + f.name + " on " + f.on + " " + f.body)
	}
	return Op{Query: sb.String(), Variables: g.vars, Kind: "subscription"}
}

func (g *Gen) boolVar(val bool) string {
	g.nvar++
	name := fmt.Sprintf("v%d", g.nvar)
	how := rapid.IntRange(0, 2).Draw(g.t, "varhow")
	switch how {
	case 0: // required, provided
		g.varDefs = append(g.varDefs, "$"+name+": Boolean!")
		g.vars[name] = val
	case 1: // default used
		g.varDefs = append(g.varDefs, fmt.Sprintf("$%s: Boolean! = %v", name, val))
	default: // default overridden
		g.varDefs = append(g.varDefs, fmt.Sprintf("$%s: Boolean = %v", name, !val))
		g.vars[name] = val
	}
	return "$" + name
}

// operationDirective: a custom directive (with a `tag` argument) the schema declares for operations
// of this kind ("" if none).
func (g *Gen) operationDirective(kind string) string {
	loc := ast.LocationQuery
	if kind == "mutation" {
		loc = ast.LocationMutation
	}
	var names []string
	for n, d := range g.Schema.Directives {
		for _, l := range d.Locations {
			if l == loc && d.Arguments.ForName("tag") != nil {
				names = append(names, n)
			}
		}
	}
	if len(names) == 0 {
		return ""
	}
	sort.Strings(names)
	return names[0]
}

// fieldDirective: the name of a custom directive the schema declares for the FIELD location ("" if
// none), taking one optional String argument `tag`.
func (g *Gen) fieldDirective() string {
	var names []string
	for n, d := range g.Schema.Directives {
		switch n {
		case "skip", "include", "defer", "deprecated", "specifiedBy", "oneOf":
			continue
		}
		for _, l := range d.Locations {
			if l == ast.LocationField && d.Arguments.ForName("tag") != nil {
				names = append(names, n)
			}
		}
	}
	if len(names) == 0 {
		return ""
	}
	sort.Strings(names)
	return names[0]
}

// directives draws @skip/@include for a selection; returns the text (leading space) or "".
func (g *Gen) directives() string {
	if g.Opt.NoSkip || rapid.IntRange(0, 5).Draw(g.t, "dir?") != 0 {
		return ""
	}
	val := rapid.Bool().Draw(g.t, "dirval")
	arg := fmt.Sprint(val)
	if rapid.Bool().Draw(g.t, "dirvar") {
		arg = g.boolVar(val)
	}
	out := ""
	switch rapid.IntRange(0, 2).Draw(g.t, "dirkind") {
	case 0:
		out = " @skip(if: " + arg + ")"
	case 1:
		out = " @include(if: " + arg + ")"
	default:
		val2 := rapid.Bool().Draw(g.t, "dirval2")
		out = " @skip(if: " + arg + ") @include(if: " + fmt.Sprint(val2) + ")"
	}
	return out
}

func (g *Gen) deferDir() string {
	if !g.Opt.Defer {
		return ""
	}
	if g.forceDefer {
		g.forceDefer = false
		g.deferN++
		return rapid.SampledFrom([]string{" @defer", " @defer(label: \"first\")", " @defer(if: true)"}).Draw(g.t, "forceddefer")
	}
	if rapid.IntRange(0, 2).Draw(g.t, "defer?") == 0 {
		return ""
	}
	g.deferN++
	switch rapid.IntRange(0, 4).Draw(g.t, "deferkind") {
	case 0:
		return " @defer"
	case 1:
		return fmt.Sprintf(" @defer(label: \"L%d\")", g.deferN)
	case 2:
		return " @defer(label: \"shared\")"
	case 3:
		v := rapid.Bool().Draw(g.t, "deferif")
		return fmt.Sprintf(" @defer(if: %v, label: \"L%d\")", v, g.deferN)
	default:
		if rapid.IntRange(0, 2).Draw(g.t, "deferifnull") == 0 {
			// 'if' of @defer is a nullable Boolean: a variable without default that is left out, or
			// that is null, is valid input
			g.nvar++
			name := fmt.Sprintf("v%d", g.nvar)
			g.varDefs = append(g.varDefs, "$"+name+": Boolean")
			if rapid.Bool().Draw(g.t, "explicitnull") {
				g.vars[name] = nil
			}
			return fmt.Sprintf(" @defer(if: $%s)", name)
		}
		v := rapid.Bool().Draw(g.t, "deferifv")
		return fmt.Sprintf(" @defer(if: %s)", g.boolVar(v))
	}
}

// typeConditions lists the type names a fragment inside a selection on `typ` may use.
func (g *Gen) typeConditions(typ *ast.Definition) []string {
	set := map[string]bool{typ.Name: true}
	switch typ.Kind {
	case ast.Object:
		for _, i := range typ.Interfaces {
			set[i] = true
		}
		for _, d := range g.Schema.Types {
			if d.Kind == ast.Union {
				for _, m := range d.Types {
					if m == typ.Name {
						set[d.Name] = true
					}
				}
			}
		}
	case ast.Interface, ast.Union:
		for _, p := range g.Schema.GetPossibleTypes(typ) {
			set[p.Name] = true
			for _, i := range p.Interfaces {
				set[i] = true
			}
		}
	}
	var out []string
	for k := range set {
		out = append(out, k)
	}
	sort.Strings(out)
	return out
}

func (g *Gen) selectableFields(typ *ast.Definition) []*ast.FieldDefinition {
	var out []*ast.FieldDefinition
	if typ.Kind == ast.Union {
		return nil
	}
	for _, f := range typ.Fields {
		if strings.HasPrefix(f.Name, "__") {
			continue
		}
		if strings.HasSuffix(f.Name, "Echo") {
			// echo fields (they return their first argument) belong to dedicated tests
			continue
		}
		if g.Opt.SkipFields[typ.Name+"."+f.Name] {
			continue
		}
		if g.Opt.OnlyFields != nil && !g.Opt.OnlyFields[typ.Name+"."+f.Name] {
			continue
		}
		out = append(out, f)
	}
	return out
}

func isComposite(d *ast.Definition) bool {
	return d.Kind == ast.Object || d.Kind == ast.Interface || d.Kind == ast.Union
}

func (g *Gen) selectionSet(typ *ast.Definition, depth int, isRoot bool) string {
	n := rapid.IntRange(1, 4).Draw(g.t, "nsel")
	var parts []string
	fields := g.selectableFields(typ)
	spreadHere := map[string]bool{}
	for i := 0; i < n || len(parts) == 0; i++ {
		if i > 8 {
			parts = append(parts, "__typename")
			break
		}
		choice := rapid.IntRange(0, 9).Draw(g.t, "sel")
		if g.Opt.Defer && !isRoot && g.deferN == 0 && depth < g.Opt.MaxDepth && g.budget > 0 && typ.Kind == ast.Object {
			choice = 7 // the first opportunity below the root always carries a @defer
			g.forceDefer = true
		} else if g.Opt.Defer && !isRoot && choice >= 3 && choice <= 5 && rapid.Bool().Draw(g.t, "fragbias") {
			choice = 7 + (choice-3)%3 // more fragments (the carriers of @defer) below the root
		}
		if isRoot && g.Schema.Mutation == typ && choice >= 6 {
			choice = 0 // mutations: mostly plain root fields
		}
		switch {
		case choice <= 5 && len(fields) > 0: // field
			if g.budget <= 0 {
				continue
			}
			pool := fields
			if g.Opt.Resolver != nil && g.Opt.Defer && !isRoot && typ.Kind == ast.Object && rapid.IntRange(0, 3).Draw(g.t, "resolver?") != 0 {
				var rs []*ast.FieldDefinition
				for _, f := range fields {
					if g.Opt.Resolver(typ.Name, f.Name) && (depth < g.Opt.MaxDepth || !isComposite(g.Schema.Types[f.Type.Name()])) {
						rs = append(rs, f)
					}
				}
				if len(rs) > 0 {
					pool = rs
				}
			} else if depth < g.Opt.MaxDepth && rapid.Bool().Draw(g.t, "composite?") {
				var comp []*ast.FieldDefinition
				for _, f := range fields {
					if isComposite(g.Schema.Types[f.Type.Name()]) {
						comp = append(comp, f)
					}
				}
				if len(comp) > 0 {
					pool = comp
				}
			}
			f := pool[rapid.IntRange(0, len(pool)-1).Draw(g.t, "field")]
			if s := g.field(typ, f, depth); s != "" {
				parts = append(parts, s)
			}
		case choice == 6:
			if isRoot && typ == g.Schema.Subscription {
				continue
			}
			parts = append(parts, "__typename"+g.directives())
		case choice == 7: // inline fragment
			if depth >= g.Opt.MaxDepth || g.budget <= 0 {
				continue
			}
			conds := g.typeConditions(typ)
			cond := ""
			target := typ
			forced := g.forceDefer
			if forced {
				g.forceDefer = false
				g.deferN++
			}
			if !forced && rapid.IntRange(0, 3).Draw(g.t, "cond?") != 0 {
				cond = conds[rapid.IntRange(0, len(conds)-1).Draw(g.t, "cond")]
				target = g.Schema.Types[cond]
			}
			body := g.selectionSet(target, depth+1, false)
			s := "..."
			if cond != "" {
				s += " on " + cond
			}
			dd := ""
			if forced {
				dd = rapid.SampledFrom([]string{" @defer", " @defer(label: \"first\")", " @defer(if: true)"}).Draw(g.t, "forceddefer")
				parts = append(parts, s+dd+" "+body)
				continue
			}
			if !isRoot {
				dd = g.deferDir()
			}
			parts = append(parts, s+g.directives()+dd+" "+body)
		default: // fragment spread
			if depth >= g.Opt.MaxDepth || g.budget <= 0 {
				continue
			}
			conds := g.typeConditions(typ)
			// reuse an applicable fragment or define a new one
			var applicable []fragment
			for _, f := range g.frags {
				for _, c := range conds {
					if f.on == c {
						applicable = append(applicable, f)
						break
					}
				}
			}
			var name string
			if len(applicable) > 0 && rapid.Bool().Draw(g.t, "reuse") {
				name = applicable[rapid.IntRange(0, len(applicable)-1).Draw(g.t, "which")].name
			} else {
				cond := conds[rapid.IntRange(0, len(conds)-1).Draw(g.t, "fcond")]
				body := g.selectionSet(g.Schema.Types[cond], depth+1, false)
				name = fmt.Sprintf("F%d", len(g.frags))
				g.frags = append(g.frags, fragment{name: name, on: cond, body: body})
			}
			if g.Opt.NoDupSpread && spreadHere[name] {
				continue
			}
			spreadHere[name] = true
			g.used[name] = true
			dd := ""
			if !isRoot {
				dd = g.deferDir()
			}
			parts = append(parts, "..."+name+g.directives()+dd)
		}
	}
	return "{ " + strings.Join(parts, " ") + " }"
}

func (g *Gen) literal(t *ast.Type) string {
	if t.Elem != nil {
		n := rapid.IntRange(0, 2).Draw(g.t, "llen")
		var xs []string
		for i := 0; i < n; i++ {
			xs = append(xs, g.literal(t.Elem))
		}
		return "[" + strings.Join(xs, ", ") + "]"
	}
	def := g.Schema.Types[t.NamedType]
	switch {
	case def.Kind == ast.Enum:
		return def.EnumValues[rapid.IntRange(0, len(def.EnumValues)-1).Draw(g.t, "enum")].Name
	case t.NamedType == "Int":
		return fmt.Sprint(rapid.IntRange(-5, 5).Draw(g.t, "int"))
	case t.NamedType == "Float":
		return fmt.Sprint(float64(rapid.IntRange(-5, 5).Draw(g.t, "fl")) / 2)
	case t.NamedType == "Boolean":
		return fmt.Sprint(rapid.Bool().Draw(g.t, "b"))
	case t.NamedType == "String" || t.NamedType == "ID":
		return fmt.Sprintf("%q", rapid.SampledFrom([]string{"", "a", "b c", "x\"y"}).Draw(g.t, "str"))
	}
	return "null"
}

func (g *Gen) args(f *ast.FieldDefinition) string {
	var out []string
	for _, a := range f.Arguments {
		if g.Opt.ArgValue != nil {
			if v := g.Opt.ArgValue(g.t, g, a); v != "" {
				out = append(out, a.Name+": "+v)
			}
			continue
		}
		required := a.Type.NonNull && a.DefaultValue == nil
		if !required && rapid.Bool().Draw(g.t, "omitarg") {
			continue
		}
		def := g.Schema.Types[a.Type.Name()]
		if def != nil && def.Kind == ast.InputObject {
			if required {
				out = append(out, a.Name+": {}")
			}
			continue
		}
		if !a.Type.NonNull && rapid.IntRange(0, 4).Draw(g.t, "nullarg") == 0 {
			out = append(out, a.Name+": null")
			continue
		}
		out = append(out, a.Name+": "+g.literal(a.Type))
	}
	if len(out) == 0 {
		return ""
	}
	return "(" + strings.Join(out, ", ") + ")"
}

func (g *Gen) field(parent *ast.Definition, f *ast.FieldDefinition, depth int) string {
	ft := g.Schema.Types[f.Type.Name()]
	composite := isComposite(ft)
	if composite && depth >= g.Opt.MaxDepth {
		return ""
	}
	g.budget--
	args := g.args(f)
	sig := f.Name + args + ":" + f.Type.String()
	key := f.Name
	if rapid.IntRange(0, 3).Draw(g.t, "alias?") == 0 {
		key = rapid.SampledFrom([]string{"x", "y", "z", "id", "a", f.Name + "2"}).Draw(g.t, "alias")
	}
	for {
		have, ok := g.keys[key]
		if !ok || have == sig {
			break
		}
		g.nalias++
		key = fmt.Sprintf("%s_%d", f.Name, g.nalias)
	}
	g.keys[key] = sig
	out := f.Name
	if key != f.Name {
		out = key + ": " + f.Name
	}
	fx := ""
	if d := g.fieldDirective(); d != "" && !g.Opt.NoSkip && rapid.IntRange(0, 5).Draw(g.t, "fx?") == 0 {
		// an executable (FIELD) directive implemented by the user: always under a response key of its
		// own, so that no other occurrence of the key is merged with it
		g.nalias++
		key = fmt.Sprintf("fx%d", g.nalias)
		g.keys[key] = sig
		out = key + ": " + f.Name
		fx = fmt.Sprintf(" @%s(tag: \"t%d\")", d, g.nalias)
	}
	out += args + g.directives() + fx
	if composite {
		out += " " + g.selectionSet(ft, depth+1, false)
	}
	return out
}
