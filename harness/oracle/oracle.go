// Package oracle compares a gqlgen response with the reference executor's result.
package oracle

import (
	"fmt"
	"sort"
	"strings"

	"github.com/vektah/gqlparser/v2/gqlerror"

	"vh/proj"
	"vh/refexec"
	"vh/strictjson"
	"vh/vfrun"
)

const (
	nullMsg1 = "must not be null"
	nullMsg2 = "the requested element is null which the schema does not allow"
)

// NormErrors renders gqlgen's error list as sorted "path|message" strings, with the two gqlgen
// messages for a null in a non-null position normalised to NULL.
func NormErrors(errs gqlerror.List) []string {
	var out []string
	for _, e := range errs {
		msg := e.Message
		if msg == nullMsg1 || msg == nullMsg2 {
			msg = "NULL"
		}
		if strings.HasPrefix(msg, "recovered: unexpected type ") {
			msg = "FOREIGN"
		}
		out = append(out, e.Path.String()+"|"+msg)
	}
	sort.Strings(out)
	return out
}

// ExpErrors renders the reference errors the same way.
func ExpErrors(errs []refexec.ErrEntry) []string { return expErrors(errs, false) }

// expErrors: with gqlgen's own recover hook every panic is reported as DefaultRecoverMsg.
func expErrors(errs []refexec.ErrEntry, defaultRecover bool) []string {
	var out []string
	for _, e := range errs {
		msg := e.Msg
		switch e.Class {
		case "null":
			msg = "NULL"
		case "panic":
			msg = proj.RecoverMsg(e.Msg)
			if defaultRecover {
				msg = proj.DefaultRecoverMsg
			}
		case "foreign":
			msg = "FOREIGN"
			if defaultRecover {
				msg = proj.DefaultRecoverMsg
			}
		}
		out = append(out, e.Path+"|"+msg)
	}
	sort.Strings(out)
	return out
}

// ExpErrorsIndexless is ExpErrors with the element index dropped from the path of null errors of
// scalar / enum list elements: generated code marshals such elements without a path context of their
// own, so the error names the list (known finding exec.leaf-list-element-error-path-without-index).
func ExpErrorsIndexless(errs []refexec.ErrEntry) []string { return expErrorsIndexless(errs, false) }

func expErrorsIndexless(errs []refexec.ErrEntry, defaultRecover bool) []string {
	var cp []refexec.ErrEntry
	seen := map[string]bool{}
	for _, e := range errs {
		if e.LeafElem {
			if j := strings.LastIndex(e.Path, "["); j >= 0 {
				e.Path = e.Path[:j]
			}
			// all elements share the list's field context, so only the first null one is reported
			if seen[e.Path] {
				continue
			}
			seen[e.Path] = true
		}
		cp = append(cp, e)
	}
	return expErrors(cp, defaultRecover)
}

const LeafElemPathKey = "exec.leaf-list-element-error-path-without-index"

func sameStrings(a, b []string) bool {
	if len(a) != len(b) {
		return false
	}
	for i := range a {
		if a[i] != b[i] {
			return false
		}
	}
	return true
}

// Compare checks data (strict JSON, key order, no duplicate keys), the error multiset and the
// resolver / directive invocation multisets.
func Compare(vec string, ref *refexec.Result, resp *proj.Response, resolverKeys, dirKeys []string) *vfrun.Failure {
	if resp.Rejected {
		return vfrun.Failf("exec.valid-operation-rejected", "[%s] valid operation rejected: %v", vec, resp.Errors)
	}
	data, err := strictjson.Parse(resp.Data)
	if err != nil {
		key := "exec.data-not-strict-json"
		if strings.Contains(err.Error(), "duplicate object key") {
			key = "exec.duplicate-response-key"
		}
		return vfrun.Failf(key, "[%s] data %q: %v", vec, resp.Data, err)
	}
	if !refexec.SameData(data, ref.Data) {
		key := "exec.data-mismatch"
		if data.CanonUnordered() == ref.Data.CanonUnordered() {
			key = "exec.key-order"
		}
		return vfrun.Failf(key, "[%s] data differs\n got: %s\nwant: %s", vec, data.Canon(), ref.Data.Canon())
	}
	got, want := NormErrors(resp.Errors), expErrors(ref.Errors, resp.DefaultRecover)
	if !sameStrings(got, want) {
		if sameStrings(got, expErrorsIndexless(ref.Errors, resp.DefaultRecover)) {
			f := vfrun.Failf(LeafElemPathKey, "[%s] the null error of a scalar list element names the list, not the element\n got: %q\nwant: %q", vec, got, want)
			if !vfrun.IsKnown(f.Key) {
				return f
			}
		} else {
			return vfrun.Failf("exec.errors-mismatch", "[%s] errors differ\n got: %q\nwant: %q", vec, got, want)
		}
	}
	if resolverKeys != nil && !sameStrings(resolverKeys, ref.Resolvers) {
		return vfrun.Failf("exec.resolver-invocations", "[%s] resolver invocations differ\n got: %q\nwant: %q", vec, resolverKeys, ref.Resolvers)
	}
	if dirKeys != nil && !sameStrings(dirKeys, ref.Dirs) {
		return vfrun.Failf("exec.directive-invocations", "[%s] directive invocations differ\n got: %q\nwant: %q", vec, dirKeys, ref.Dirs)
	}
	return nil
}

func Describe(ref *refexec.Result) string {
	return fmt.Sprintf("data=%s errors=%q", ref.Data.Canon(), ExpErrors(ref.Errors))
}
