// Package plan assigns an outcome to every resolver / directive / value position of an execution.
// It is a total function: a sparse override map drawn by rapid, and a hash-derived default for every
// other key, so the implementation and the reference executor can never disagree about an outcome
// whatever order they ask in.
package plan

import (
	"encoding/binary"
	"hash/fnv"
	"strconv"
)

type Kind string

const (
	Value Kind = "value"
	Nil   Kind = "nil"
	Error Kind = "error"
	Panic Kind = "panic"
	// Foreign: return a Go value that no case of the generated type switch matches (abstract types)
	Foreign Kind = "foreign"
	// directive outcomes
	Pass    Kind = "pass"
	DirNull Kind = "dirnull" // directive returns (nil, nil) without calling next
)

// Outcome of one invocation / position.
type Outcome struct {
	Kind Kind   `json:"kind"`
	Msg  string `json:"msg,omitempty"`
	// schedule attributes (never change the result, only when it is produced)
	Yield   int    `json:"yield,omitempty"`    // runtime.Gosched() calls before returning
	SleepUS int    `json:"sleep_us,omitempty"` // sleep before returning
	Wait    string `json:"wait,omitempty"`     // gate to wait for (bounded)
	Signal  string `json:"signal,omitempty"`   // gate to signal when done
	Cancel  bool   `json:"cancel,omitempty"`   // cancel the operation context here
	Len     *int   `json:"len,omitempty"`      // list length override
}

// Schedule perturbs when resolvers return, never what they return.
type Schedule struct {
	Mode string `json:"mode"` // "", "yield", "delay", "reverse", "mixed"
	Seed uint64 `json:"seed"`
	// Next: for mode reverse, the key whose completion a resolver waits for (bounded)
	Next map[string]string `json:"next,omitempty"`
}

type Plan struct {
	Seed      uint64             `json:"seed"`
	Overrides map[string]Outcome `json:"overrides,omitempty"`
	Schedule  *Schedule          `json:"schedule,omitempty"`
	// NullRate: a nullable position is nil by default when hash%NullRate==0 (0 = never)
	NullRate uint64 `json:"null_rate"`
}

func New(seed uint64) *Plan {
	return &Plan{Seed: seed, Overrides: map[string]Outcome{}, NullRate: 8}
}

// H is the deterministic hash all defaults derive from.
func (p *Plan) H(key, salt string) uint64 {
	h := fnv.New64a()
	var b [8]byte
	binary.LittleEndian.PutUint64(b[:], p.Seed)
	h.Write(b[:])
	h.Write([]byte(key))
	h.Write([]byte{0})
	h.Write([]byte(salt))
	v := h.Sum64()
	// final avalanche (fnv is weak in the low bits for short suffix changes)
	v ^= v >> 33
	v *= 0xff51afd7ed558ccd
	v ^= v >> 33
	v *= 0xc4ceb9fe1a85ec53
	v ^= v >> 33
	return v
}

// Get returns the outcome of a value position (resolver result, list element, embedded field).
func (p *Plan) Get(key string, nullable bool) Outcome {
	if o, ok := p.Overrides[key]; ok {
		return o
	}
	if nullable && p.NullRate > 0 && p.H(key, "nil")%p.NullRate == 0 {
		return Outcome{Kind: Nil}
	}
	return Outcome{Kind: Value}
}

// Dir returns the outcome of a directive invocation (default: pass).
func (p *Plan) Dir(key string) Outcome {
	if o, ok := p.Overrides[key]; ok {
		return o
	}
	return Outcome{Kind: Pass}
}

// ListLen is the length of the list produced at key.
func (p *Plan) ListLen(key string) int {
	if o, ok := p.Overrides[key]; ok && o.Len != nil {
		return *o.Len
	}
	return int(p.H(key, "len") % 4)
}

// Pick chooses one of n alternatives (concrete type of an abstract position, enum value).
func (p *Plan) Pick(key string, n int) int {
	if n <= 0 {
		return 0
	}
	return int(p.H(key, "pick") % uint64(n))
}

var specialStrings = []string{"", "q\"uote", "back\\slash", "nl\nline", "tab\t", "é😀", " sep", "<&>", "ctl\x01\x1f", "nul\x00"}

// String payload for String/ID positions.
func (p *Plan) String(key string) string {
	h := p.H(key, "str")
	if h%16 == 0 {
		return specialStrings[(h>>8)%uint64(len(specialStrings))]
	}
	return "s" + strconv.FormatUint((h>>8)%100000, 36)
}

func (p *Plan) Int(key string) int64 {
	h := p.H(key, "int")
	switch h % 16 {
	case 0:
		return 2147483647
	case 1:
		return -2147483648
	case 2:
		return 0
	}
	return int64((h>>8)%2001) - 1000
}

func (p *Plan) Float(key string) float64 {
	h := p.H(key, "float")
	switch h % 16 {
	case 0:
		return 1e21
	case 1:
		return -0.000001
	case 2:
		return 0
	}
	return float64(int64((h>>8)%20001)-10000) / 8
}

func (p *Plan) Bool(key string) bool { return p.H(key, "bool")%2 == 0 }

// Sched returns the schedule attributes for a resolver invocation.
func (p *Plan) Sched(key string) (yield, sleepUS int, wait, signal string) {
	sc := p.Schedule
	if sc == nil || sc.Mode == "" {
		return
	}
	q := Plan{Seed: sc.Seed}
	h := q.H(key, "sched")
	switch sc.Mode {
	case "yield":
		yield = int(h % 5)
	case "delay":
		sleepUS = int(h % 300)
	case "mixed":
		yield = int(h % 3)
		if h%4 == 0 {
			sleepUS = int((h >> 8) % 500)
		}
	case "tick":
		// every resolver returns on the next tick of a common clock: invocations that are in flight
		// together complete at the same instant (the attribute is the tick length in microseconds)
		sleepUS = -1000
	case "reverse":
		signal = "done:" + key
		if n, ok := sc.Next[key]; ok {
			wait = "done:" + n
		}
	}
	return
}
