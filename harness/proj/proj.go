// Package proj is the registry of generated projects linked into a test binary, and the helpers to
// build and drive a server over the universal resolver.
package proj

import (
	"context"
	"encoding/json"
	"fmt"
	"os"
	"reflect"
	"runtime/debug"
	"sort"
	"sync"
	"sync/atomic"

	"github.com/99designs/gqlgen/codegen/templates"
	"github.com/99designs/gqlgen/graphql"
	"github.com/99designs/gqlgen/graphql/executor"
	"github.com/vektah/gqlparser/v2/ast"
	"github.com/vektah/gqlparser/v2/gqlerror"

	"vh/univ"
)

type Project struct {
	Name    string
	Vec     string
	Types   map[string]reflect.Type
	Foreign map[string]any
	New     func() (any, any, any, func() graphql.ExecutableSchema)
	// NewSchema builds the executable schema over another schema document (Config.Schema)
	NewSchema func(*ast.Schema) graphql.ExecutableSchema
	Options   map[string]string
}

var all []*Project

func Register(p *Project) { all = append(all, p) }

func All() []*Project {
	out := append([]*Project(nil), all...)
	sort.SliceStable(out, func(i, j int) bool {
		if out[i].Name != out[j].Name {
			return out[i].Name < out[j].Name
		}
		return out[i].Vec < out[j].Vec
	})
	return out
}

// Vectors returns the vectors of the project called name.
func Vectors(name string) []*Project {
	var out []*Project
	for _, p := range All() {
		if p.Name == name {
			out = append(out, p)
		}
	}
	return out
}

// Names returns the distinct project names.
func Names() []string {
	seen := map[string]bool{}
	var out []string
	for _, p := range All() {
		if !seen[p.Name] {
			seen[p.Name] = true
			out = append(out, p.Name)
		}
	}
	return out
}

// Server is one built vector: executable schema over the universal resolver.
type Server struct {
	// DefaultRecover: Do keeps graphql.DefaultRecover as the recover hook (every panic is then
	// reported as "internal system error")
	DefaultRecover bool
	// MarkErrors: Do / DoAll install MarkingPresenter as the error presenter
	MarkErrors bool
	P          *Project
	U          *univ.Universe
	ES         graphql.ExecutableSchema
	Schema     *ast.Schema
	Exec       *executor.Executor
	Stub       any
	Directives any
	Complexity any
}

// DefaultRecoverMsg is what graphql.DefaultRecover answers for every panic.
const DefaultRecoverMsg = "internal system error"

var stderrMu sync.Mutex

// quietDefaultRecover calls graphql.DefaultRecover - which prints the panic value and a stack trace
// to os.Stderr - with os.Stderr pointed at the null device.
func quietDefaultRecover(ctx context.Context, err any) error {
	stderrMu.Lock()
	defer stderrMu.Unlock()
	old := os.Stderr
	if null, e := os.OpenFile(os.DevNull, os.O_WRONLY, 0); e == nil {
		os.Stderr = null
		defer func() { os.Stderr = old; null.Close() }()
	}
	return graphql.DefaultRecover(ctx, err)
}

// MarkingPresenter is a user error presenter: gqlgen's default one plus an extension entry, so that
// every error that went through the configured presenter can be told from one that did not.
func MarkingPresenter(ctx context.Context, err error) *gqlerror.Error {
	e := graphql.DefaultErrorPresenter(ctx, err)
	if e.Extensions == nil {
		e.Extensions = map[string]any{}
	}
	e.Extensions["presented"] = true
	return e
}

// Presented reports whether the error carries MarkingPresenter's mark.
func Presented(e *gqlerror.Error) bool {
	v, _ := e.Extensions["presented"].(bool)
	return v
}

func (s *Server) setPresenter(ex *executor.Executor) {
	if s.MarkErrors {
		ex.SetErrorPresenter(MarkingPresenter)
	} else {
		ex.SetErrorPresenter(graphql.DefaultErrorPresenter)
	}
}

// RecoverMsg is the error message the harness recover hook produces for a panic value.
func RecoverMsg(r any) string { return fmt.Sprintf("recovered: %v", r) }

func (p *Project) Build() (*Server, error) {
	stub, dirs, cplx, mk := p.New()
	schema := mk().Schema()
	u := univ.New(p.Name+"/"+p.Vec, schema, p.Types)
	u.Foreign = map[string]reflect.Value{}
	for k, v := range p.Foreign {
		u.Foreign[k] = reflect.ValueOf(v)
	}
	if err := u.FillStub(stub, templates.ToGo); err != nil {
		return nil, err
	}
	u.FillDirectives(dirs)
	u.FillComplexity(cplx, templates.ToGo)
	es := mk()
	ex := executor.New(es)
	s := &Server{P: p, U: u, ES: es, Schema: schema, Exec: ex, Stub: stub, Directives: dirs, Complexity: cplx}
	return s, nil
}

// Rebuild constructs a fresh executable schema and executor over the same (already filled) roots.
func (s *Server) NewExecutor() *executor.Executor {
	return executor.New(s.ES)
}

// Response of one execution, as the harness sees it.
type Response struct {
	Data   []byte
	Errors gqlerror.List
	// Rejected: CreateOperationContext refused the request (nothing executed)
	Rejected bool
	Recovers int
	HasNext  *bool
	Label    string
	Path     ast.Path
	OpCtx    *graphql.OperationContext
	// Panic: a panic escaped gqlgen's own code (executor/validation), with its stack
	Panic      any
	PanicStack string
	// DefaultRecover: gqlgen's own recover hook was in place (Recovers is -1: not counted)
	DefaultRecover bool
}

// Do executes one operation directly against the executor with the given Exec state current.
func (s *Server) Do(ctx context.Context, e *univ.Exec, query, opName string, vars map[string]any) (out *Response) {
	defer func() {
		if r := recover(); r != nil {
			out = &Response{Panic: r, PanicStack: string(debug.Stack()), Rejected: true}
		}
	}()
	s.U.SetExec(e)
	var recovers atomic.Int64
	ex := s.Exec
	s.setPresenter(ex)
	ex.SetRecoverFunc(func(ctx context.Context, err any) error {
		recovers.Add(1)
		return gqlerror.Errorf("%s", RecoverMsg(err))
	})
	defaultRecover := s.DefaultRecover
	if defaultRecover {
		ex.SetRecoverFunc(quietDefaultRecover)
	}
	ctx = graphql.StartOperationTrace(ctx)
	rc, errs := ex.CreateOperationContext(ctx, &graphql.RawParams{Query: query, OperationName: opName, Variables: vars})
	if errs != nil {
		resp := ex.DispatchError(graphql.WithOperationContext(ctx, rc), errs)
		return &Response{Errors: resp.Errors, Rejected: true, OpCtx: rc}
	}
	rh, ctx2 := ex.DispatchOperation(ctx, rc)
	resp := rh(ctx2)
	nrec := int(recovers.Load())
	if defaultRecover {
		nrec = -1
	}
	if resp == nil {
		return &Response{Recovers: nrec, DefaultRecover: defaultRecover}
	}
	return &Response{Data: resp.Data, Errors: resp.Errors, Recovers: nrec, DefaultRecover: defaultRecover, HasNext: resp.HasNext, Label: resp.Label, Path: resp.Path, OpCtx: rc}
}

// DoAll executes one operation and reads payloads until the response handler returns nil (or max
// payloads were read).
func (s *Server) DoAll(ctx context.Context, e *univ.Exec, query, opName string, vars map[string]any, max int) (out []*Response, rejected bool) {
	s.U.SetExec(e)
	var recovers atomic.Int64
	ex := s.Exec
	s.setPresenter(ex)
	ex.SetRecoverFunc(func(ctx context.Context, err any) error {
		recovers.Add(1)
		return gqlerror.Errorf("%s", RecoverMsg(err))
	})
	ctx = graphql.StartOperationTrace(ctx)
	rc, errs := ex.CreateOperationContext(ctx, &graphql.RawParams{Query: query, OperationName: opName, Variables: vars})
	if errs != nil {
		resp := ex.DispatchError(graphql.WithOperationContext(ctx, rc), errs)
		return []*Response{{Errors: resp.Errors, Rejected: true}}, true
	}
	rh, ctx2 := ex.DispatchOperation(ctx, rc)
	for i := 0; i < max; i++ {
		resp := rh(ctx2)
		if resp == nil {
			break
		}
		// a subscription's response function reuses one buffer for every event: keep a copy
		out = append(out, &Response{Data: append(json.RawMessage(nil), resp.Data...), Errors: resp.Errors, Recovers: int(recovers.Load()), HasNext: resp.HasNext, Label: resp.Label, Path: resp.Path})
	}
	return out, false
}
