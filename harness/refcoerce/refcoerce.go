// Package refcoerce is a reference implementation of GraphQL input coercion (spec §3 input types,
// §6.1.2 CoerceVariableValues, §6.4.1 CoerceArgumentValues) over a small IR of "what the client
// sent". Every result is classified: Valid (the spec requires acceptance with exactly this value),
// Invalid (must be rejected), or Lenient (gqlgen is documented/observed to accept more than the spec
// — only "equal or error" is asserted).
package refcoerce

import (
	"encoding/json"
	"fmt"
	"math"
	"sort"
	"strconv"
	"strings"

	"github.com/vektah/gqlparser/v2/ast"
)

type Kind string

const (
	KOmit   Kind = "omit" // the position is not provided at all
	KNull   Kind = "null"
	KInt    Kind = "int"
	KFloat  Kind = "float"
	KString Kind = "string"
	KBool   Kind = "bool"
	KEnum   Kind = "enum" // bare enum token (literal only); variables send strings
	KList   Kind = "list"
	KObject Kind = "object"
	KVar    Kind = "var" // the position holds a variable reference (literal context only)
)

// Val is the IR of an input value.
type Val struct {
	Kind   Kind     `json:"k"`
	I      string   `json:"i,omitempty"` // integer text (arbitrary size)
	F      float64  `json:"f,omitempty"`
	S      string   `json:"s,omitempty"` // string / enum token / variable name
	B      bool     `json:"b,omitempty"`
	Items  []*Val   `json:"items,omitempty"`
	Keys   []string `json:"keys,omitempty"`
	Fields []*Val   `json:"fields,omitempty"`
}

// VarDef is a variable of the operation.
type VarDef struct {
	Name     string `json:"name"`
	Type     string `json:"type"`              // GraphQL type text, e.g. "[Int!]"
	Default  *Val   `json:"default,omitempty"` // default value literal
	Provided bool   `json:"provided"`
	Value    *Val   `json:"value,omitempty"` // JSON value sent (IR)
}

// Markers in expected trees.
type Omitted struct{}

// Any: the position was accepted leniently and its value is not asserted.
type Any struct{}

type Class int

const (
	Valid Class = iota
	Lenient
	Invalid
)

func (c Class) String() string { return [...]string{"valid", "lenient", "invalid"}[c] }

func maxc(a, b Class) Class {
	if a > b {
		return a
	}
	return b
}

// ---------------------------------------------------------------------------------------------
// rendering

// Literal renders a Val as GraphQL literal text.
func Literal(v *Val) string {
	switch v.Kind {
	case KNull:
		return "null"
	case KInt:
		return v.I
	case KFloat:
		s := strconv.FormatFloat(v.F, 'g', -1, 64)
		if !strings.ContainsAny(s, ".eE") {
			s += ".0"
		}
		return s
	case KString:
		return strconv.Quote(v.S)
	case KBool:
		return strconv.FormatBool(v.B)
	case KEnum:
		return v.S
	case KVar:
		return "$" + v.S
	case KList:
		var xs []string
		for _, it := range v.Items {
			xs = append(xs, Literal(it))
		}
		return "[" + strings.Join(xs, ", ") + "]"
	case KObject:
		var xs []string
		for i, k := range v.Keys {
			if v.Fields[i].Kind == KOmit {
				continue
			}
			xs = append(xs, k+": "+Literal(v.Fields[i]))
		}
		return "{" + strings.Join(xs, ", ") + "}"
	}
	return ""
}

// JSON renders a Val as the JSON text a client would put into "variables".
func JSON(v *Val) string {
	switch v.Kind {
	case KNull:
		return "null"
	case KInt:
		return v.I
	case KFloat:
		s := strconv.FormatFloat(v.F, 'g', -1, 64)
		if !strings.ContainsAny(s, ".eE") {
			s += ".0"
		}
		return s
	case KString, KEnum:
		b, _ := json.Marshal(v.S)
		return string(b)
	case KBool:
		return strconv.FormatBool(v.B)
	case KList:
		var xs []string
		for _, it := range v.Items {
			xs = append(xs, JSON(it))
		}
		return "[" + strings.Join(xs, ",") + "]"
	case KObject:
		var xs []string
		for i, k := range v.Keys {
			if v.Fields[i].Kind == KOmit {
				continue
			}
			kb, _ := json.Marshal(k)
			xs = append(xs, string(kb)+":"+JSON(v.Fields[i]))
		}
		return "{" + strings.Join(xs, ",") + "}"
	}
	return "null"
}

// ---------------------------------------------------------------------------------------------
// coercion

type Coercer struct {
	Schema *ast.Schema
	Vars   map[string]*VarDef
	// labels
	UsedDefault  bool
	OmitVsNull   bool
	ListCoerced  bool
	EnumOrCustom bool
	VarInObject  bool // {f: $v} with $v not provided (gqlparser delivers null; spec says omitted)
	// UnprovidedVarInObjectIsNull switches to gqlparser's reading of that case
	UnprovidedVarInObjectIsNull bool
}

// Result of coercing one position.
type Result struct {
	Value any // int64 / *big via string? -> numbers are kept as Num
	Class Class
	Why   string
}

// Num is an expected number (exact decimal text, and float value for Float positions).
type Num struct {
	Text    string
	IsFloat bool
	F       float64
}

func invalid(why string, a ...any) Result {
	return Result{Class: Invalid, Why: fmt.Sprintf(why, a...)}
}

// astToVal converts a default value from the schema AST to IR.
func AstToVal(v *ast.Value) *Val {
	if v == nil {
		return nil
	}
	switch v.Kind {
	case ast.NullValue:
		return &Val{Kind: KNull}
	case ast.IntValue:
		return &Val{Kind: KInt, I: v.Raw}
	case ast.FloatValue:
		f, _ := strconv.ParseFloat(v.Raw, 64)
		return &Val{Kind: KFloat, F: f}
	case ast.StringValue, ast.BlockValue:
		return &Val{Kind: KString, S: v.Raw}
	case ast.BooleanValue:
		return &Val{Kind: KBool, B: v.Raw == "true"}
	case ast.EnumValue:
		return &Val{Kind: KEnum, S: v.Raw}
	case ast.ListValue:
		out := &Val{Kind: KList}
		for _, c := range v.Children {
			out.Items = append(out.Items, AstToVal(c.Value))
		}
		return out
	case ast.ObjectValue:
		out := &Val{Kind: KObject}
		for _, c := range v.Children {
			out.Keys = append(out.Keys, c.Name)
			out.Fields = append(out.Fields, AstToVal(c.Value))
		}
		return out
	}
	return &Val{Kind: KNull}
}

// Position coerces what was sent for an argument or input field (v may be nil / KOmit) of type t
// with schema default def. inVar says whether v came from the variables JSON.
func (c *Coercer) Position(t *ast.Type, def *ast.Value, v *Val, inVar bool) Result {
	if v != nil && v.Kind == KVar {
		vd := c.Vars[v.S]
		if vd == nil {
			return invalid("undefined variable $%s", v.S)
		}
		switch {
		case vd.Provided:
			vt := parseType(vd.Type)
			r := c.Value(vt, vd.Value, true)
			if r.Class != Invalid && r.Value == nil && t.NonNull {
				return invalid("null variable for non-null position")
			}
			return r
		case vd.Default != nil:
			c.UsedDefault = true
			return c.Value(parseType(vd.Type), vd.Default, false)
		default:
			v = nil // not provided: as if the position was omitted
		}
	}
	if v == nil || v.Kind == KOmit {
		if def != nil {
			c.UsedDefault = true
			return c.Value(t, AstToVal(def), false)
		}
		if t.NonNull {
			return invalid("required position not provided")
		}
		c.OmitVsNull = true
		return Result{Value: Omitted{}}
	}
	if v.Kind == KNull {
		c.OmitVsNull = true
	}
	return c.Value(t, v, inVar)
}

func parseType(s string) *ast.Type {
	s = strings.TrimSpace(s)
	nn := strings.HasSuffix(s, "!")
	if nn {
		s = s[:len(s)-1]
	}
	if strings.HasPrefix(s, "[") {
		return &ast.Type{Elem: parseType(s[1 : len(s)-1]), NonNull: nn}
	}
	return &ast.Type{NamedType: s, NonNull: nn}
}

// Value coerces a provided value (never KOmit / KVar at this level except inside lists/objects).
func (c *Coercer) Value(t *ast.Type, v *Val, inVar bool) Result {
	if v.Kind == KNull {
		if t.NonNull {
			return invalid("null for non-null type %s", t.String())
		}
		return Result{Value: nil}
	}
	if v.Kind == KVar {
		// a variable inside a list or object literal
		vd := c.Vars[v.S]
		if vd == nil {
			return invalid("undefined variable")
		}
		if vd.Provided {
			return c.Value(parseType(vd.Type), vd.Value, true)
		}
		if vd.Default != nil {
			c.UsedDefault = true
			return c.Value(parseType(vd.Type), vd.Default, false)
		}
		return Result{Value: Omitted{}}
	}
	if t.Elem != nil {
		if v.Kind != KList {
			// single value -> list of one
			c.ListCoerced = true
			r := c.Value(t.Elem, v, inVar)
			if r.Class == Invalid {
				return r
			}
			return Result{Value: []any{r.Value}, Class: r.Class}
		}
		out := make([]any, 0, len(v.Items))
		cl := Valid
		for i, it := range v.Items {
			r := c.Value(t.Elem, it, inVar)
			if r.Class == Invalid {
				r.Why = fmt.Sprintf("[%d]: %s", i, r.Why)
				return r
			}
			if _, om := r.Value.(Omitted); om {
				// unprovided variable as list element: null
				if t.Elem.NonNull {
					return invalid("[%d]: unprovided variable in non-null element", i)
				}
				r.Value = nil
			}
			cl = maxc(cl, r.Class)
			out = append(out, r.Value)
		}
		return Result{Value: out, Class: cl}
	}
	def := c.Schema.Types[t.NamedType]
	if def == nil {
		return invalid("unknown type %s", t.NamedType)
	}
	switch def.Kind {
	case ast.InputObject:
		if v.Kind != KObject {
			return invalid("%s for input object %s", v.Kind, def.Name)
		}
		out := map[string]any{}
		cl := Valid
		for _, k := range v.Keys {
			if def.Fields.ForName(k) == nil {
				return invalid("unknown field %s.%s", def.Name, k)
			}
		}
		seen := map[string]int{}
		for _, k := range v.Keys {
			seen[k]++
			if seen[k] > 1 {
				return invalid("duplicate field %s", k)
			}
		}
		for _, fd := range def.Fields {
			var fv *Val
			for i, k := range v.Keys {
				if k == fd.Name {
					fv = v.Fields[i]
				}
			}
			if fv != nil && fv.Kind == KVar && !inVar {
				if vd := c.Vars[fv.S]; vd != nil && !vd.Provided && vd.Default == nil {
					c.VarInObject = true
					if c.UnprovidedVarInObjectIsNull {
						fv = &Val{Kind: KNull}
					}
				}
			}
			r := c.Position(fd.Type, fd.DefaultValue, fv, inVar)
			if r.Class == Invalid {
				r.Why = fd.Name + ": " + r.Why
				return r
			}
			cl = maxc(cl, r.Class)
			out[fd.Name] = r.Value
		}
		return Result{Value: out, Class: cl}
	case ast.Enum:
		c.EnumOrCustom = true
		ok := false
		switch {
		case v.Kind == KEnum && !inVar:
			ok = true
		case v.Kind == KString && inVar:
			ok = true
		}
		if !ok {
			return invalid("%s for enum %s", v.Kind, def.Name)
		}
		for _, ev := range def.EnumValues {
			if ev.Name == v.S {
				return Result{Value: v.S}
			}
		}
		return invalid("%q is not a value of %s", v.S, def.Name)
	case ast.Scalar:
		return c.scalar(t.NamedType, v, inVar)
	}
	return invalid("type kind %s is not an input type", def.Kind)
}

func intInRange(text string, lo, hi int64) (inRange bool, parses bool) {
	n, err := strconv.ParseInt(text, 10, 64)
	if err != nil {
		return false, false
	}
	return n >= lo && n <= hi, true
}

func (c *Coercer) scalar(name string, v *Val, inVar bool) Result {
	switch name {
	case "Int":
		switch v.Kind {
		case KInt:
			in32, parses := intInRange(v.I, math.MinInt32, math.MaxInt32)
			if in32 {
				return Result{Value: Num{Text: canonInt(v.I)}}
			}
			if parses {
				// beyond 32 bits: the spec requires rejection, gqlgen binds Int to Go int
				return Result{Value: Num{Text: canonInt(v.I)}, Class: Lenient}
			}
			// beyond 64 bits: cannot be represented at all
			return invalid("Int literal %s out of range", v.I)
		case KFloat:
			if inVar && v.F == math.Trunc(v.F) && math.Abs(v.F) < 1e15 {
				// 1e3 / 5.0 as a variable: the spec allows integral floats, gqlgen may reject
				return Result{Value: Num{Text: strconv.FormatInt(int64(v.F), 10)}, Class: Lenient}
			}
			return invalid("float for Int")
		case KString:
			if inVar {
				if _, err := strconv.ParseInt(v.S, 10, 64); err == nil {
					return Result{Value: Num{Text: canonInt(v.S)}, Class: Lenient}
				}
			}
			return invalid("string for Int")
		}
		return invalid("%s for Int", v.Kind)
	case "Float":
		switch v.Kind {
		case KInt:
			f, err := strconv.ParseFloat(v.I, 64)
			if err != nil {
				return invalid("out of range")
			}
			if _, perr := strconv.ParseInt(v.I, 10, 64); perr != nil {
				// an integer literal beyond int64 is a valid Float by the spec; gqlparser's
				// validation rejects it ("Float cannot represent non numeric value")
				return Result{Value: Num{Text: v.I, IsFloat: true, F: f}, Class: Lenient}
			}
			return Result{Value: Num{Text: v.I, IsFloat: true, F: f}}
		case KFloat:
			return Result{Value: Num{IsFloat: true, F: v.F}}
		case KString:
			if inVar {
				if f, err := strconv.ParseFloat(v.S, 64); err == nil && !math.IsInf(f, 0) && !math.IsNaN(f) {
					return Result{Value: Num{IsFloat: true, F: f}, Class: Lenient}
				}
			}
			return invalid("string for Float")
		}
		return invalid("%s for Float", v.Kind)
	case "String":
		switch v.Kind {
		case KString:
			return Result{Value: v.S}
		case KInt:
			if inVar {
				// json.Number has string kind for gqlparser: accepted as its text
				return Result{Value: v.I, Class: Lenient}
			}
		case KFloat:
			if inVar {
				return Result{Value: Any{}, Class: Lenient, Why: "any"}
			}
		}
		return invalid("%s for String", v.Kind)
	case "Boolean":
		if v.Kind == KBool {
			return Result{Value: v.B}
		}
		return invalid("%s for Boolean", v.Kind)
	case "ID":
		switch v.Kind {
		case KString:
			return Result{Value: v.S}
		case KInt:
			if _, parses := intInRange(v.I, math.MinInt64, math.MaxInt64); parses {
				return Result{Value: canonInt(v.I)}
			}
			return Result{Value: Any{}, Class: Lenient, Why: "any"}
		case KFloat:
			if inVar {
				return Result{Value: Any{}, Class: Lenient, Why: "any"}
			}
		}
		return invalid("%s for ID", v.Kind)
	case "Int32", "Int64", "Uint", "Uint32":
		c.EnumOrCustom = true
		lo, hi := int64(math.MinInt32), int64(math.MaxInt32)
		unsigned := false
		switch name {
		case "Int64":
			lo, hi = math.MinInt64, math.MaxInt64
		case "Uint":
			lo, hi, unsigned = 0, math.MaxInt64, true
		case "Uint32":
			lo, hi, unsigned = 0, math.MaxUint32, true
		}
		switch v.Kind {
		case KInt:
			if unsigned && name == "Uint" {
				if u, err := strconv.ParseUint(v.I, 10, 64); err == nil {
					_ = u
					if !inVar && u > math.MaxInt64 {
						// a literal beyond int64 cannot be carried by gqlparser's int64
						return Result{Value: Num{Text: canonInt(v.I)}, Class: Lenient}
					}
					return Result{Value: Num{Text: canonInt(v.I)}}
				}
				return invalid("%s out of range for %s", v.I, name)
			}
			in, parses := intInRange(v.I, lo, hi)
			if in {
				return Result{Value: Num{Text: canonInt(v.I)}}
			}
			_ = parses
			return invalid("%s out of range for %s", v.I, name)
		case KString:
			if n, err := strconv.ParseInt(v.S, 10, 64); err == nil && n >= lo && n <= hi {
				return Result{Value: Num{Text: canonInt(v.S)}, Class: Lenient}
			}
			return invalid("string %q for %s", v.S, name)
		case KFloat:
			return invalid("float for %s", name)
		}
		return invalid("%s for %s", v.Kind, name)
	}
	return Result{Value: Any{}, Class: Lenient, Why: "any"}
}

func canonInt(s string) string {
	neg := strings.HasPrefix(s, "-")
	s = strings.TrimLeft(strings.TrimPrefix(strings.TrimPrefix(s, "-"), "+"), "0")
	if s == "" {
		return "0"
	}
	if neg {
		return "-" + s
	}
	return s
}

// ---------------------------------------------------------------------------------------------
// matching an expected tree against what the resolver observed (univ.ToTree)

// SetNull is what univ.ToTree reports for an Omittable that is set to a nil value.
type SetNull struct{}

// ObservedOmitted is what univ.ToTree reports for an unset Omittable.
type ObservedOmitted struct{}

// Match compares expected with observed. present=false means "the key was absent from a map".
func Match(exp, obs any, present bool, path string) error {
	switch e := exp.(type) {
	case Any:
		return nil
	case Omitted:
		if !present {
			return nil
		}
		switch obs.(type) {
		case nil, ObservedOmitted:
			return nil
		}
		return fmt.Errorf("%s: not provided, but the resolver received %#v", path, obs)
	case nil:
		if !present {
			return fmt.Errorf("%s: explicit null was sent, but the resolver sees the position as absent", path)
		}
		switch obs.(type) {
		case nil, SetNull:
			return nil
		case ObservedOmitted:
			return fmt.Errorf("%s: explicit null was sent, but the resolver sees the position as omitted", path)
		}
		return fmt.Errorf("%s: explicit null was sent, but the resolver received %#v", path, obs)
	case Num:
		if !present {
			return fmt.Errorf("%s: value %v expected, position absent", path, e)
		}
		return matchNum(e, obs, path)
	case string:
		if s, ok := obs.(string); ok && present && s == e {
			return nil
		}
		return fmt.Errorf("%s: expected %q, resolver received %#v", path, e, obs)
	case bool:
		if b, ok := obs.(bool); ok && present && b == e {
			return nil
		}
		return fmt.Errorf("%s: expected %v, resolver received %#v", path, e, obs)
	case []any:
		o, ok := obs.([]any)
		if !ok || !present || len(o) != len(e) {
			return fmt.Errorf("%s: expected list of %d, resolver received %#v", path, len(e), obs)
		}
		for i := range e {
			if err := Match(e[i], o[i], true, fmt.Sprintf("%s[%d]", path, i)); err != nil {
				return err
			}
		}
		return nil
	case map[string]any:
		o, ok := obs.(map[string]any)
		if !ok || !present {
			return fmt.Errorf("%s: expected input object, resolver received %#v", path, obs)
		}
		keys := make([]string, 0, len(e))
		for k := range e {
			keys = append(keys, k)
		}
		sort.Strings(keys)
		for _, k := range keys {
			ov, has := o[k]
			if err := Match(e[k], ov, has, path+"."+k); err != nil {
				return err
			}
		}
		for k := range o {
			if _, ok := e[k]; !ok {
				return fmt.Errorf("%s: resolver received unexpected member %q", path, k)
			}
		}
		return nil
	}
	return fmt.Errorf("%s: harness cannot match %T", path, exp)
}

func matchNum(e Num, obs any, path string) error {
	var got string
	switch o := obs.(type) {
	case int64:
		got = strconv.FormatInt(o, 10)
	case uint64:
		got = strconv.FormatUint(o, 10)
	case float64:
		want := e.F
		if !e.IsFloat || e.Text != "" {
			f, err := strconv.ParseFloat(e.Text, 64)
			if err == nil {
				want = f
			}
		}
		if o == want {
			return nil
		}
		return fmt.Errorf("%s: expected %v, resolver received %v", path, want, o)
	case string: // ID positions carrying numbers, String positions fed a number
		got = o
	default:
		return fmt.Errorf("%s: expected number %v, resolver received %#v", path, e, obs)
	}
	want := e.Text
	if e.IsFloat && e.Text == "" {
		want = strconv.FormatFloat(e.F, 'f', -1, 64)
	}
	if got == want {
		return nil
	}
	return fmt.Errorf("%s: expected %s, resolver received %s", path, want, got)
}
