// Package refexec is a reference GraphQL executor written from the specification (June 2018 /
// October 2021 §6) over gqlparser's AST. It never calls gqlgen's runtime. Given a plan it computes
// the response (data with ordered keys, errors with paths) and the multiset of resolver and
// directive invocations a correct server performs.
package refexec

import (
	"fmt"
	"sort"
	"strconv"

	"github.com/vektah/gqlparser/v2/ast"

	"vh/plan"
	"vh/scalars"
	"vh/strictjson"
	"vh/univ"
)

// ErrEntry is one expected error.
type ErrEntry struct {
	Path  string `json:"path"`
	Class string `json:"class"` // "resolver", "panic", "directive", "null", "coerce"
	Msg   string `json:"msg,omitempty"`
	// LeafElem: a null error for an element of a list of scalars / enums (Path ends in its index)
	LeafElem bool `json:"leaf_elem,omitempty"`
}

type Result struct {
	Data      *strictjson.Value
	Errors    []ErrEntry
	Resolvers []string // keys of resolver invocations (multiset)
	Dirs      []string // keys of directive invocations
	// DirsMulti: directive keys on fields that run more than one schema directive
	DirsMulti map[string]bool
	// classification
	NullPropagated   int  // a null travelled through at least one non-null link
	PropagatedToRoot bool // data is null
	StoppedInList    int
	ThroughAbstract  int
	MergedKeys       int
	SkipIncludeVar   int
	DirBlocked       int
	FragmentsSeen    int
	AliasSeen        int
	// RootOrder: root response keys in execution order (mutations)
	RootOrder []string
	// ResolverOrder: resolver keys in document (depth-first) order
	ResolverOrder []string
	// Pos describes the type of each resolver position reached (for drawing overrides)
	Pos map[string]PosInfo
	// ListLen: for list-typed resolver positions, the length the plan gives
	ListLen map[string]int
	// Elems: value positions that are elements of lists of composite type (key, response path)
	Elems []ElemPos
	// Values: positions below resolver results whose outcome a plan can override with nil
	Values []ValuePos
	// Fields: response path of every field executed (resolver or not; __typename excluded), sorted
	Fields []string
	// NestedRootKeys: response keys of the fields of a root object that is reached again below the
	// root (a field of type Query): gqlgen runs them as root fields once more (root-field
	// interceptors); the field that leads there runs no field interceptor and is not in Fields
	NestedRootKeys []string
	// NullingKeys: object response path -> response keys of its non-null fields that completed to
	// null (each of them nulls the object)
	NullingKeys map[string][]string
}

// ValuePos is a value position that is not a resolver result: a field read from the parent object, or
// a list element (of any type).
type ValuePos struct {
	Key     string
	NonNull bool
	Leaf    bool // scalar or enum
}

type ElemPos struct {
	Key      string
	Path     string
	Abstract bool
	NonNull  bool
	ListLen  int
}

type PosInfo struct {
	NonNull  bool
	List     bool
	Abstract bool
	Object   bool
}

type Config struct {
	Schema     *ast.Schema
	Doc        *ast.QueryDocument
	Op         *ast.OperationDefinition
	Vars       map[string]any // coerced variable values
	Plan       *plan.Plan
	IsResolver func(obj, field string) bool
	// DirTag extracts the tag of a harness directive application; custom (non built-in) directives
	// on FIELD_DEFINITION are executed around the resolver.
	SkipDirectives bool
	// StopAt: response paths of objects at which null propagation stops (the @defer exception: a
	// failure inside a deferred group nulls the object the group belongs to and goes no further)
	StopAt map[string]bool
}

type executor struct {
	Config
	res *Result
	// rootValued: value keys of non-resolver fields whose type is a root operation type
	rootValued map[string]bool
}

func (x *executor) isRootType(name string) bool {
	for _, d := range []*ast.Definition{x.Schema.Query, x.Schema.Mutation, x.Schema.Subscription} {
		if d != nil && d.Name == name {
			return true
		}
	}
	return false
}

func null() *strictjson.Value { return &strictjson.Value{Kind: strictjson.Null} }

// Execute runs a query or mutation operation.
func Execute(c Config) *Result {
	x := &executor{Config: c, res: &Result{}}
	var root *ast.Definition
	switch c.Op.Operation {
	case ast.Query:
		root = c.Schema.Query
	case ast.Mutation:
		root = c.Schema.Mutation
	case ast.Subscription:
		root = c.Schema.Subscription
	}
	// executable directives of the user on the operation itself (locations QUERY / MUTATION) wrap the
	// whole execution: one that fails leaves data null with one error that has no path
	if !x.SkipDirectives {
		for _, d := range c.Op.Directives {
			def := c.Schema.Directives[d.Name]
			if builtinDirective(d.Name) || def == nil {
				continue
			}
			key := "@" + goDirName(d.Name) + ":" + x.dirTag(d)
			x.res.Dirs = append(x.res.Dirs, key)
			if o := x.Plan.Dir("D:" + key); o.Kind == plan.Error {
				x.addErr("", "directive", o.Msg)
				x.res.DirBlocked++
				x.res.Data = null()
				return x.res
			}
		}
	}
	v, isNull := x.selectionSet(root, "", []ast.SelectionSet{c.Op.SelectionSet}, "", true)
	if isNull {
		x.res.Data = null()
		x.res.PropagatedToRoot = true
	} else {
		x.res.Data = v
	}
	sort.Strings(x.res.Resolvers)
	sort.Strings(x.res.Dirs)
	sort.Strings(x.res.Fields)
	return x.res
}

// ExecuteEvent executes the selection of a subscription's root field on one event value located at
// key (univ: "<path>@<n>").
func ExecuteEvent(c Config, eventKey string) *Result {
	x := &executor{Config: c, res: &Result{}}
	root := c.Schema.Subscription
	groups, order := x.collect(root, []ast.SelectionSet{c.Op.SelectionSet})
	obj := &strictjson.Value{Kind: strictjson.Object}
	for _, rk := range order {
		f := groups[rk][0]
		fd := root.Fields.ForName(f.Name)
		var sels []ast.SelectionSet
		for _, g := range groups[rk] {
			sels = append(sels, g.SelectionSet)
		}
		v, _ := x.complete(fd.Type, eventKey, rk, sels)
		obj.Keys = append(obj.Keys, rk)
		obj.Vals = append(obj.Vals, v)
	}
	x.res.Data = obj
	return x.res
}

func (x *executor) addErr(path, class, msg string) {
	x.res.Errors = append(x.res.Errors, ErrEntry{Path: path, Class: class, Msg: msg})
}

func join(path, key string) string {
	if path == "" {
		return key
	}
	return path + "." + key
}

// --- CollectFields (spec §6.3.2) ---------------------------------------------------------------

func (x *executor) directiveBool(d *ast.Directive) (val bool, byVar bool) {
	a := d.Arguments.ForName("if")
	if a == nil {
		return false, false
	}
	v, err := a.Value.Value(x.Vars)
	if err != nil {
		return false, a.Value.Kind == ast.Variable
	}
	b, _ := v.(bool)
	return b, a.Value.Kind == ast.Variable
}

func (x *executor) included(dirs ast.DirectiveList) bool {
	if d := dirs.ForName("skip"); d != nil {
		v, byVar := x.directiveBool(d)
		if byVar {
			x.res.SkipIncludeVar++
		}
		if v {
			return false
		}
	}
	if d := dirs.ForName("include"); d != nil {
		v, byVar := x.directiveBool(d)
		if byVar {
			x.res.SkipIncludeVar++
		}
		if !v {
			return false
		}
	}
	return true
}

func (x *executor) applies(typeCond string, obj *ast.Definition) bool {
	if typeCond == "" || typeCond == obj.Name {
		return true
	}
	def := x.Schema.Types[typeCond]
	if def == nil {
		return false
	}
	for _, p := range x.Schema.GetPossibleTypes(def) {
		if p.Name == obj.Name {
			return true
		}
	}
	return false
}

func (x *executor) collect(obj *ast.Definition, sets []ast.SelectionSet) (map[string][]*ast.Field, []string) {
	groups := map[string][]*ast.Field{}
	var order []string
	visited := map[string]bool{}
	var walk func(ss ast.SelectionSet)
	walk = func(ss ast.SelectionSet) {
		for _, sel := range ss {
			switch s := sel.(type) {
			case *ast.Field:
				if !x.included(s.Directives) {
					continue
				}
				rk := s.Alias
				if rk == "" {
					rk = s.Name
				}
				if s.Alias != "" && s.Alias != s.Name {
					x.res.AliasSeen++
				}
				if _, ok := groups[rk]; !ok {
					order = append(order, rk)
				} else {
					x.res.MergedKeys++
				}
				groups[rk] = append(groups[rk], s)
			case *ast.FragmentSpread:
				if !x.included(s.Directives) {
					continue
				}
				if visited[s.Name] {
					continue
				}
				visited[s.Name] = true
				frag := x.Doc.Fragments.ForName(s.Name)
				if frag == nil || !x.applies(frag.TypeCondition, obj) {
					continue
				}
				x.res.FragmentsSeen++
				walk(frag.SelectionSet)
			case *ast.InlineFragment:
				if !x.included(s.Directives) {
					continue
				}
				if !x.applies(s.TypeCondition, obj) {
					continue
				}
				x.res.FragmentsSeen++
				walk(s.SelectionSet)
			}
		}
	}
	for _, ss := range sets {
		walk(ss)
	}
	return groups, order
}

// --- execution -----------------------------------------------------------------------------------

// selectionSet executes the merged selection sets on an object located at value key objKey and
// response path `path`. It returns (object, false) or (nil, true) when a non-null child was null.
func (x *executor) selectionSet(obj *ast.Definition, objKey string, sets []ast.SelectionSet, path string, isRoot bool) (*strictjson.Value, bool) {
	groups, order := x.collect(obj, sets)
	out := &strictjson.Value{Kind: strictjson.Object}
	objNull := false
	for _, rk := range order {
		fields := groups[rk]
		f := fields[0]
		fpath := join(path, rk)
		if isRoot {
			x.res.RootOrder = append(x.res.RootOrder, rk)
		}
		if f.Name == "__typename" {
			out.Keys = append(out.Keys, rk)
			out.Vals = append(out.Vals, &strictjson.Value{Kind: strictjson.String, Str: obj.Name})
			continue
		}
		fd := obj.Fields.ForName(f.Name)
		if fd == nil {
			panic(fmt.Sprintf("refexec: no field %s on %s", f.Name, obj.Name))
		}
		if !x.IsResolver(obj.Name, fd.Name) && fd.Type.Elem == nil && x.isRootType(fd.Type.Name()) {
			// generated code continues with the root object at once: no field interceptor runs
		} else {
			x.res.Fields = append(x.res.Fields, fpath)
		}
		if !isRoot && x.isRootType(obj.Name) {
			x.res.NestedRootKeys = append(x.res.NestedRootKeys, rk)
		}
		v, isNull := x.field(obj, objKey, fd, fields, fpath)
		if isNull && fd.Type.NonNull {
			objNull = true
			if x.res.NullingKeys == nil {
				x.res.NullingKeys = map[string][]string{}
			}
			x.res.NullingKeys[path] = append(x.res.NullingKeys[path], rk)
		}
		out.Keys = append(out.Keys, rk)
		out.Vals = append(out.Vals, v)
	}
	if objNull {
		x.res.NullPropagated++
		return nil, true
	}
	return out, false
}

// stopped reports whether the null of the object at path must not propagate (see Config.StopAt).
func (x *executor) stopped(path string) bool { return x.StopAt != nil && x.StopAt[path] }

func builtinDirective(name string) bool {
	switch name {
	case "deprecated", "skip", "include", "specifiedBy", "defer", "goField", "goModel", "goTag", "goEnum", "goExtraField", "oneOf":
		return true
	}
	return false
}

// dirTag is what the universal directive implementation (univ.FillDirectives) puts into the key of an
// invocation: the value of the last String-typed argument that is not null, in declaration order,
// taken from the application or else from the argument's default.
func (x *executor) dirTag(d *ast.Directive) string {
	if d.Definition == nil && x.Schema.Directives[d.Name] != nil {
		dd := *d
		dd.Definition = x.Schema.Directives[d.Name]
		d = &dd
	}
	if d.Definition == nil {
		if a := d.Arguments.ForName("tag"); a != nil && a.Value != nil {
			return a.Value.Raw
		}
		return ""
	}
	tag := ""
	for _, ad := range d.Definition.Arguments {
		if ad.Type.Elem != nil || ad.Type.NamedType != "String" {
			continue
		}
		v := ad.DefaultValue
		if a := d.Arguments.ForName(ad.Name); a != nil {
			v = a.Value
		}
		if v != nil && v.Kind != ast.NullValue {
			tag = v.Raw
		}
	}
	return tag
}

// field resolves and completes one field. isNull reports a null result (for propagation).
func (x *executor) field(obj *ast.Definition, objKey string, fd *ast.FieldDefinition, fields []*ast.Field, fpath string) (*strictjson.Value, bool) {
	// schema directives on the field definition wrap the resolver (docs: "next" is the next directive
	// in the chain or the resolver). Plans put at most one non-passing directive on an invocation.
	if !x.SkipDirectives && len(fields) > 0 {
		// executable directives of the user (location FIELD) applied to this occurrence wrap
		// everything else about the field: schema directives and the resolver run inside them
		for _, d := range fields[0].Directives {
			def := x.Schema.Directives[d.Name]
			if builtinDirective(d.Name) || def == nil {
				continue
			}
			isField := false
			for _, l := range def.Locations {
				if l == ast.LocationField {
					isField = true
				}
			}
			if !isField {
				continue
			}
			key := fpath + "@" + goDirName(d.Name) + ":" + x.dirTag(d)
			x.res.Dirs = append(x.res.Dirs, key)
			if len(x.effectiveDirs(fd)) > 0 {
				if x.res.DirsMulti == nil {
					x.res.DirsMulti = map[string]bool{}
				}
				x.res.DirsMulti[key] = true
			}
			switch o := x.Plan.Dir("D:" + key); o.Kind {
			case plan.Error:
				x.addErr(fpath, "directive", o.Msg)
				x.res.DirBlocked++
				return null(), true
			case plan.Panic:
				x.addErr(fpath, "panic", o.Msg)
				x.res.DirBlocked++
				return null(), true
			case plan.DirNull:
				x.res.DirBlocked++
				if fd.Type.NonNull {
					x.addErr(fpath, "null", "")
				}
				return null(), true
			}
		}
	}
	if !x.SkipDirectives {
		eff := x.effectiveDirs(fd)
		for _, d := range eff {
			key := fpath + "@" + goDirName(d.Name) + ":" + x.dirTag(d)
			x.res.Dirs = append(x.res.Dirs, key)
			if len(eff) > 1 {
				if x.res.DirsMulti == nil {
					x.res.DirsMulti = map[string]bool{}
				}
				x.res.DirsMulti[key] = true
			}
		}
		for _, d := range eff {
			key := fpath + "@" + goDirName(d.Name) + ":" + x.dirTag(d)
			o := x.Plan.Dir("D:" + key)
			switch o.Kind {
			case plan.Error:
				x.addErr(fpath, "directive", o.Msg)
				x.res.DirBlocked++
				return null(), true
			case plan.Panic:
				x.addErr(fpath, "panic", o.Msg)
				x.res.DirBlocked++
				return null(), true
			case plan.DirNull:
				x.res.DirBlocked++
				if fd.Type.NonNull {
					x.addErr(fpath, "null", "")
				}
				return null(), true
			}
		}
	}
	valueKey := objKey + "#" + scalars.Canonical(obj.Name, fd.Name)
	if x.IsResolver(obj.Name, fd.Name) {
		valueKey = fpath
		x.res.Resolvers = append(x.res.Resolvers, fpath)
		x.res.ResolverOrder = append(x.res.ResolverOrder, fpath)
		if x.res.Pos == nil {
			x.res.Pos = map[string]PosInfo{}
			x.res.ListLen = map[string]int{}
		}
		td := x.Schema.Types[fd.Type.Name()]
		x.res.ListLen[fpath] = x.Plan.ListLen(fpath)
		x.res.Pos[fpath] = PosInfo{NonNull: fd.Type.NonNull, List: fd.Type.Elem != nil,
			Abstract: td != nil && td.IsAbstractType(), Object: td != nil && td.Kind == ast.Object}
		o := x.Plan.Get(fpath, !fd.Type.NonNull)
		switch o.Kind {
		case plan.Error:
			x.addErr(fpath, "resolver", o.Msg)
			return null(), true
		case plan.Panic:
			x.addErr(fpath, "panic", o.Msg)
			return null(), true
		}
	}
	var sels []ast.SelectionSet
	for _, f := range fields {
		sels = append(sels, f.SelectionSet)
	}
	if valueKey != fpath && fd.Type.Elem == nil && x.isRootType(fd.Type.Name()) {
		// a field of a root operation type that is read from its parent (the Relay-style
		// 'query: Query'): gqlgen does not look at the parent's Go field at all, the generated code
		// continues with the root object (codegen/field.gotpl, TypeReference.IsRoot)
		if x.rootValued == nil {
			x.rootValued = map[string]bool{}
		}
		x.rootValued[valueKey] = true
	} else if valueKey != fpath && fd.Type.Elem == nil {
		if td := x.Schema.Types[fd.Type.Name()]; td != nil {
			x.res.Values = append(x.res.Values, ValuePos{Key: valueKey, NonNull: fd.Type.NonNull, Leaf: td.IsLeafType()})
		}
	}
	return x.complete(fd.Type, valueKey, fpath, sels)
}

// effectiveDirs: the schema directives gqlgen runs around a field (codegen/field.go bindField and
// ImplDirectives): those applied to the definition of the field's named return type, then those
// applied to the field definition, keeping the ones whose definition names the location
// FIELD_DEFINITION, OBJECT or INPUT_OBJECT. Which of several directives on one field is outermost is
// not documented; plans only block on fields that have a single one (Result.DirsMulti).
func (x *executor) effectiveDirs(fd *ast.FieldDefinition) []*ast.Directive {
	var out []*ast.Directive
	add := func(ds ast.DirectiveList) {
		for _, d := range ds {
			if builtinDirective(d.Name) {
				continue
			}
			def := x.Schema.Directives[d.Name]
			if def == nil {
				continue
			}
			for _, l := range def.Locations {
				if l == ast.LocationFieldDefinition || l == ast.LocationObject || l == ast.LocationInputObject {
					out = append(out, d)
					break
				}
			}
		}
	}
	if td := x.Schema.Types[fd.Type.Name()]; td != nil {
		add(td.Directives)
	}
	add(fd.Directives)
	return out
}

func goDirName(name string) string {
	// DirectiveRoot member names are gqlgen's ToGo(name); harness directives use single lower-case
	// words, so this is upper-casing the first letter.
	if name == "" {
		return name
	}
	b := []byte(name)
	if b[0] >= 'a' && b[0] <= 'z' {
		b[0] -= 32
	}
	return string(b)
}

func (x *executor) complete(t *ast.Type, key, path string, sels []ast.SelectionSet) (*strictjson.Value, bool) {
	o := x.Plan.Get(key, !t.NonNull)
	if x.rootValued[key] {
		o = plan.Outcome{Kind: plan.Value}
	}
	if t.Elem == nil {
		if def := x.Schema.Types[t.NamedType]; def != nil && def.IsAbstractType() && len(univ.PossibleObjects(x.Schema, def)) == 0 {
			// an interface nothing implements: the only Go value there is, is nil
			o = plan.Outcome{Kind: plan.Nil}
		}
	}
	if o.Kind == plan.Nil {
		if t.NonNull {
			x.addErr(path, "null", "")
		}
		return null(), true
	}
	if o.Kind == plan.Foreign {
		// a Go value no implementor matches: gqlgen's own marshalling code panics at this position
		x.addErr(path, "foreign", "")
		return null(), true
	}
	if t.Elem != nil {
		n := x.Plan.ListLen(key)
		arr := &strictjson.Value{Kind: strictjson.Array, Arr: []*strictjson.Value{}}
		listNull := false
		for i := 0; i < n; i++ {
			if ed := x.Schema.Types[t.Elem.Name()]; ed != nil && t.Elem.Elem == nil && (ed.IsAbstractType() || ed.Kind == ast.Object) {
				x.res.Elems = append(x.res.Elems, ElemPos{Key: key + "[" + strconv.Itoa(i) + "]", Path: path + "[" + strconv.Itoa(i) + "]",
					Abstract: ed.IsAbstractType(), NonNull: t.Elem.NonNull, ListLen: n})
			}
			if ed := x.Schema.Types[t.Elem.Name()]; ed != nil && t.Elem.Elem == nil {
				x.res.Values = append(x.res.Values, ValuePos{Key: key + "[" + strconv.Itoa(i) + "]", NonNull: t.Elem.NonNull, Leaf: ed.IsLeafType()})
			}
			ev, isNull := x.complete(t.Elem, key+"["+strconv.Itoa(i)+"]", path+"["+strconv.Itoa(i)+"]", sels)
			if isNull && t.Elem.NonNull {
				listNull = true
				if ed := x.Schema.Types[t.Elem.Name()]; ed != nil && t.Elem.Elem == nil && ed.IsLeafType() {
					if n := len(x.res.Errors); n > 0 && x.res.Errors[n-1].Class == "null" && x.res.Errors[n-1].Path == path+"["+strconv.Itoa(i)+"]" {
						x.res.Errors[n-1].LeafElem = true
					}
				}
			}
			arr.Arr = append(arr.Arr, ev)
		}
		if listNull {
			x.res.NullPropagated++
			if !t.NonNull {
				x.res.StoppedInList++
			}
			return null(), true
		}
		return arr, false
	}
	def := x.Schema.Types[t.NamedType]
	switch def.Kind {
	case ast.Scalar, ast.Enum:
		return scalarJSON(univ.ScalarPayload(x.Plan, def, key)), false
	case ast.Object:
		v, isNull := x.selectionSet(def, key, sels, path, false)
		if isNull {
			return null(), !x.stopped(path)
		}
		return v, false
	case ast.Interface, ast.Union:
		poss := univ.PossibleObjects(x.Schema, def)
		c := poss[x.Plan.Pick(key, len(poss))]
		x.res.ThroughAbstract++
		v, isNull := x.selectionSet(c, key, sels, path, false)
		if isNull {
			return null(), !x.stopped(path)
		}
		return v, false
	}
	panic("refexec: cannot complete " + string(def.Kind))
}

func scalarJSON(p any) *strictjson.Value {
	switch v := p.(type) {
	case string:
		return &strictjson.Value{Kind: strictjson.String, Str: v}
	case int64:
		return &strictjson.Value{Kind: strictjson.Number, Num: strconv.FormatInt(v, 10)}
	case float64:
		return &strictjson.Value{Kind: strictjson.Number, Num: strconv.FormatFloat(v, 'g', -1, 64)}
	case bool:
		return &strictjson.Value{Kind: strictjson.Bool, B: v}
	}
	return null()
}

// SameData compares two JSON trees including object key order; numbers numerically.
func SameData(a, b *strictjson.Value) bool {
	if a == nil || b == nil {
		return a == b
	}
	if a.Kind != b.Kind {
		return false
	}
	switch a.Kind {
	case strictjson.Bool:
		return a.B == b.B
	case strictjson.String:
		return a.Str == b.Str
	case strictjson.Number:
		if a.Num == b.Num {
			return true
		}
		x, e1 := strconv.ParseFloat(a.Num, 64)
		y, e2 := strconv.ParseFloat(b.Num, 64)
		return e1 == nil && e2 == nil && x == y
	case strictjson.Array:
		if len(a.Arr) != len(b.Arr) {
			return false
		}
		for i := range a.Arr {
			if !SameData(a.Arr[i], b.Arr[i]) {
				return false
			}
		}
	case strictjson.Object:
		if len(a.Keys) != len(b.Keys) {
			return false
		}
		for i := range a.Keys {
			if a.Keys[i] != b.Keys[i] || !SameData(a.Vals[i], b.Vals[i]) {
				return false
			}
		}
	}
	return true
}

// SameDataUnordered compares two JSON trees ignoring object key order; numbers numerically.
func SameDataUnordered(a, b *strictjson.Value) bool {
	if a == nil || b == nil {
		return a == b
	}
	if a.Kind != b.Kind {
		return false
	}
	switch a.Kind {
	case strictjson.Array:
		if len(a.Arr) != len(b.Arr) {
			return false
		}
		for i := range a.Arr {
			if !SameDataUnordered(a.Arr[i], b.Arr[i]) {
				return false
			}
		}
		return true
	case strictjson.Object:
		if len(a.Keys) != len(b.Keys) {
			return false
		}
		for i, k := range a.Keys {
			bv := b.Get(k)
			if bv == nil || !SameDataUnordered(a.Vals[i], bv) {
				return false
			}
		}
		return true
	}
	return SameData(a, b)
}
