// Package scalars holds the custom scalar the probe schema binds (`scalar Tok`): user code that runs
// while gqlgen coerces an argument (UnmarshalGQL) and while it serialises a response (MarshalGQL),
// and that fails on demand. What it does is dictated by the value itself, so a test controls the
// fault point through the literal or variable it sends:
//
//	"!err-u…"    UnmarshalGQL returns an error
//	"!panic-u…"  UnmarshalGQL panics
//	"!panic-m…"  MarshalGQL panics (the value unmarshals fine)
//	"!badjson-m…" MarshalGQL writes invalid JSON (the value unmarshals fine)
package scalars

import (
	"errors"
	"fmt"
	"io"
	"strconv"
	"strings"
	"sync/atomic"
)

type Tok string

// Calls counts invocations (tests reset it).
var Unmarshals, Marshals atomic.Int64

func (t Tok) MarshalGQL(w io.Writer) {
	Marshals.Add(1)
	if strings.HasPrefix(string(t), "!panic-m") {
		panic("Tok.MarshalGQL panicked: " + string(t))
	}
	if strings.HasPrefix(string(t), "!badjson-m") {
		// a marshaler of the user that writes something encoding/json refuses
		io.WriteString(w, "{oops")
		return
	}
	io.WriteString(w, strconv.Quote(string(t)))
}

func (t *Tok) UnmarshalGQL(v any) error {
	Unmarshals.Add(1)
	s, ok := v.(string)
	if !ok {
		return fmt.Errorf("Tok must be a string, got %T", v)
	}
	switch {
	case strings.HasPrefix(s, "!err-u"):
		return errors.New("Tok.UnmarshalGQL failed: " + s)
	case strings.HasPrefix(s, "!panic-u"):
		panic("Tok.UnmarshalGQL panicked: " + s)
	}
	*t = Tok(s)
	return nil
}

// Overlap is a hand-written model several schema fields of which share one Go field (the probe binds
// `aAlias` to A and `bAlias` to B with models.<T>.fields.<f>.fieldName).
type Overlap struct {
	A *string `json:"a"`
	B int     `json:"b"`
}

// FieldAliases: "Type.field" of the probe schemas -> the schema field whose Go field it shares.
var FieldAliases = map[string]string{
	"Overlap.aAlias": "a",
	"Overlap.bAlias": "b",
}

// Canonical is the field whose value (and custom complexity function) `field` of `typ` shares.
func Canonical(typ, field string) string {
	if c, ok := FieldAliases[typ+"."+field]; ok {
		return c
	}
	return field
}
