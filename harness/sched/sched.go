// Package sched inspects goroutine dumps: which goroutines belong to gqlgen or generated code, and
// whether one is parked for good (the stable witness of DESIGN.md §1.5).
package sched

import (
	"regexp"
	"runtime"
	"sort"
	"strings"
	"time"
)

type G struct {
	ID     string
	State  string // "chan send", "sync.WaitGroup.Wait", "running", …
	Frames []string
	Text   string
}

var header = regexp.MustCompile(`^goroutine (\d+) \[([^\]]*)\]:`)

// Dump parses runtime.Stack(all).
func Dump() []G {
	buf := make([]byte, 1<<20)
	for {
		n := runtime.Stack(buf, true)
		if n < len(buf) {
			buf = buf[:n]
			break
		}
		buf = make([]byte, 2*len(buf))
	}
	var out []G
	for _, blk := range strings.Split(string(buf), "\n\n") {
		lines := strings.Split(strings.TrimSpace(blk), "\n")
		if len(lines) == 0 {
			continue
		}
		m := header.FindStringSubmatch(lines[0])
		if m == nil {
			continue
		}
		g := G{ID: m[1], State: strings.Split(m[2], ",")[0], Text: blk}
		for _, ln := range lines[1:] {
			if !strings.HasPrefix(ln, "\t") && !strings.HasPrefix(ln, "created by") {
				// function line: pkg.Func(args)
				if i := strings.LastIndex(ln, "("); i > 0 {
					g.Frames = append(g.Frames, ln[:i])
				}
			}
		}
		out = append(out, g)
	}
	return out
}

// IsGqlgen reports whether a goroutine executes gqlgen runtime or generated code (frames in
// github.com/99designs/gqlgen/ or vh/gen/), and is not the harness's own goroutine.
func IsGqlgen(g G, exclude ...string) bool {
	has := false
	for _, f := range g.Frames {
		if strings.HasPrefix(f, "github.com/99designs/gqlgen/") || strings.HasPrefix(f, "vh/gen/") {
			has = true
		}
		for _, x := range exclude {
			if strings.HasPrefix(f, x) {
				return false
			}
		}
	}
	return has
}

// InUserCode: a universal resolver (user code) is on the stack, so the goroutine is not gqlgen's to
// finish yet.
func InUserCode(g G) bool {
	for _, f := range g.Frames {
		if strings.HasPrefix(f, "vh/univ.") {
			return true
		}
	}
	return false
}

func parked(state string) bool {
	switch state {
	case "running", "runnable", "syscall", "sleep":
		return false
	}
	return true
}

// Signature identifies where a goroutine is parked: state plus the first gqlgen/generated frame.
func Signature(g G) string {
	for _, f := range g.Frames {
		if strings.HasPrefix(f, "github.com/99designs/gqlgen/") || strings.HasPrefix(f, "vh/gen/") {
			// strip the vector package so that the signature is vector independent
			if strings.HasPrefix(f, "vh/gen/") {
				parts := strings.SplitN(f, ".", 2)
				if len(parts) == 2 {
					f = "generated." + parts[1]
				}
			}
			return g.State + " @ " + f
		}
	}
	return g.State
}

// Survivors waits up to maxWait for every gqlgen goroutine (other than the caller's, identified by
// the exclude prefixes) to end. It returns the goroutines that are still there and parked
// identically in two dumps 200ms apart (stable witnesses) and whether anything was still running
// (inconclusive).
func Survivors(maxWait time.Duration, exclude ...string) (stable []G, stillRunning bool) {
	return SurvivorsIgnoring(maxWait, nil, exclude...)
}

// GqlgenIDs returns the ids of the gqlgen goroutines alive now (to be ignored later).
func GqlgenIDs(exclude ...string) map[string]bool {
	out := map[string]bool{}
	for _, g := range Dump() {
		if IsGqlgen(g, exclude...) {
			out[g.ID] = true
		}
	}
	return out
}

// SurvivorsIgnoring is Survivors without the goroutines listed in ignore (those that were already
// there before the case started).
func SurvivorsIgnoring(maxWait time.Duration, ignore map[string]bool, exclude ...string) (stable []G, stillRunning bool) {
	deadline := time.Now().Add(maxWait)
	for {
		var cur []G
		for _, g := range Dump() {
			if ignore[g.ID] {
				continue
			}
			if IsGqlgen(g, exclude...) && !InUserCode(g) {
				cur = append(cur, g)
			}
		}
		if len(cur) == 0 {
			return nil, false
		}
		allParked := true
		for _, g := range cur {
			if !parked(g.State) {
				allParked = false
			}
		}
		if allParked {
			time.Sleep(200 * time.Millisecond)
			again := map[string]G{}
			for _, g := range Dump() {
				again[g.ID] = g
			}
			var st []G
			for _, g := range cur {
				if g2, ok := again[g.ID]; ok && Signature(g2) == Signature(g) && parked(g2.State) {
					st = append(st, g2)
				}
			}
			if len(st) > 0 && (time.Now().After(deadline) || len(st) == len(cur)) {
				// give it one more chance: a parked goroutine may be woken by a timer
				time.Sleep(300 * time.Millisecond)
				final := map[string]G{}
				for _, g := range Dump() {
					final[g.ID] = g
				}
				var st2 []G
				for _, g := range st {
					if g3, ok := final[g.ID]; ok && Signature(g3) == Signature(g) {
						st2 = append(st2, g3)
					}
				}
				if len(st2) > 0 {
					sort.Slice(st2, func(i, j int) bool { return st2[i].ID < st2[j].ID })
					return st2, false
				}
			}
		}
		if time.Now().After(deadline) {
			return nil, true
		}
		time.Sleep(2 * time.Millisecond)
	}
}
