// Package sdlgen draws random GraphQL schemas (SDL) from a grammar: objects, interfaces (including
// interfaces implementing interfaces), unions, enums, input objects (nested, recursive through
// nullable fields), list / non-null nesting, arguments and input fields with defaults of every
// literal kind, descriptions, @deprecated on fields / arguments / input fields / enum values,
// custom directives (with arguments, repeatable), split over several files with `extend type`.
package sdlgen

import (
	"fmt"
	"sort"
	"strconv"
	"strings"

	"pgregory.net/rapid"
)

type Options struct {
	// Hostile: draw names from the pool gqlgen documents or explicitly handles (Go keywords,
	// predeclared identifiers, initialisms, underscores, colliding enum values)
	Hostile bool
	// Files: split the schema over this many files (1..3)
	Files int
	// NoDirectives: do not declare or apply custom directives
	NoDirectives bool
	// Mutation / Subscription roots
	Roots bool
	// NoDescriptions etc. are not needed: descriptions are cheap
	MaxTypes int
	// ExoticDefaults: string defaults with characters Go and GraphQL escape differently
	ExoticDefaults bool
	// DeprecatedInputs: put @deprecated on arguments and input fields (valid since the 2021 spec)
	DeprecatedInputs bool
	// ExecDirectives: directives may also be declared for QUERY / MUTATION / SUBSCRIPTION / FIELD
	ExecDirectives bool
	// NoInputDirectives: never apply custom directives to arguments, input fields or types (the
	// reference executor of the execution checks models directives applied to field definitions)
	NoInputDirectives bool
	// Cycles: add a mutual cycle of non-null object fields between two object types
	Cycles bool
	// SameBase: the files share one base name in different directories (d0/schema.graphqls,
	// d1/schema.graphqls, ...), which the follow-schema layouts merge into one generated file;
	// directive declarations are then spread over the files
	SameBase bool
	// ExecNames: type names that are also exported identifiers of the generated exec file (Config,
	// ResolverRoot, ...) - only sensible when the models live in a package of their own
	ExecNames bool
	// RichDirectiveArgs: directives may have up to four arguments, several of them with (different)
	// defaults
	RichDirectiveArgs bool
}

type Schema struct {
	Files map[string]string
	// Features for classification
	Features map[string]bool
	// ObjectFields: field names of every non-root object type, in declaration order
	ObjectFields map[string][]string
	ObjectNames  []string
}

// SDL returns all files concatenated (in name order).
func (s *Schema) SDL() string {
	var names []string
	for n := range s.Files {
		names = append(names, n)
	}
	sort.Strings(names)
	var sb strings.Builder
	for _, n := range names {
		sb.WriteString(s.Files[n])
		sb.WriteString("\n")
	}
	return sb.String()
}

type field struct {
	name, typ, desc string
	args            []arg
	deprecated      string // "" none, "-" without reason, else reason
	dirs            string
}

type arg struct {
	name, typ, def, desc string
	deprecated           string
	dirs                 string
}

type typ struct {
	kind       string // object interface union enum input
	name, desc string
	impl       []string
	fields     []field
	inputs     []arg
	values     []field // enum values (name, desc, deprecated)
	members    []string
	dirs       string
}

type gen struct {
	t    *rapid.T
	opt  Options
	used map[string]bool
	feat map[string]bool

	enums, inputs, ifaces, objects, unions []*typ
	dirs                                   []dirDef
}

type dirDef struct {
	name       string
	args       []arg
	locs       []string
	repeatable bool
	desc       string
}

var plainTypeNames = []string{"User", "Post", "Comment", "Item", "Order", "Thing", "Widget", "Gadget", "Node2", "Entry", "Group", "Label", "Shape", "Event", "Asset"}
var hostileTypeNames = []string{"Type", "Func", "Map", "Error", "String_", "Int_", "URL", "HTTPServer", "ApiKey", "Id", "XMLHttpRequest", "My_Type", "_Leading", "Trailing_", "a_b_c", "lowercase", "T", "Interface_", "Chan", "Select", "Range", "Package_", "JSON", "Uuid", "IPAddress"}

// FederationProbe: a small federation v2 subgraph with two entities that have @requires fields.
const FederationProbe = `extend schema @link(url: "https://specs.apollo.dev/federation/v2.3", import: ["@key", "@external", "@requires"])

type Query {
  ping: String
}

type Planet @key(fields: "name") {
  name: String!
  diameter: Int @external
  "needs the diameter"
  size: Int @requires(fields: "diameter")
  marker: String
}

type Moon @key(fields: "id") @key(fields: "planet { name } index") {
  id: ID!
  index: Int!
  planet: Planet!
  mass: Int @external
  density: Int @requires(fields: "mass")
}
`

// ExecFileTypeNames: exported identifiers of every generated exec file.
var ExecFileTypeNames = []string{"Config", "ResolverRoot", "DirectiveRoot", "ComplexityRoot"}
var plainFieldNames = []string{"id", "name", "title", "count", "items", "owner", "parent", "children", "value", "score", "active", "tags", "createdAt", "kind", "ref", "other", "next", "prev", "extra", "note"}
var hostileFieldNames = []string{"type", "func", "map", "range", "select", "chan", "go", "defer", "interface", "struct", "package", "import", "var", "const", "string", "int", "error", "nil", "true", "len", "new", "make", "append", "url", "id", "userId", "user_id", "HTTPStatus", "apiURL", "_private", "trailing_", "a_b", "x1"}
var enumValuePool = []string{"RED", "GREEN", "BLUE", "ACTIVE", "INACTIVE", "A", "B", "C", "ONE", "TWO", "UNKNOWN"}
var hostileEnumValues = []string{"type", "Type", "TYPE", "nil", "String", "value_one", "valueOne", "VALUE_ONE", "_x", "x_", "URL", "Url", "Id", "ID", "go", "Go"}

// goFieldCollision: two field names of one type that gqlgen maps to one Go identifier are not a
// documented feature, so a type never gets both.
func normGo(s string) string {
	return strings.ToLower(strings.ReplaceAll(s, "_", ""))
}

func (g *gen) typeName(kind string) string {
	pool := plainTypeNames
	if g.opt.Hostile {
		pool = append(append([]string{}, plainTypeNames...), hostileTypeNames...)
	}
	if g.opt.ExecNames {
		pool = append(append(append([]string{}, pool...), ExecFileTypeNames...), ExecFileTypeNames...)
	}
	for try := 0; try < 50; try++ {
		n := rapid.SampledFrom(pool).Draw(g.t, "typename")
		if try > 10 {
			n = fmt.Sprintf("%s%d", n, try)
		}
		key := normGo(n)
		if !g.opt.Hostile {
			// colliding type names (My_Type / MyType) belong to the hostile pool only
		}
		if g.used[n] || g.used["~"+key] && !g.opt.Hostile {
			continue
		}
		if g.used["~"+key] && g.opt.Hostile && !g.used["collision-budget"] {
			g.used["collision-budget"] = true
			g.feat["colliding-type-names"] = true
		} else if g.used["~"+key] {
			continue
		}
		switch n {
		case "Query", "Mutation", "Subscription", "String", "Int", "Float", "Boolean", "ID":
			continue
		}
		g.used[n] = true
		g.used["~"+key] = true
		return n
	}
	n := fmt.Sprintf("T%d", len(g.used))
	g.used[n] = true
	return n
}

func (g *gen) fieldNames(n int) []string {
	pool := plainFieldNames
	if g.opt.Hostile {
		pool = append(append([]string{}, plainFieldNames...), hostileFieldNames...)
	}
	seen := map[string]bool{}
	var out []string
	for len(out) < n {
		f := rapid.SampledFrom(pool).Draw(g.t, "fieldname")
		if seen[normGo(f)] {
			if len(seen) >= len(pool)-2 {
				break
			}
			continue
		}
		seen[normGo(f)] = true
		out = append(out, f)
	}
	return out
}

func (g *gen) desc() string {
	switch rapid.IntRange(0, 5).Draw(g.t, "desc") {
	case 0:
		return "simple description"
	case 1:
		return "with \"quotes\" and \\ backslash"
	case 2:
		return "multi\nline"
	}
	return ""
}

func renderDesc(d, indent string) string {
	if d == "" {
		return ""
	}
	if strings.Contains(d, "\n") {
		return indent + `"""` + "\n" + indent + strings.ReplaceAll(d, "\n", "\n"+indent) + "\n" + indent + `"""` + "\n"
	}
	return indent + strconv.Quote(d) + "\n"
}

var scalars = []string{"String", "Int", "Float", "Boolean", "ID"}

func (g *gen) wrap(base string, output bool) string {
	switch rapid.IntRange(0, 9).Draw(g.t, "wrap") {
	case 0, 1, 2, 3:
		return base
	case 4, 5:
		return base + "!"
	case 6:
		return "[" + base + "]"
	case 7:
		return "[" + base + "!]!"
	case 8:
		return "[" + base + "!]"
	default:
		g.feat["nested-list"] = true
		return "[[" + base + "]!]"
	}
}

// literal for an input type text (e.g. "[Int!]", "Color", "Inner").
func (g *gen) literal(t string, depth int) string {
	nn := strings.HasSuffix(t, "!")
	t = strings.TrimSuffix(t, "!")
	if !nn && rapid.IntRange(0, 9).Draw(g.t, "nulldef") == 0 {
		return "null"
	}
	if strings.HasPrefix(t, "[") {
		inner := t[1 : len(t)-1]
		n := rapid.IntRange(0, 2).Draw(g.t, "deflen")
		var xs []string
		for i := 0; i < n; i++ {
			xs = append(xs, g.literal(inner, depth+1))
		}
		return "[" + strings.Join(xs, ", ") + "]"
	}
	switch t {
	case "String", "ID":
		pool := []string{`"x"`, `""`, `"a b"`, `"q\"uote"`, `"new\nline"`, `"é"`, `"back\\slash"`}
		if g.opt.ExoticDefaults {
			pool = append(pool, `"bell\u0007"`, `"del\u007f"`, `"vt\u000b"`)
		}
		return rapid.SampledFrom(pool).Draw(g.t, "strdef")
	case "Int":
		return strconv.Itoa(rapid.IntRange(-100, 100).Draw(g.t, "intdef"))
	case "Float":
		return rapid.SampledFrom([]string{"1.5", "-0.25", "3", "1e3", "0.0"}).Draw(g.t, "fldef")
	case "Boolean":
		return strconv.FormatBool(rapid.Bool().Draw(g.t, "bdef"))
	}
	for _, e := range g.enums {
		if e.name == t {
			return e.values[rapid.IntRange(0, len(e.values)-1).Draw(g.t, "enumdef")].name
		}
	}
	for _, in := range g.inputs {
		if in.name == t {
			if depth > 2 {
				if nn {
					// required fields must be given
				}
			}
			var xs []string
			for _, f := range in.inputs {
				req := strings.HasSuffix(f.typ, "!") && f.def == ""
				if !req && (depth > 1 || rapid.Bool().Draw(g.t, "objdefomit")) {
					continue
				}
				xs = append(xs, f.name+": "+g.literal(f.typ, depth+1))
			}
			g.feat["object-default"] = true
			return "{" + strings.Join(xs, ", ") + "}"
		}
	}
	return "null"
}

func (g *gen) inputTypeRef(selfOK string) string {
	var pool []string
	pool = append(pool, scalars...)
	for _, e := range g.enums {
		pool = append(pool, e.name, e.name)
	}
	for _, in := range g.inputs {
		pool = append(pool, in.name, in.name)
	}
	if selfOK != "" {
		pool = append(pool, selfOK)
	}
	return rapid.SampledFrom(pool).Draw(g.t, "inref")
}

func (g *gen) deprecation(allowed bool) string {
	if !allowed || rapid.IntRange(0, 4).Draw(g.t, "depr?") != 0 {
		return ""
	}
	g.feat["deprecated"] = true
	return rapid.SampledFrom([]string{"-", "use something else", "with \"quote\""}).Draw(g.t, "reason")
}

func renderDepr(d string) string {
	switch d {
	case "":
		return ""
	case "-":
		return " @deprecated"
	}
	return " @deprecated(reason: " + strconv.Quote(d) + ")"
}

func (g *gen) applyDir(loc string) string {
	if g.opt.NoDirectives {
		return ""
	}
	if g.opt.NoInputDirectives && (loc == "ARGUMENT_DEFINITION" || loc == "INPUT_FIELD_DEFINITION") {
		return ""
	}
	var out string
	for _, d := range g.dirs {
		ok := false
		for _, l := range d.locs {
			if l == loc {
				ok = true
			}
		}
		if !ok || rapid.IntRange(0, 3).Draw(g.t, "applydir") != 0 {
			continue
		}
		times := 1
		if d.repeatable && rapid.Bool().Draw(g.t, "twice") {
			times = 2
		}
		for k := 0; k < times; k++ {
			var as []string
			for _, a := range d.args {
				if strings.HasSuffix(a.typ, "!") || rapid.Bool().Draw(g.t, "dirarg") {
					as = append(as, a.name+": "+g.literal(a.typ, 1))
				}
			}
			out += " @" + d.name
			if len(as) > 0 {
				out += "(" + strings.Join(as, ", ") + ")"
			}
		}
		g.feat["directive-applied"] = true
	}
	return out
}

func (g *gen) args() []arg {
	n := rapid.SampledFrom([]int{0, 0, 0, 1, 2, 3}).Draw(g.t, "nargs")
	var out []arg
	for _, name := range g.fieldNames(n) {
		a := arg{name: name, desc: g.desc()}
		base := g.inputTypeRef("")
		a.typ = g.wrap(base, false)
		if rapid.IntRange(0, 2).Draw(g.t, "argdef") == 0 {
			a.def = g.literal(a.typ, 0)
			if a.def == "null" && strings.HasSuffix(a.typ, "!") {
				a.def = ""
			}
			g.feat["default-value"] = true
		}
		optional := !strings.HasSuffix(a.typ, "!") || a.def != ""
		a.deprecated = g.deprecation(optional && g.opt.DeprecatedInputs)
		if a.deprecated != "" {
			g.feat["deprecated-argument"] = true
		}
		a.dirs = g.applyDir("ARGUMENT_DEFINITION")
		out = append(out, a)
	}
	return out
}

func (g *gen) outputTypeRef() string {
	var pool []string
	pool = append(pool, scalars...)
	for _, e := range g.enums {
		pool = append(pool, e.name)
	}
	for _, x := range g.objects {
		pool = append(pool, x.name, x.name)
	}
	for _, x := range g.ifaces {
		pool = append(pool, x.name)
	}
	for _, x := range g.unions {
		pool = append(pool, x.name)
	}
	return rapid.SampledFrom(pool).Draw(g.t, "outref")
}

func (g *gen) outFields(n int, avoid map[string]bool) []field {
	var out []field
	for _, name := range g.fieldNames(n + len(avoid)) {
		if avoid[normGo(name)] {
			continue
		}
		if len(out) >= n {
			break
		}
		f := field{name: name, desc: g.desc(), args: g.args()}
		f.typ = g.wrap(g.outputTypeRef(), true)
		f.deprecated = g.deprecation(true)
		f.dirs = g.applyDir("FIELD_DEFINITION")
		out = append(out, f)
	}
	return out
}

// Generate draws a schema.
func Generate(t *rapid.T, opt Options) *Schema {
	g := &gen{t: t, opt: opt, used: map[string]bool{}, feat: map[string]bool{}}
	if opt.MaxTypes == 0 {
		opt.MaxTypes = 10
		g.opt.MaxTypes = 10
	}
	// directives
	if !opt.NoDirectives {
		nd := rapid.IntRange(0, 2).Draw(t, "ndirs")
		if opt.SameBase && opt.ExecDirectives {
			nd = rapid.IntRange(2, 3).Draw(t, "ndirs-samebase")
		}
		for i := 0; i < nd; i++ {
			d := dirDef{name: []string{"tag", "auth", "limit"}[i], desc: g.desc(), repeatable: rapid.Bool().Draw(t, "repeatable")}
			locs := []string{"FIELD_DEFINITION", "ARGUMENT_DEFINITION", "INPUT_FIELD_DEFINITION", "OBJECT", "ENUM_VALUE", "INTERFACE", "UNION", "ENUM", "INPUT_OBJECT"}
			if opt.ExecDirectives {
				locs = append(locs, "QUERY", "MUTATION", "SUBSCRIPTION", "FIELD")
			}
			if opt.NoInputDirectives {
				// type-level applications also reach fields (gqlgen runs the directives of a field's
				// return type, and of its parent when the definition lists INPUT_OBJECT, around the
				// field); the execution checks keep to directives applied to the field itself
				locs = []string{"FIELD_DEFINITION", "ARGUMENT_DEFINITION", "INPUT_FIELD_DEFINITION", "ENUM_VALUE"}
			}
			k := rapid.IntRange(1, 4).Draw(t, "nlocs")
			perm := rapid.Permutation(locs).Draw(t, "locs")
			d.locs = perm[:k]
			if opt.SameBase && opt.ExecDirectives {
				// every directive also has an executable location, so that each file that declares
				// one takes part in the operation / field middleware of the merged generated file
				x := rapid.SampledFrom([]string{"QUERY", "MUTATION", "SUBSCRIPTION", "FIELD"}).Draw(t, "execloc")
				has := false
				for _, l := range d.locs {
					has = has || l == x
				}
				if !has {
					d.locs = append(append([]string{}, d.locs...), x)
				}
			}
			na := rapid.IntRange(0, 2).Draw(t, "ndirargs")
			if opt.RichDirectiveArgs {
				na = rapid.IntRange(0, 4).Draw(t, "ndirargs-rich")
			}
			for j := 0; j < na; j++ {
				a := arg{name: []string{"name", "level", "mode", "ratio"}[j], typ: []string{"String", "Int!", "String", "Float"}[j], desc: g.desc()}
				if a.typ == "String" && rapid.Bool().Draw(t, "dirargdef") {
					a.def = []string{`"d"`, "", `"per user"`, ""}[j]
				}
				if opt.RichDirectiveArgs && j == 1 && rapid.Bool().Draw(t, "dirargdef-level") {
					a.def = "7"
				}
				if j == 3 && rapid.Bool().Draw(t, "dirargdef-ratio") {
					a.def = "1.5"
				}
				if a.typ == "String" {
					a.deprecated = g.deprecation(g.opt.DeprecatedInputs)
				}
				d.args = append(d.args, a)
			}
			if d.repeatable {
				g.feat["repeatable-directive"] = true
			}
			g.dirs = append(g.dirs, d)
		}
	}
	// enums
	ne := rapid.IntRange(1, 2).Draw(t, "nenums")
	for i := 0; i < ne; i++ {
		e := &typ{kind: "enum", name: g.typeName("enum"), desc: g.desc()}
		pool := enumValuePool
		if opt.Hostile {
			pool = append(append([]string{}, enumValuePool...), hostileEnumValues...)
		}
		nv := rapid.IntRange(1, 4).Draw(t, "nvalues")
		seen := map[string]bool{}
		for len(e.values) < nv {
			v := rapid.SampledFrom(pool).Draw(t, "enumvalue")
			if seen[v] || v == "true" || v == "false" || v == "null" {
				continue
			}
			seen[v] = true
			e.values = append(e.values, field{name: v, desc: g.desc(), deprecated: g.deprecation(len(e.values) > 0), dirs: g.applyDir("ENUM_VALUE")})
		}
		e.dirs = g.applyDir("ENUM")
		g.enums = append(g.enums, e)
	}
	// input objects
	ni := rapid.IntRange(1, 3).Draw(t, "ninputs")
	for i := 0; i < ni; i++ {
		in := &typ{kind: "input", name: g.typeName("input"), desc: g.desc()}
		nf := rapid.IntRange(1, 5).Draw(t, "ninfields")
		for _, name := range g.fieldNames(nf) {
			a := arg{name: name, desc: g.desc()}
			base := g.inputTypeRef(in.name)
			if base == in.name {
				// recursion only through nullable positions
				a.typ = rapid.SampledFrom([]string{base, "[" + base + "!]", "[" + base + "]"}).Draw(t, "recwrap")
				g.feat["recursive-input"] = true
			} else {
				a.typ = g.wrap(base, false)
				if rapid.IntRange(0, 2).Draw(t, "infdef") == 0 {
					a.def = g.literal(a.typ, 0)
					if a.def == "null" && strings.HasSuffix(a.typ, "!") {
						a.def = ""
					}
					g.feat["default-value"] = true
				}
			}
			optional := !strings.HasSuffix(a.typ, "!") || a.def != ""
			a.deprecated = g.deprecation(optional && g.opt.DeprecatedInputs)
			if a.deprecated != "" {
				g.feat["deprecated-input-field"] = true
			}
			a.dirs = g.applyDir("INPUT_FIELD_DEFINITION")
			in.inputs = append(in.inputs, a)
		}
		in.dirs = g.applyDir("INPUT_OBJECT")
		g.inputs = append(g.inputs, in)
	}
	// interfaces: declared first (names), fields may reference later objects -> two passes
	nif := rapid.IntRange(0, 3).Draw(t, "nifaces")
	for i := 0; i < nif; i++ {
		g.ifaces = append(g.ifaces, &typ{kind: "interface", name: g.typeName("interface"), desc: g.desc()})
	}
	nobj := rapid.IntRange(2, max(2, g.opt.MaxTypes-ne-ni-nif)).Draw(t, "nobjects")
	for i := 0; i < nobj; i++ {
		name := ""
		if opt.Hostile && i == 0 && rapid.IntRange(0, 2).Draw(t, "enumcoincidence") == 0 {
			// a type whose name is an enum's name followed by one of its values: both map to the same
			// Go identifier (type ColorRed / const ColorRed), which gqlgen de-duplicates
			e := g.enums[0]
			v := e.values[0].name
			cand := e.name + strings.ToUpper(v[:1]) + strings.ToLower(v[1:])
			if !g.used[cand] && !strings.Contains(cand, "_") {
				name = cand
				g.used[name] = true
				g.feat["type-equals-enum-plus-value"] = true
			}
		}
		if name == "" {
			name = g.typeName("object")
		}
		g.objects = append(g.objects, &typ{kind: "object", name: name, desc: g.desc()})
	}
	nun := rapid.IntRange(0, 2).Draw(t, "nunions")
	for i := 0; i < nun; i++ {
		u := &typ{kind: "union", name: g.typeName("union"), desc: g.desc()}
		k := rapid.IntRange(1, min(3, len(g.objects))).Draw(t, "nmembers")
		perm := rapid.Permutation(g.objects).Draw(t, "members")
		for _, m := range perm[:k] {
			u.members = append(u.members, m.name)
		}
		u.dirs = g.applyDir("UNION")
		g.unions = append(g.unions, u)
		g.feat["union"] = true
	}
	// interface fields; interface i may implement an earlier interface
	for i, it := range g.ifaces {
		avoid := map[string]bool{}
		if i > 0 && rapid.Bool().Draw(t, "iface-implements") {
			parent := g.ifaces[rapid.IntRange(0, i-1).Draw(t, "parent")]
			it.impl = append(append([]string{}, parent.impl...), parent.name)
			it.fields = append(it.fields, parent.fields...)
			for _, f := range parent.fields {
				avoid[normGo(f.name)] = true
			}
			g.feat["interface-implements-interface"] = true
		}
		it.fields = append(it.fields, g.outFields(rapid.IntRange(1, 3).Draw(t, "niffields"), avoid)...)
		it.dirs = g.applyDir("INTERFACE")
	}
	// objects
	for _, o := range g.objects {
		avoid := map[string]bool{}
		if len(g.ifaces) > 0 {
			k := rapid.IntRange(0, min(2, len(g.ifaces))).Draw(t, "nimpl")
			perm := rapid.Permutation(g.ifaces).Draw(t, "impls")
			implSet := map[string]bool{}
			for _, it := range perm[:k] {
				conflict := false
				for _, f := range it.fields {
					if avoid[normGo(f.name)] {
						// the same field name from two unrelated interfaces must have the same
						// definition: skip the second interface unless the field is inherited
						found := false
						for _, of := range o.fields {
							if of.name == f.name && of.typ == f.typ && len(of.args) == len(f.args) {
								found = true
							}
						}
						if !found {
							conflict = true
						}
					}
				}
				if conflict {
					continue
				}
				for _, p := range append(append([]string{}, it.impl...), it.name) {
					if !implSet[p] {
						implSet[p] = true
						o.impl = append(o.impl, p)
					}
				}
				for _, f := range it.fields {
					if !avoid[normGo(f.name)] {
						avoid[normGo(f.name)] = true
						o.fields = append(o.fields, f)
					}
				}
			}
		}
		o.fields = append(o.fields, g.outFields(rapid.IntRange(1, 4).Draw(t, "nobjfields"), avoid)...)
		o.dirs = g.applyDir("OBJECT")
	}
	if opt.Cycles && len(g.objects) >= 2 && rapid.Bool().Draw(t, "cycle") {
		// a mutual cycle through non-null object fields, two fields one way and one back
		a, b := g.objects[0], g.objects[1]
		a.fields = append(a.fields, field{name: "cycFirst", typ: b.name + "!"}, field{name: "cycSecond", typ: b.name + "!"})
		b.fields = append(b.fields, field{name: "cycBack", typ: a.name + "!"})
		g.feat["non-null-object-cycle"] = true
	}
	// roots
	query := &typ{kind: "object", name: "Query"}
	query.fields = g.outFields(rapid.IntRange(1, 4).Draw(t, "nqueryfields"), nil)
	roots := []*typ{query}
	if opt.Roots {
		if rapid.Bool().Draw(t, "mutation") {
			m := &typ{kind: "object", name: "Mutation"}
			m.fields = g.outFields(rapid.IntRange(1, 3).Draw(t, "nmutfields"), nil)
			roots = append(roots, m)
		}
		if rapid.Bool().Draw(t, "subscription") {
			s := &typ{kind: "object", name: "Subscription"}
			s.fields = g.outFields(rapid.IntRange(1, 2).Draw(t, "nsubfields"), nil)
			roots = append(roots, s)
			g.feat["subscription"] = true
		}
	}
	// render, possibly over several files with extensions
	nfiles := opt.Files
	if nfiles < 1 {
		nfiles = 1
	}
	bufs := make([]strings.Builder, nfiles)
	pick := func() *strings.Builder {
		if nfiles == 1 {
			return &bufs[0]
		}
		return &bufs[rapid.IntRange(0, nfiles-1).Draw(t, "file")]
	}
	dirFile := pick()
	for di, d := range g.dirs {
		b := pick()
		if opt.SameBase && opt.ExecDirectives {
			b = &bufs[di%nfiles]
		}
		if opt.ExecDirectives && !opt.SameBase {
			// directives of executable locations declared in different files collide in gqlgen's
			// follow-schema layout (known finding): keep all declarations in one file, unless the
			// files are merged into one generated file anyway
			b = dirFile
		}
		b.WriteString(renderDesc(d.desc, ""))
		b.WriteString("directive @" + d.name)
		if len(d.args) > 0 {
			b.WriteString("(\n")
			for _, a := range d.args {
				b.WriteString(renderArg(a, "  "))
			}
			b.WriteString(")")
		}
		if d.repeatable {
			b.WriteString(" repeatable")
		}
		b.WriteString(" on " + strings.Join(d.locs, " | ") + "\n\n")
	}
	var all []*typ
	all = append(all, g.enums...)
	all = append(all, g.inputs...)
	all = append(all, g.ifaces...)
	all = append(all, g.objects...)
	all = append(all, g.unions...)
	all = append(all, roots...)
	for _, ty := range all {
		b := pick()
		b.WriteString(renderDesc(ty.desc, ""))
		switch ty.kind {
		case "enum":
			b.WriteString("enum " + ty.name + ty.dirs + " {\n")
			for _, v := range ty.values {
				b.WriteString(renderDesc(v.desc, "  "))
				b.WriteString("  " + v.name + renderDepr(v.deprecated) + v.dirs + "\n")
			}
			b.WriteString("}\n\n")
		case "input":
			b.WriteString("input " + ty.name + ty.dirs + " {\n")
			for _, a := range ty.inputs {
				b.WriteString(renderArg(a, "  "))
			}
			b.WriteString("}\n\n")
		case "union":
			b.WriteString("union " + ty.name + ty.dirs + " = " + strings.Join(ty.members, " | ") + "\n\n")
		default:
			kw := "type"
			if ty.kind == "interface" {
				kw = "interface"
			}
			fields := ty.fields
			var ext []field
			// move some own fields of objects into an extension in another file
			if nfiles > 1 && ty.kind == "object" && len(ty.impl) == 0 && len(fields) > 1 && rapid.Bool().Draw(t, "extend") {
				cut := rapid.IntRange(1, len(fields)-1).Draw(t, "cut")
				fields, ext = fields[:cut], fields[cut:]
				g.feat["multi-file-extension"] = true
			}
			b.WriteString(kw + " " + ty.name)
			if len(ty.impl) > 0 {
				b.WriteString(" implements " + strings.Join(ty.impl, " & "))
			}
			b.WriteString(ty.dirs + " {\n")
			for _, f := range fields {
				b.WriteString(renderField(f))
			}
			b.WriteString("}\n\n")
			if len(ext) > 0 {
				b2 := pick()
				b2.WriteString("extend type " + ty.name + " {\n")
				for _, f := range ext {
					b2.WriteString(renderField(f))
				}
				b2.WriteString("}\n\n")
			}
		}
	}
	out := &Schema{Files: map[string]string{}, Features: g.feat, ObjectFields: map[string][]string{}}
	for _, o := range g.objects {
		out.ObjectNames = append(out.ObjectNames, o.name)
		for _, f := range o.fields {
			out.ObjectFields[o.name] = append(out.ObjectFields[o.name], f.name)
		}
	}
	for i := range bufs {
		if bufs[i].Len() > 0 || i == 0 {
			name := fmt.Sprintf("schema%d.graphqls", i)
			if opt.SameBase {
				name = fmt.Sprintf("d%d/schema.graphqls", i)
			}
			out.Files[name] = bufs[i].String()
		}
	}
	if g.opt.Hostile {
		g.feat["hostile-names"] = true
	}
	return out
}

func renderArg(a arg, indent string) string {
	s := renderDesc(a.desc, indent) + indent + a.name + ": " + a.typ
	if a.def != "" {
		s += " = " + a.def
	}
	return s + renderDepr(a.deprecated) + a.dirs + "\n"
}

func renderField(f field) string {
	s := renderDesc(f.desc, "  ") + "  " + f.name
	if len(f.args) > 0 {
		s += "(\n"
		for _, a := range f.args {
			s += renderArg(a, "    ")
		}
		s += "  )"
	}
	return s + ": " + f.typ + renderDepr(f.deprecated) + f.dirs + "\n"
}
