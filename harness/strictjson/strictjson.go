// Package strictjson is an independent RFC 8259 parser used as an oracle: it requires valid UTF-8,
// rejects duplicate object keys, raw control characters in strings, lone surrogates escapes are
// decoded to U+FFFD like encoding/json, and it keeps object key order.
package strictjson

import (
	"fmt"
	"strconv"
	"strings"
	"unicode/utf16"
	"unicode/utf8"
)

type Kind int

const (
	Null Kind = iota
	Bool
	Number
	String
	Array
	Object
)

type Value struct {
	Kind Kind
	B    bool
	Num  string // the number token, verbatim
	Str  string
	Arr  []*Value
	Keys []string
	Vals []*Value
}

type parser struct {
	b   []byte
	i   int
	dup bool // allow duplicate keys
}

// Parse parses exactly one JSON text (surrounding whitespace allowed).
func Parse(b []byte) (*Value, error) {
	if !utf8.Valid(b) {
		return nil, fmt.Errorf("not valid UTF-8")
	}
	p := &parser{b: b}
	p.ws()
	v, err := p.value(0)
	if err != nil {
		return nil, err
	}
	p.ws()
	if p.i != len(b) {
		return nil, fmt.Errorf("trailing bytes at offset %d: %q", p.i, trunc(b[p.i:]))
	}
	return v, nil
}

func trunc(b []byte) string {
	if len(b) > 40 {
		return string(b[:40]) + "…"
	}
	return string(b)
}

func Valid(b []byte) error { _, err := Parse(b); return err }

func (p *parser) ws() {
	for p.i < len(p.b) {
		switch p.b[p.i] {
		case ' ', '\t', '\n', '\r':
			p.i++
		default:
			return
		}
	}
}

func (p *parser) value(depth int) (*Value, error) {
	if depth > 10000 {
		return nil, fmt.Errorf("too deep")
	}
	if p.i >= len(p.b) {
		return nil, fmt.Errorf("unexpected end of input")
	}
	switch c := p.b[p.i]; {
	case c == '{':
		p.i++
		v := &Value{Kind: Object}
		seen := map[string]bool{}
		p.ws()
		if p.i < len(p.b) && p.b[p.i] == '}' {
			p.i++
			return v, nil
		}
		for {
			p.ws()
			if p.i >= len(p.b) || p.b[p.i] != '"' {
				return nil, fmt.Errorf("expected object key at offset %d", p.i)
			}
			k, err := p.str()
			if err != nil {
				return nil, err
			}
			if seen[k] {
				return nil, fmt.Errorf("duplicate object key %q", k)
			}
			seen[k] = true
			p.ws()
			if p.i >= len(p.b) || p.b[p.i] != ':' {
				return nil, fmt.Errorf("expected ':' at offset %d", p.i)
			}
			p.i++
			p.ws()
			x, err := p.value(depth + 1)
			if err != nil {
				return nil, err
			}
			v.Keys = append(v.Keys, k)
			v.Vals = append(v.Vals, x)
			p.ws()
			if p.i >= len(p.b) {
				return nil, fmt.Errorf("unterminated object")
			}
			if p.b[p.i] == ',' {
				p.i++
				continue
			}
			if p.b[p.i] == '}' {
				p.i++
				return v, nil
			}
			return nil, fmt.Errorf("expected ',' or '}' at offset %d", p.i)
		}
	case c == '[':
		p.i++
		v := &Value{Kind: Array, Arr: []*Value{}}
		p.ws()
		if p.i < len(p.b) && p.b[p.i] == ']' {
			p.i++
			return v, nil
		}
		for {
			p.ws()
			x, err := p.value(depth + 1)
			if err != nil {
				return nil, err
			}
			v.Arr = append(v.Arr, x)
			p.ws()
			if p.i >= len(p.b) {
				return nil, fmt.Errorf("unterminated array")
			}
			if p.b[p.i] == ',' {
				p.i++
				continue
			}
			if p.b[p.i] == ']' {
				p.i++
				return v, nil
			}
			return nil, fmt.Errorf("expected ',' or ']' at offset %d", p.i)
		}
	case c == '"':
		s, err := p.str()
		if err != nil {
			return nil, err
		}
		return &Value{Kind: String, Str: s}, nil
	case c == 't':
		return p.lit("true", &Value{Kind: Bool, B: true})
	case c == 'f':
		return p.lit("false", &Value{Kind: Bool, B: false})
	case c == 'n':
		return p.lit("null", &Value{Kind: Null})
	case c == '-' || (c >= '0' && c <= '9'):
		return p.num()
	default:
		return nil, fmt.Errorf("unexpected byte %q at offset %d", c, p.i)
	}
}

func (p *parser) lit(s string, v *Value) (*Value, error) {
	if strings.HasPrefix(string(p.b[p.i:min(len(p.b), p.i+len(s))]), s) {
		p.i += len(s)
		return v, nil
	}
	return nil, fmt.Errorf("bad literal at offset %d: %q", p.i, trunc(p.b[p.i:]))
}

func (p *parser) num() (*Value, error) {
	s := p.i
	if p.b[p.i] == '-' {
		p.i++
	}
	if p.i >= len(p.b) {
		return nil, fmt.Errorf("bad number")
	}
	if p.b[p.i] == '0' {
		p.i++
	} else if p.b[p.i] >= '1' && p.b[p.i] <= '9' {
		for p.i < len(p.b) && p.b[p.i] >= '0' && p.b[p.i] <= '9' {
			p.i++
		}
	} else {
		return nil, fmt.Errorf("bad number at offset %d: %q", s, trunc(p.b[s:]))
	}
	if p.i < len(p.b) && p.b[p.i] == '.' {
		p.i++
		n := 0
		for p.i < len(p.b) && p.b[p.i] >= '0' && p.b[p.i] <= '9' {
			p.i++
			n++
		}
		if n == 0 {
			return nil, fmt.Errorf("bad number fraction at offset %d", s)
		}
	}
	if p.i < len(p.b) && (p.b[p.i] == 'e' || p.b[p.i] == 'E') {
		p.i++
		if p.i < len(p.b) && (p.b[p.i] == '+' || p.b[p.i] == '-') {
			p.i++
		}
		n := 0
		for p.i < len(p.b) && p.b[p.i] >= '0' && p.b[p.i] <= '9' {
			p.i++
			n++
		}
		if n == 0 {
			return nil, fmt.Errorf("bad number exponent at offset %d", s)
		}
	}
	return &Value{Kind: Number, Num: string(p.b[s:p.i])}, nil
}

func (p *parser) str() (string, error) {
	// p.b[p.i] == '"'
	p.i++
	var sb strings.Builder
	for {
		if p.i >= len(p.b) {
			return "", fmt.Errorf("unterminated string")
		}
		c := p.b[p.i]
		switch {
		case c == '"':
			p.i++
			return sb.String(), nil
		case c < 0x20:
			return "", fmt.Errorf("raw control character 0x%02x in string at offset %d", c, p.i)
		case c == '\\':
			p.i++
			if p.i >= len(p.b) {
				return "", fmt.Errorf("unterminated escape")
			}
			e := p.b[p.i]
			p.i++
			switch e {
			case '"', '\\', '/':
				sb.WriteByte(e)
			case 'b':
				sb.WriteByte('\b')
			case 'f':
				sb.WriteByte('\f')
			case 'n':
				sb.WriteByte('\n')
			case 'r':
				sb.WriteByte('\r')
			case 't':
				sb.WriteByte('\t')
			case 'u':
				r, err := p.hex4()
				if err != nil {
					return "", err
				}
				if utf16.IsSurrogate(r) {
					// try to pair
					if p.i+1 < len(p.b) && p.b[p.i] == '\\' && p.b[p.i+1] == 'u' {
						save := p.i
						p.i += 2
						r2, err := p.hex4()
						if err == nil {
							if d := utf16.DecodeRune(r, r2); d != utf8.RuneError {
								sb.WriteRune(d)
								continue
							}
						}
						p.i = save
					}
					r = utf8.RuneError
				}
				sb.WriteRune(r)
			default:
				return "", fmt.Errorf("invalid escape \\%c at offset %d", e, p.i-1)
			}
		default:
			// valid UTF-8 guaranteed by the up-front check
			_, n := utf8.DecodeRune(p.b[p.i:])
			sb.Write(p.b[p.i : p.i+n])
			p.i += n
		}
	}
}

func (p *parser) hex4() (rune, error) {
	if p.i+4 > len(p.b) {
		return 0, fmt.Errorf("short \\u escape")
	}
	n, err := strconv.ParseUint(string(p.b[p.i:p.i+4]), 16, 32)
	if err != nil {
		return 0, fmt.Errorf("bad \\u escape %q", p.b[p.i:p.i+4])
	}
	for _, c := range p.b[p.i : p.i+4] {
		if !(c >= '0' && c <= '9' || c >= 'a' && c <= 'f' || c >= 'A' && c <= 'F') {
			return 0, fmt.Errorf("bad \\u escape %q", p.b[p.i:p.i+4])
		}
	}
	p.i += 4
	return rune(n), nil
}

// ---------------------------------------------------------------------------------------------

// Get returns the member of an object, or nil.
func (v *Value) Get(key string) *Value {
	if v == nil || v.Kind != Object {
		return nil
	}
	for i, k := range v.Keys {
		if k == key {
			return v.Vals[i]
		}
	}
	return nil
}

// Any converts to the encoding/json "any" form with numbers as json.Number-like strings kept in
// NumberT.
type NumberT string

func (v *Value) Any() any {
	switch v.Kind {
	case Null:
		return nil
	case Bool:
		return v.B
	case Number:
		return NumberT(v.Num)
	case String:
		return v.Str
	case Array:
		out := make([]any, len(v.Arr))
		for i, x := range v.Arr {
			out[i] = x.Any()
		}
		return out
	default:
		out := make(map[string]any, len(v.Keys))
		for i, k := range v.Keys {
			out[k] = v.Vals[i].Any()
		}
		return out
	}
}

// Canon renders the value canonically, keeping key order (so two Values are equal including key
// order iff their Canon strings are equal). Numbers are kept verbatim.
func (v *Value) Canon() string {
	var sb strings.Builder
	v.canon(&sb, true)
	return sb.String()
}

// CanonUnordered renders with object keys sorted.
func (v *Value) CanonUnordered() string {
	var sb strings.Builder
	v.canon(&sb, false)
	return sb.String()
}

func (v *Value) canon(sb *strings.Builder, ordered bool) {
	switch v.Kind {
	case Null:
		sb.WriteString("null")
	case Bool:
		if v.B {
			sb.WriteString("true")
		} else {
			sb.WriteString("false")
		}
	case Number:
		sb.WriteString(v.Num)
	case String:
		sb.WriteString(strconv.Quote(v.Str))
	case Array:
		sb.WriteByte('[')
		for i, x := range v.Arr {
			if i > 0 {
				sb.WriteByte(',')
			}
			x.canon(sb, ordered)
		}
		sb.WriteByte(']')
	case Object:
		idx := make([]int, len(v.Keys))
		for i := range idx {
			idx[i] = i
		}
		if !ordered {
			// insertion sort by key
			for i := 1; i < len(idx); i++ {
				for j := i; j > 0 && v.Keys[idx[j]] < v.Keys[idx[j-1]]; j-- {
					idx[j], idx[j-1] = idx[j-1], idx[j]
				}
			}
		}
		sb.WriteByte('{')
		for n, i := range idx {
			if n > 0 {
				sb.WriteByte(',')
			}
			sb.WriteString(strconv.Quote(v.Keys[i]))
			sb.WriteByte(':')
			v.Vals[i].canon(sb, ordered)
		}
		sb.WriteByte('}')
	}
}
