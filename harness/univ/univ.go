// Package univ is the universal resolver: it fills gqlgen's generated Stub / DirectiveRoot /
// ComplexityRoot structs by reflection with functions whose behaviour is dictated by a plan, and it
// logs every invocation.
package univ

import (
	"context"
	"encoding/json"
	"errors"
	"fmt"
	"io"
	"reflect"
	"runtime"
	"sort"
	"strings"
	"sync"
	"sync/atomic"
	"time"

	"github.com/99designs/gqlgen/graphql"
	"github.com/vektah/gqlparser/v2/ast"

	"vh/plan"
	"vh/scalars"
)

// Event is one logged invocation.
type Event struct {
	Seq  int64  `json:"seq"`
	Kind string `json:"kind"` // R resolver, D directive, I interceptor, RE resolver end, …
	Key  string `json:"key"`
	Args any    `json:"args,omitempty"`
}

// Exec is the per-execution state (plan, log, gates). One Exec is current at a time per Universe
// unless the context carries its own (WithExec).
type Exec struct {
	Plan            *plan.Plan
	mu              sync.Mutex
	events          []Event
	seq             int64
	Unrepresentable int64
	gates           sync.Map // name -> chan struct{}
	Cancel          context.CancelFunc
	RecordArgs      bool
	inflight        int64
	MaxInflight     int64
	// cancellation point (C05): the CancelAt-th resolver invocation (1-based) cancels the operation
	// context before it produces its result (or after, if CancelAfter); with HoldEarlier every
	// earlier invocation stays in flight (bounded) until the cancellation happened
	// Echo: String-typed resolver results describe what the resolver saw of the request (arguments,
	// operation name, variables, extensions, X-Echo header): C07 looks for leaks between requests
	Echo        bool
	CancelAt    int64
	CancelAfter bool
	HoldEarlier bool
	calls       int64
	Cancelled   int64
}

// Inflight is the number of universal resolvers currently executing.
func (e *Exec) Inflight() int64 { return atomic.LoadInt64(&e.inflight) }

// Calls is the number of resolver invocations so far.
func (e *Exec) Calls() int64 { return atomic.LoadInt64(&e.calls) }

func NewExec(p *plan.Plan) *Exec { return &Exec{Plan: p} }

func (e *Exec) Log(kind, key string, args any) {
	e.mu.Lock()
	e.seq++
	e.events = append(e.events, Event{Seq: e.seq, Kind: kind, Key: key, Args: args})
	e.mu.Unlock()
}

func (e *Exec) Events() []Event {
	e.mu.Lock()
	defer e.mu.Unlock()
	return append([]Event(nil), e.events...)
}

// Keys returns the sorted multiset of keys of events of a kind.
func (e *Exec) Keys(kind string) []string {
	var out []string
	for _, ev := range e.Events() {
		if ev.Kind == kind {
			out = append(out, ev.Key)
		}
	}
	sort.Strings(out)
	return out
}

func (e *Exec) gate(name string) chan struct{} {
	ch, _ := e.gates.LoadOrStore(name, make(chan struct{}))
	return ch.(chan struct{})
}

func (e *Exec) signal(name string) {
	ch := e.gate(name)
	defer func() { _ = recover() }() // double close
	close(ch)
}

// sched applies the schedule attributes of an outcome (they never change the result).
func (e *Exec) sched(ctx context.Context, o plan.Outcome) {
	for i := 0; i < o.Yield; i++ {
		runtime.Gosched()
	}
	if o.SleepUS < 0 {
		// tick schedule: sleep until the next multiple of the tick on the wall clock
		tick := time.Duration(-o.SleepUS) * time.Microsecond
		d := tick - time.Duration(time.Now().UnixNano())%tick
		select {
		case <-time.After(d):
		case <-ctx.Done():
		}
	}
	if o.SleepUS > 0 {
		select {
		case <-time.After(time.Duration(o.SleepUS) * time.Microsecond):
		case <-ctx.Done():
		}
	}
	if o.Wait != "" {
		select {
		case <-e.gate(o.Wait):
		case <-time.After(30 * time.Millisecond):
		case <-ctx.Done():
		}
	}
	if o.Cancel && e.Cancel != nil {
		e.Cancel()
	}
}

type execKey struct{}

// WithExec attaches an Exec to a context (used when several executions run concurrently).
func WithExec(ctx context.Context, e *Exec) context.Context {
	return context.WithValue(ctx, execKey{}, e)
}

// Universe binds a schema and the Go types of one generated package.
type Universe struct {
	Name      string
	Schema    *ast.Schema
	Types     map[string]reflect.Type // GraphQL type name -> Go type (struct, enum …) of this package
	Resolvers map[string]bool         // "Obj.field" -> has a resolver function in the Stub
	Foreign   map[string]reflect.Value
	cur       atomic.Pointer[Exec]
	cplx      atomic.Pointer[map[string]CSpec]
	// ComplexityFields: "Obj.field" members present in the generated ComplexityRoot
	ComplexityFields map[string]bool
}

// CSpec describes one custom complexity function: a*child + b*max(0, first int argument) + c,
// computed with saturation (a monotone function of the child complexity, as the docs' examples).
type CSpec struct {
	A int64 `json:"a"`
	B int64 `json:"b"`
	C int64 `json:"c"`
}

const MaxInt = int64(^uint(0) >> 1)

func satMul(a, b int64) int64 {
	if a == 0 || b == 0 {
		return 0
	}
	if a > MaxInt/b {
		return MaxInt
	}
	return a * b
}

func satAdd(a, b int64) int64 {
	if b > 0 && a > MaxInt-b {
		return MaxInt
	}
	if b < 0 && a < -MaxInt-b {
		return -MaxInt
	}
	return a + b
}

// Eval is the value the custom function returns.
func (c CSpec) Eval(child int64, x int64) int64 {
	if x < 0 {
		x = 0
	}
	return satAdd(satAdd(satMul(c.A, child), satMul(c.B, x)), c.C)
}

// SetComplexity installs the custom complexity functions ("Obj.field" -> spec); fields not listed
// behave as if no function was assigned? No: a ComplexityRoot member cannot be unassigned per
// request, so an unlisted field's function returns -1, which gqlgen ignores by documentation.
func (u *Universe) SetComplexity(m map[string]CSpec) { u.cplx.Store(&m) }

// FillComplexity sets every member of a generated ComplexityRoot.
func (u *Universe) FillComplexity(root any, toGo func(string) string) {
	u.ComplexityFields = map[string]bool{}
	rv := reflect.ValueOf(root).Elem()
	rt := rv.Type()
	for i := 0; i < rt.NumField(); i++ {
		of := rt.Field(i)
		if of.Type.Kind() != reflect.Struct {
			continue
		}
		var def *ast.Definition
		for _, d := range u.Schema.Types {
			if d.Kind == ast.Object && (toGo(d.Name) == of.Name || ucFirst(d.Name) == of.Name) {
				def = d
			}
		}
		if def == nil {
			continue
		}
		for j := 0; j < of.Type.NumField(); j++ {
			ff := of.Type.Field(j)
			if ff.Type.Kind() != reflect.Func {
				continue
			}
			fd := u.fieldForGoName(def, ff.Name, toGo)
			if fd == nil {
				continue
			}
			name := def.Name + "." + fd.Name
			u.ComplexityFields[name] = true
			ft := ff.Type
			rv.Field(i).Field(j).Set(reflect.MakeFunc(ft, func(in []reflect.Value) []reflect.Value {
				child := in[0].Int()
				var x int64
				for _, a := range in[1:] {
					v := a
					if v.Kind() == reflect.Ptr {
						if v.IsNil() {
							continue
						}
						v = v.Elem()
					}
					if v.Kind() == reflect.Int || v.Kind() == reflect.Int32 || v.Kind() == reflect.Int64 {
						x = v.Int()
						break
					}
				}
				out := int64(-1)
				if m := u.cplx.Load(); m != nil {
					if spec, ok := (*m)[name]; ok {
						out = spec.Eval(child, x)
					}
				}
				return []reflect.Value{reflect.ValueOf(int(out)).Convert(ft.Out(0))}
			}))
		}
	}
}

func ucFirst(s string) string {
	if s == "" {
		return s
	}
	b := []byte(s)
	if b[0] >= 'a' && b[0] <= 'z' {
		b[0] -= 32
	}
	return string(b)
}

func New(name string, schema *ast.Schema, types map[string]reflect.Type) *Universe {
	return &Universe{Name: name, Schema: schema, Types: types, Resolvers: map[string]bool{}}
}

func (u *Universe) SetExec(e *Exec) { u.cur.Store(e) }

func (u *Universe) exec(ctx context.Context) *Exec {
	if e, ok := ctx.Value(execKey{}).(*Exec); ok {
		return e
	}
	if e := u.cur.Load(); e != nil {
		return e
	}
	panic("univ: no current Exec")
}

func (u *Universe) IsResolver(obj, field string) bool { return u.Resolvers[obj+"."+field] }

// goName maps the Go identifier of a Stub member back to the GraphQL field: the member whose
// gqlgen-normalised name equals it.
func (u *Universe) fieldForGoName(def *ast.Definition, goName string, toGo func(string) string) *ast.FieldDefinition {
	for _, f := range def.Fields {
		if toGo(f.Name) == goName {
			return f
		}
	}
	return nil
}

var (
	ctxType = reflect.TypeOf((*context.Context)(nil)).Elem()
	errType = reflect.TypeOf((*error)(nil)).Elem()
)

// FillStub sets every resolver function of a generated *Stub.
func (u *Universe) FillStub(stub any, toGo func(string) string) error {
	sv := reflect.ValueOf(stub).Elem()
	st := sv.Type()
	for i := 0; i < st.NumField(); i++ {
		sf := st.Field(i)
		if sf.Type.Kind() != reflect.Struct || !strings.HasSuffix(sf.Name, "Resolver") {
			continue
		}
		objGo := strings.TrimSuffix(sf.Name, "Resolver")
		var def *ast.Definition
		for _, d := range u.Schema.Types {
			if (d.Kind == ast.Object || d.Kind == ast.InputObject) && toGo(d.Name) == objGo {
				def = d
				break
			}
		}
		if def == nil {
			return fmt.Errorf("univ: no GraphQL type for stub member %s", sf.Name)
		}
		for j := 0; j < sf.Type.NumField(); j++ {
			ff := sf.Type.Field(j)
			if ff.Type.Kind() != reflect.Func {
				continue
			}
			fd := u.fieldForGoName(def, ff.Name, toGo)
			if fd == nil {
				return fmt.Errorf("univ: no GraphQL field for %s.%s", sf.Name, ff.Name)
			}
			u.Resolvers[def.Name+"."+fd.Name] = true
			isRoot := def == u.Schema.Query || def == u.Schema.Mutation || def == u.Schema.Subscription
			fn := u.makeResolver(def, fd, ff.Type, isRoot, def == u.Schema.Subscription)
			sv.Field(i).Field(j).Set(fn)
		}
	}
	return nil
}

func (u *Universe) makeResolver(def *ast.Definition, fd *ast.FieldDefinition, ft reflect.Type, isRoot, stream bool) reflect.Value {
	retT := ft.Out(0)
	return reflect.MakeFunc(ft, func(in []reflect.Value) (out []reflect.Value) {
		ctx := in[0].Interface().(context.Context)
		e := u.exec(ctx)
		path := graphql.GetPath(ctx).String()
		var args any
		if e.RecordArgs {
			first := 1
			if !isRoot {
				first = 2
			}
			m := map[string]any{}
			for i := first; i < len(in); i++ {
				name := fmt.Sprintf("arg%d", i-first)
				if i-first < len(fd.Arguments) {
					name = fd.Arguments[i-first].Name
				}
				m[name] = ToTree(in[i])
			}
			args = m
		}
		e.Log("R", path, args)
		n := atomic.AddInt64(&e.inflight, 1)
		for {
			m := atomic.LoadInt64(&e.MaxInflight)
			if n <= m || atomic.CompareAndSwapInt64(&e.MaxInflight, m, n) {
				break
			}
		}
		defer func() {
			atomic.AddInt64(&e.inflight, -1)
			e.Log("RE", path, nil)
		}()
		if e.CancelAt > 0 {
			n := atomic.AddInt64(&e.calls, 1)
			switch {
			case n == e.CancelAt && !e.CancelAfter:
				atomic.StoreInt64(&e.Cancelled, 1)
				e.Cancel()
				e.signal("cancelled")
			case n == e.CancelAt:
				defer func() {
					atomic.StoreInt64(&e.Cancelled, 1)
					e.Cancel()
					e.signal("cancelled")
				}()
			case n < e.CancelAt && e.HoldEarlier:
				select {
				case <-e.gate("cancelled"):
				case <-time.After(20 * time.Millisecond):
				}
			}
		} else {
			atomic.AddInt64(&e.calls, 1)
		}
		o := e.Plan.Get(path, !fd.Type.NonNull)
		if strings.HasSuffix(fd.Name, "Echo") {
			// echo fields always return their argument: the plan's default nulls do not apply
			o = plan.Outcome{Kind: plan.Value}
		}
		if y, sl, w, sg := e.Plan.Sched(path); y != 0 || sl != 0 || w != "" || sg != "" {
			o.Yield, o.SleepUS, o.Wait, o.Signal = o.Yield+y, o.SleepUS+sl, w, sg
		}
		e.sched(ctx, o)
		if o.Signal != "" {
			defer e.signal(o.Signal)
		}
		zero := reflect.Zero(retT)
		noErr := reflect.Zero(errType)
		switch o.Kind {
		case plan.Error:
			return []reflect.Value{zero, reflect.ValueOf(errors.New(o.Msg)).Convert(errType)}
		case plan.Panic:
			panic(o.Msg)
		case plan.Nil:
			if !nilable(retT) {
				atomic.AddInt64(&e.Unrepresentable, 1)
				return []reflect.Value{u.build(e, retT, nonNull(fd.Type), path, shapeOf(ctx)), noErr}
			}
			return []reflect.Value{zero, noErr}
		case plan.Foreign:
			if fv, ok := u.Foreign[fd.Type.Name()]; ok && fd.Type.Elem == nil && fv.Type().AssignableTo(retT) {
				out := reflect.New(retT).Elem()
				out.Set(fv)
				return []reflect.Value{out, noErr}
			}
			atomic.AddInt64(&e.Unrepresentable, 1)
		}
		if stream {
			return []reflect.Value{u.buildStream(ctx, e, retT, fd.Type, path, shapeOf(ctx)), noErr}
		}
		if strings.HasSuffix(fd.Name, "Echo") {
			// echo fields return their first argument (or, for an input object, its first field)
			first := 1
			if !isRoot {
				first = 2
			}
			if first < len(in) {
				a := in[first]
				for a.Kind() == reflect.Ptr && !a.IsNil() && a.Type() != retT && a.Elem().Kind() == reflect.Struct {
					a = a.Elem().Field(0)
				}
				if a.Kind() == reflect.Struct && a.Type() != retT && a.NumField() > 0 {
					a = a.Field(0)
				}
				if a.Type().AssignableTo(retT) {
					return []reflect.Value{a, noErr}
				}
				if a.Kind() != reflect.Ptr && reflect.PtrTo(a.Type()).AssignableTo(retT) {
					p := reflect.New(a.Type())
					p.Elem().Set(a)
					return []reflect.Value{p, noErr}
				}
				if a.Kind() == reflect.Ptr && !a.IsNil() && a.Elem().Type().AssignableTo(retT) {
					return []reflect.Value{a.Elem(), noErr}
				}
			}
			return []reflect.Value{zero, noErr}
		}
		if e.Echo && fd.Type.Elem == nil && (retT.Kind() == reflect.String || (retT.Kind() == reflect.Ptr && retT.Elem().Kind() == reflect.String)) {
			first := 1
			if !isRoot {
				first = 2
			}
			m := map[string]any{}
			for i := first; i < len(in); i++ {
				if i-first < len(fd.Arguments) {
					m[fd.Arguments[i-first].Name] = ToTree(in[i])
				}
			}
			desc := map[string]any{"path": path, "args": m}
			if oc := graphql.GetOperationContext(ctx); oc != nil {
				desc["operationName"] = oc.OperationName
				desc["variables"] = oc.Variables
				desc["extensions"] = oc.Extensions
				desc["header"] = oc.Headers.Values("X-Echo")
				desc["query_len"] = len(oc.RawQuery)
			}
			b, _ := json.Marshal(desc)
			sv := reflect.New(retT).Elem()
			if retT.Kind() == reflect.Ptr {
				p := reflect.New(retT.Elem())
				p.Elem().SetString(string(b))
				sv.Set(p)
			} else {
				sv.SetString(string(b))
			}
			return []reflect.Value{sv, noErr}
		}
		return []reflect.Value{u.buildValue(e, retT, fd.Type, path, shapeOf(ctx)), noErr}
	})
}

var timeType = reflect.TypeOf(time.Time{})

func nonNull(t *ast.Type) *ast.Type {
	c := *t
	c.NonNull = true
	return &c
}

func nilable(t reflect.Type) bool {
	switch t.Kind() {
	case reflect.Ptr, reflect.Interface, reflect.Slice, reflect.Map, reflect.Chan, reflect.Func:
		return true
	}
	return false
}

// buildStream makes the channel of a subscription resolver: ListLen(path+"@events") events, event
// n being the value at key path@n.
func (u *Universe) buildStream(ctx context.Context, e *Exec, chT reflect.Type, t *ast.Type, path string, sh Shape) reflect.Value {
	elemT := chT.Elem()
	ch := reflect.MakeChan(reflect.ChanOf(reflect.BothDir, elemT), 0)
	n := e.Plan.ListLen(path + "@events")
	go func() {
		defer ch.Close()
		for i := 0; i < n; i++ {
			key := fmt.Sprintf("%s@%d", path, i)
			o := e.Plan.Get(key, !t.NonNull)
			e.sched(ctx, o)
			var v reflect.Value
			if o.Kind == plan.Nil && nilable(elemT) {
				v = reflect.Zero(elemT)
			} else {
				v = u.buildValue(e, elemT, t, key, sh)
			}
			chosen, _, _ := reflect.Select([]reflect.SelectCase{
				{Dir: reflect.SelectSend, Chan: ch, Send: v},
				{Dir: reflect.SelectRecv, Chan: reflect.ValueOf(ctx.Done())},
			})
			if chosen == 1 {
				return
			}
			e.Log("S", key, nil)
		}
		if e.Plan.Overrides[path+"@events"].Wait == "ctx" {
			// an endless source: open until the operation's context is cancelled
			<-ctx.Done()
		}
	}()
	return ch.Convert(chT)
}

// buildValue builds the Go value for position key; the outcome at key itself has already been
// decided to be a value by the caller for top-level resolver results, so Nil is re-checked only for
// nested positions.
func (u *Universe) buildValue(e *Exec, goT reflect.Type, t *ast.Type, key string, sh Shape) reflect.Value {
	return u.buildInner(e, goT, t, key, sh)
}

// Shape is the set of field names an operation selects below a position (merged over aliases,
// fragments and type conditions, ignoring @skip/@include: a superset of what is marshalled), each
// with the shape below it. Model structs are only populated along it, so recursive types end where
// the selection ends. A nil Shape means "populate everything".
type Shape map[string]Shape

func shapeOf(ctx context.Context) Shape {
	fc := graphql.GetFieldContext(ctx)
	oc := graphql.GetOperationContext(ctx)
	if fc == nil || oc == nil || oc.Doc == nil {
		return nil
	}
	sh := Shape{}
	// Selections is the merged selection set of all fields collected under this response key
	addShape(sh, fc.Field.Selections, oc.Doc.Fragments, 0)
	if fc.Field.Field != nil {
		addShape(sh, fc.Field.Field.SelectionSet, oc.Doc.Fragments, 0)
	}
	return sh
}

func addShape(sh Shape, sel ast.SelectionSet, frags ast.FragmentDefinitionList, depth int) {
	if depth > 64 {
		return
	}
	for _, s := range sel {
		switch s := s.(type) {
		case *ast.Field:
			sub := sh[s.Name]
			if sub == nil {
				sub = Shape{}
				sh[s.Name] = sub
			}
			addShape(sub, s.SelectionSet, frags, depth+1)
		case *ast.InlineFragment:
			addShape(sh, s.SelectionSet, frags, depth+1)
		case *ast.FragmentSpread:
			if f := frags.ForName(s.Name); f != nil {
				addShape(sh, f.SelectionSet, frags, depth+1)
			}
		}
	}
}

func (u *Universe) build(e *Exec, goT reflect.Type, t *ast.Type, key string, sh Shape) reflect.Value {
	o := e.Plan.Get(key, !t.NonNull)
	if o.Kind == plan.Nil {
		// gqlgen treats a nil slice in a non-null list position as an empty list; plans never ask for it
		if nilable(goT) && !(goT.Kind() == reflect.Slice && t.NonNull) {
			return reflect.Zero(goT)
		}
		if goT == timeType {
			// the zero time.Time is how a non-pointer Time says "absent": MarshalTime writes null
			return reflect.Zero(goT)
		}
		atomic.AddInt64(&e.Unrepresentable, 1)
	}
	if o.Kind == plan.Foreign {
		if fv, ok := u.Foreign[t.Name()]; ok && t.Elem == nil && fv.Type().AssignableTo(goT) {
			out := reflect.New(goT).Elem()
			out.Set(fv)
			return out
		}
		atomic.AddInt64(&e.Unrepresentable, 1)
	}
	return u.buildInner(e, goT, t, key, sh)
}

func (u *Universe) buildInner(e *Exec, goT reflect.Type, t *ast.Type, key string, sh Shape) reflect.Value {
	if t.Elem != nil {
		st := goT
		ptr := false
		if st.Kind() == reflect.Ptr {
			st, ptr = st.Elem(), true
		}
		if st.Kind() != reflect.Slice {
			atomic.AddInt64(&e.Unrepresentable, 1)
			return reflect.Zero(goT)
		}
		n := e.Plan.ListLen(key)
		s := reflect.MakeSlice(st, n, n)
		for i := 0; i < n; i++ {
			s.Index(i).Set(u.build(e, st.Elem(), t.Elem, fmt.Sprintf("%s[%d]", key, i), sh))
		}
		if ptr {
			p := reflect.New(st)
			p.Elem().Set(s)
			return p
		}
		return s
	}
	def := u.Schema.Types[t.NamedType]
	if def == nil {
		panic("univ: unknown type " + t.NamedType)
	}
	switch def.Kind {
	case ast.Scalar, ast.Enum:
		return u.scalar(e, goT, def, key)
	case ast.Object:
		return u.object(e, goT, def, key, sh)
	case ast.Interface, ast.Union:
		poss := PossibleObjects(u.Schema, def)
		if len(poss) == 0 {
			// an interface nothing implements: nil is the only value (the reference expects null)
			return reflect.Zero(goT)
		}
		c := poss[e.Plan.Pick(key, len(poss))]
		rt, ok := u.Types[c.Name]
		if !ok {
			panic("univ: no Go type for " + c.Name)
		}
		v := u.object(e, reflect.PtrTo(rt), c, key, sh)
		if e.Plan.H(key, "byvalue")%2 == 0 {
			v = v.Elem() // the generated switch has a case for the value and for the pointer
		}
		if !v.Type().AssignableTo(goT) && !v.Type().Implements(goT) {
			v = u.object(e, reflect.PtrTo(rt), c, key, sh)
		}
		out := reflect.New(goT).Elem()
		out.Set(v)
		return out
	}
	panic("univ: cannot build " + string(def.Kind))
}

// object builds a model struct (goT is the struct type or a pointer to it).
func (u *Universe) object(e *Exec, goT reflect.Type, def *ast.Definition, key string, sh Shape) reflect.Value {
	st := goT
	ptr := false
	if st.Kind() == reflect.Ptr {
		st, ptr = st.Elem(), true
	}
	if st.Kind() != reflect.Struct {
		atomic.AddInt64(&e.Unrepresentable, 1)
		return reflect.Zero(goT)
	}
	p := reflect.New(st)
	v := p.Elem()
	for i := 0; i < st.NumField(); i++ {
		sf := st.Field(i)
		if !sf.IsExported() {
			continue
		}
		name := strings.Split(sf.Tag.Get("json"), ",")[0]
		if name == "" || name == "-" {
			continue
		}
		fd := def.Fields.ForName(name)
		if fd == nil || u.IsResolver(def.Name, name) {
			continue
		}
		var sub Shape
		if sh != nil {
			var selected bool
			if sub, selected = sh[name]; !selected {
				// selected under the name of a schema field that shares this Go field?
				for alias := range sh {
					if alias != name && scalars.Canonical(def.Name, alias) == name {
						sub, selected = sh[alias], true
					}
				}
				if !selected {
					continue
				}
			}
		}
		v.Field(i).Set(u.build(e, sf.Type, fd.Type, key+"#"+name, sub))
	}
	if ptr {
		return p
	}
	return v
}

func (u *Universe) scalar(e *Exec, goT reflect.Type, def *ast.Definition, key string) reflect.Value {
	t := goT
	ptr := false
	if t.Kind() == reflect.Ptr {
		t, ptr = t.Elem(), true
	}
	var v reflect.Value
	payload := ScalarPayload(e.Plan, def, key)
	if t == timeType {
		tv, _ := time.Parse(time.RFC3339Nano, fmt.Sprint(payload))
		v = reflect.ValueOf(tv)
		if ptr {
			p := reflect.New(t)
			p.Elem().Set(v)
			return p
		}
		return v
	}
	switch t.Kind() {
	case reflect.String:
		v = reflect.ValueOf(fmt.Sprint(payload)).Convert(t)
	case reflect.Int, reflect.Int8, reflect.Int16, reflect.Int32, reflect.Int64:
		n, _ := payload.(int64)
		v = reflect.ValueOf(n).Convert(t)
	case reflect.Uint, reflect.Uint8, reflect.Uint16, reflect.Uint32, reflect.Uint64:
		n, _ := payload.(int64)
		if n < 0 {
			n = -n
		}
		v = reflect.ValueOf(uint64(n)).Convert(t)
	case reflect.Float64, reflect.Float32:
		switch x := payload.(type) {
		case float64:
			v = reflect.ValueOf(x).Convert(t)
		case int64:
			v = reflect.ValueOf(float64(x)).Convert(t)
		default:
			v = reflect.Zero(t)
		}
	case reflect.Bool:
		b, _ := payload.(bool)
		v = reflect.ValueOf(b).Convert(t)
	default:
		atomic.AddInt64(&e.Unrepresentable, 1)
		return reflect.Zero(goT)
	}
	if ptr {
		p := reflect.New(t)
		p.Elem().Set(v)
		return p
	}
	return v
}

// ScalarPayload is the value both the universal resolver and the reference executor use for a
// scalar / enum position: string, int64, float64 or bool.
func ScalarPayload(p *plan.Plan, def *ast.Definition, key string) any {
	if def.Kind == ast.Enum {
		var vals []string
		for _, ev := range def.EnumValues {
			vals = append(vals, ev.Name)
		}
		return vals[p.Pick(key, len(vals))]
	}
	switch def.Name {
	case "Time":
		// what graphql.MarshalTime writes for it: RFC3339Nano, UTC, never the zero time
		return time.Unix(int64(p.H(key, "time")%2000000000)+1, int64(p.H(key, "nsec")%3)*500000000).UTC().Format(time.RFC3339Nano)
	case "Int":
		return p.Int(key)
	case "Float":
		return p.Float(key)
	case "Boolean":
		return p.Bool(key)
	case "ID":
		return "id" + p.String(key)
	default: // String and string-backed custom scalars
		return p.String(key)
	}
}

// ---------------------------------------------------------------------------------------------
// directives

// FillDirectives sets every member of a generated DirectiveRoot. Every harness directive takes an
// optional `tag: String` argument identifying the application site.
func (u *Universe) FillDirectives(root any) {
	rv := reflect.ValueOf(root).Elem()
	rt := rv.Type()
	for i := 0; i < rt.NumField(); i++ {
		sf := rt.Field(i)
		if sf.Type.Kind() != reflect.Func {
			continue
		}
		name := sf.Name
		ft := sf.Type
		rv.Field(i).Set(reflect.MakeFunc(ft, func(in []reflect.Value) []reflect.Value {
			ctx := in[0].Interface().(context.Context)
			e := u.exec(ctx)
			next := in[2].Interface().(graphql.Resolver)
			tag := ""
			for _, a := range in[3:] {
				if a.Kind() == reflect.Ptr && !a.IsNil() && a.Elem().Kind() == reflect.String {
					tag = a.Elem().String()
				} else if a.Kind() == reflect.String {
					tag = a.String()
				}
			}
			key := graphql.GetPath(ctx).String() + "@" + name + ":" + tag
			e.Log("D", key, nil)
			o := e.Plan.Dir("D:" + key)
			e.sched(ctx, o)
			anyT := ft.Out(0)
			switch o.Kind {
			case plan.Error:
				return []reflect.Value{reflect.Zero(anyT), reflect.ValueOf(errors.New(o.Msg)).Convert(errType)}
			case plan.Panic:
				panic(o.Msg)
			case plan.DirNull:
				return []reflect.Value{reflect.Zero(anyT), reflect.Zero(errType)}
			}
			res, err := next(ctx)
			out0 := reflect.Zero(anyT)
			if res != nil {
				out0 = reflect.New(anyT).Elem()
				out0.Set(reflect.ValueOf(res))
			}
			out1 := reflect.Zero(errType)
			if err != nil {
				out1 = reflect.ValueOf(err).Convert(errType)
			}
			return []reflect.Value{out0, out1}
		}))
	}
}

// ---------------------------------------------------------------------------------------------
// argument trees (C02)

// Omitted marks an input position that gqlgen made observable as "not provided".
type Omitted struct{}

// SetNull marks an Omittable that is set, to a nil value (explicit null).
type SetNull struct{}

// ToTree converts an argument value to a JSON-like tree: nil, bool, int64/uint64/float64, string,
// []any, map[string]any (input objects by GraphQL field name via the json tag), Omitted{}.
func ToTree(v reflect.Value) any {
	if !v.IsValid() {
		return nil
	}
	t := v.Type()
	// graphql.Omittable[T]
	if t.Kind() == reflect.Struct && strings.HasPrefix(t.Name(), "Omittable[") {
		isSet := v.MethodByName("IsSet").Call(nil)[0].Bool()
		if !isSet {
			return Omitted{}
		}
		inner := ToTree(v.MethodByName("Value").Call(nil)[0])
		if inner == nil {
			return SetNull{}
		}
		return inner
	}
	switch t.Kind() {
	case reflect.Ptr, reflect.Interface:
		if v.IsNil() {
			return nil
		}
		return ToTree(v.Elem())
	case reflect.Slice, reflect.Array:
		if t.Kind() == reflect.Slice && v.IsNil() {
			return nil
		}
		out := make([]any, v.Len())
		for i := range out {
			out[i] = ToTree(v.Index(i))
		}
		return out
	case reflect.Map:
		if v.IsNil() {
			return nil
		}
		out := map[string]any{}
		it := v.MapRange()
		for it.Next() {
			out[fmt.Sprint(it.Key().Interface())] = ToTree(it.Value())
		}
		return out
	case reflect.Struct:
		if tm, ok := v.Interface().(time.Time); ok {
			return tm.Format(time.RFC3339Nano)
		}
		if up, ok := v.Interface().(graphql.Upload); ok {
			// read the file to its end through this Upload's own reader
			out := map[string]any{"filename": up.Filename, "size": up.Size, "contentType": up.ContentType}
			if up.File == nil {
				out["content"] = nil
			} else {
				b, err := io.ReadAll(up.File)
				out["content"] = string(b)
				if err != nil {
					out["readError"] = err.Error()
				}
			}
			return out
		}
		out := map[string]any{}
		for i := 0; i < t.NumField(); i++ {
			sf := t.Field(i)
			if !sf.IsExported() {
				continue
			}
			name := strings.Split(sf.Tag.Get("json"), ",")[0]
			if name == "" || name == "-" {
				name = sf.Name
			}
			out[name] = ToTree(v.Field(i))
		}
		return out
	case reflect.String:
		return v.String()
	case reflect.Bool:
		return v.Bool()
	case reflect.Int, reflect.Int8, reflect.Int16, reflect.Int32, reflect.Int64:
		return v.Int()
	case reflect.Uint, reflect.Uint8, reflect.Uint16, reflect.Uint32, reflect.Uint64:
		return v.Uint()
	case reflect.Float32, reflect.Float64:
		return v.Float()
	}
	return fmt.Sprintf("<%s>", t)
}

// PossibleObjects returns the object types of an abstract type in schema order (gqlparser's
// GetPossibleTypes also lists interfaces that implement an interface).
func PossibleObjects(s *ast.Schema, def *ast.Definition) []*ast.Definition {
	var out []*ast.Definition
	for _, d := range s.GetPossibleTypes(def) {
		if d.Kind == ast.Object {
			out = append(out, d)
		}
	}
	return out
}
