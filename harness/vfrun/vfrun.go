// Package vfrun is the glue between property bodies, rapid and the vf driver:
// seeding, case counts, statistics (evidence), known findings and replay files.
package vfrun

import (
	"bytes"
	"encoding/json"
	"flag"
	"fmt"
	"hash/fnv"
	"os"
	"path/filepath"
	"sort"
	"strconv"
	"strings"
	"sync"
	"testing"
	"time"

	"pgregory.net/rapid"
)

// ---------------------------------------------------------------------------------------------
// environment

func envInt(name string, def int) int {
	if v := os.Getenv(name); v != "" {
		if n, err := strconv.Atoi(v); err == nil {
			return n
		}
	}
	return def
}

// Tier is "quick" or "thorough".
func Tier() string {
	if os.Getenv("VF_TIER") == "thorough" {
		return "thorough"
	}
	return "quick"
}

func Thorough() bool { return Tier() == "thorough" }

// Seed returns the rapid seed for this shard (never 0).
func Seed() uint64 {
	s := uint64(envInt("VF_SEED", 1))
	if s == 0 {
		s = 0x5eed
	}
	sh := uint64(envInt("VF_SHARD", 0))
	v := s*1000003 + sh*7919 + 1
	if v == 0 {
		v = 1
	}
	return v
}

func Shard() int  { return envInt("VF_SHARD", 0) }
func Shards() int { return envInt("VF_SHARDS", 1) }

// N picks the case count for the current tier, divided among shards.
func N(quick, thorough int) int {
	n := quick
	if Thorough() {
		n = thorough
	}
	if f := os.Getenv("VF_SCALE"); f != "" {
		if x, err := strconv.ParseFloat(f, 64); err == nil {
			n = int(float64(n) * x)
		}
	}
	n = (n + Shards() - 1) / Shards()
	if n < 1 {
		n = 1
	}
	return n
}

// ---------------------------------------------------------------------------------------------
// statistics

type statsT struct {
	mu         sync.Mutex
	Evals      int64             `json:"evaluations"`
	Labels     map[string]int64  `json:"labels"`
	Nontrivial map[uint64]bool   `json:"-"`
	NTHashes   []uint64          `json:"nontrivial_hashes"`
	Samples    []json.RawMessage `json:"samples"`
	Known      map[string]int64  `json:"known"`
	KnownText  map[string]string `json:"known_text"`
	Requested  map[string]int    `json:"requested"`
	Passed     map[string]int    `json:"passed"`
}

var st = &statsT{Labels: map[string]int64{}, Nontrivial: map[uint64]bool{}, Known: map[string]int64{},
	KnownText: map[string]string{}, Requested: map[string]int{}, Passed: map[string]int{}}

func evals() int64 { st.mu.Lock(); defer st.mu.Unlock(); return st.Evals }

// Eval counts one executed case.
func Eval() { st.mu.Lock(); st.Evals++; st.mu.Unlock() }

// EvalN counts n executed cases.
func EvalN(n int) { st.mu.Lock(); st.Evals += int64(n); st.mu.Unlock() }

// Label counts an occurrence of a class of case.
func Label(name string) { st.mu.Lock(); st.Labels[name]++; st.mu.Unlock() }

func LabelN(name string, n int) { st.mu.Lock(); st.Labels[name] += int64(n); st.mu.Unlock() }

// NonTrivial records a case that is non-trivial by the property's rule; key identifies it for
// distinctness (hashed).
func NonTrivial(key string) {
	h := fnv.New64a()
	h.Write([]byte(key))
	v := h.Sum64()
	st.mu.Lock()
	st.Nontrivial[v] = true
	st.mu.Unlock()
}

const maxSamples = 12

var sampleCats = map[string]int{}

// Sample offers a case as an evidence sample (the first few per category are kept).
func Sample(v any) { SampleCat("", v) }

// SampleCat keeps up to 3 samples per category (12 for the empty category).
func SampleCat(cat string, v any) {
	st.mu.Lock()
	defer st.mu.Unlock()
	lim := 3
	if cat == "" {
		lim = maxSamples
	}
	if sampleCats[cat] >= lim || len(st.Samples) >= 40 {
		return
	}
	sampleCats[cat]++
	b, err := json.Marshal(v)
	if err != nil {
		return
	}
	if len(b) > 6000 {
		b, _ = json.Marshal(string(b[:6000]) + "…(truncated)")
	}
	st.Samples = append(st.Samples, b)
}

// ---------------------------------------------------------------------------------------------
// known findings

var (
	knownOnce sync.Once
	knownKeys map[string]string
)

func loadKnown() {
	knownKeys = map[string]string{}
	p := os.Getenv("VF_KNOWN")
	if p == "" {
		return
	}
	b, err := os.ReadFile(p)
	if err != nil {
		return
	}
	for _, ln := range strings.Split(string(b), "\n") {
		ln = strings.TrimSpace(ln)
		if !strings.HasPrefix(ln, "known:") {
			continue
		}
		// known: property=C05 key=<key> <text>
		fs := strings.Fields(ln)
		key := ""
		rest := []string{}
		for _, f := range fs[1:] {
			if strings.HasPrefix(f, "key=") && key == "" {
				key = strings.TrimPrefix(f, "key=")
			} else if !strings.HasPrefix(f, "property=") {
				rest = append(rest, f)
			}
		}
		if key != "" {
			knownKeys[key] = strings.Join(rest, " ")
		}
	}
}

// IsKnown reports whether a finding key is listed in known_findings.txt, and counts the hit.
func IsKnown(key string) bool {
	knownOnce.Do(loadKnown)
	txt, ok := knownKeys[key]
	if ok {
		st.mu.Lock()
		st.Known[key]++
		st.KnownText[key] = txt
		st.mu.Unlock()
	}
	return ok
}

// KnownListed reports whether key is listed, without counting a hit.
func KnownListed(key string) bool {
	knownOnce.Do(loadKnown)
	_, ok := knownKeys[key]
	return ok
}

// ---------------------------------------------------------------------------------------------
// failures and replay files

// Failure is what a property body reports: a finding key (root-cause class) and a message.
type Failure struct {
	Key string
	Msg string
}

func (f *Failure) Error() string { return f.Key + ": " + f.Msg }

func Failf(key, format string, a ...any) *Failure {
	return &Failure{Key: key, Msg: fmt.Sprintf(format, a...)}
}

// Replay is the on-disk format of a failing (or corpus) case.
type Replay struct {
	Property string          `json:"property"`
	Test     string          `json:"test"`
	Case     json.RawMessage `json:"case"`
	Key      string          `json:"finding_key,omitempty"`
	Message  string          `json:"message,omitempty"`
	Seed     uint64          `json:"rapid_seed,omitempty"`
	Project  json.RawMessage `json:"project,omitempty"`
}

var replaySeq int

// WriteReplay stores the failing case for test `test`; the last one written per test wins (rapid
// re-runs the minimal case last).
func WriteReplay(prop, test string, c any, f *Failure) string {
	dir := os.Getenv("VF_OUT")
	if dir == "" {
		dir = os.TempDir()
	}
	b, _ := json.Marshal(c)
	r := Replay{Property: prop, Test: test, Case: b, Seed: Seed()}
	if f != nil {
		r.Key, r.Message = f.Key, f.Msg
	}
	if pj := os.Getenv("VF_PROJECT_JSON"); pj != "" {
		if pb, err := os.ReadFile(pj); err == nil {
			r.Project = pb
		}
	}
	out, _ := json.MarshalIndent(r, "", " ")
	p := filepath.Join(dir, fmt.Sprintf("fail-%s-%s-s%d.json", prop, sanitize(test), Shard()))
	_ = os.WriteFile(p, out, 0o644)
	return p
}

func sanitize(s string) string {
	return strings.Map(func(r rune) rune {
		if r == '/' || r == ' ' {
			return '_'
		}
		return r
	}, s)
}

// ---------------------------------------------------------------------------------------------
// running properties

// Prop describes one generated-input property: Gen draws a case (all randomness from rapid), Check
// decides it without any randomness. C must be JSON round-trippable so the case can be replayed
// without rapid.
type Prop[C any] struct {
	Property string // "C08"
	Name     string // test name, unique within the property
	Gen      func(t *rapid.T) C
	Check    func(c C) *Failure
}

var registry = map[string]func(raw json.RawMessage) *Failure{}

// Run executes the property n times under rapid, after replaying the corpus cases and any replay
// file named by VF_REPLAY that belongs to this test.
func Run[C any](t *testing.T, p Prop[C], n int) {
	t.Helper()
	replayFn := func(raw json.RawMessage) *Failure {
		var c C
		// numbers in untyped positions (operation variables) stay json.Number, as every transport
		// of gqlgen decodes them: a float64 is something no request ever delivers
		dec := json.NewDecoder(bytes.NewReader(raw))
		dec.UseNumber()
		if err := dec.Decode(&c); err != nil {
			return Failf("harness.bad-replay", "cannot decode case: %v", err)
		}
		return p.Check(c)
	}
	registry[p.Name] = replayFn

	// 1. replay mode: only run the given file
	if rp := os.Getenv("VF_REPLAY"); rp != "" {
		b, err := os.ReadFile(rp)
		if err != nil {
			t.Fatalf("replay: %v", err)
		}
		var r Replay
		if err := json.Unmarshal(b, &r); err != nil {
			t.Fatalf("replay: %v", err)
		}
		if r.Test != p.Name {
			t.Skip("replay is for another test")
		}
		if f := replayFn(r.Case); f != nil {
			WriteReplay(p.Property, p.Name, json.RawMessage(r.Case), f)
			t.Fatalf("REPLAY-FAIL key=%s %s", f.Key, f.Msg)
		}
		fmt.Printf("REPLAY-PASS %s\n", p.Name)
		return
	}

	// 2. corpus
	if dir := os.Getenv("VF_CORPUS"); dir != "" && Shard() == 0 {
		files, _ := filepath.Glob(filepath.Join(dir, "*.json"))
		sort.Strings(files)
		for _, fn := range files {
			b, err := os.ReadFile(fn)
			if err != nil {
				continue
			}
			var r Replay
			if json.Unmarshal(b, &r) != nil || r.Test != p.Name {
				continue
			}
			Label("corpus")
			before := evals()
			f := replayFn(r.Case)
			if evals() == before {
				Eval()
			}
			if f != nil {
				if IsKnown(f.Key) {
					continue
				}
				WriteReplay(p.Property, p.Name, json.RawMessage(r.Case), f)
				t.Fatalf("corpus case %s fails: key=%s %s", filepath.Base(fn), f.Key, f.Msg)
			}
		}
	}

	// 3. generated cases
	if n <= 0 {
		return
	}
	_ = flag.Set("rapid.checks", strconv.Itoa(n))
	_ = flag.Set("rapid.seed", strconv.FormatUint(Seed(), 10))
	_ = flag.Set("rapid.nofailfile", "true")
	if flag.Lookup("rapid.shrinktime") != nil && os.Getenv("VF_SHRINKTIME") != "" {
		_ = flag.Set("rapid.shrinktime", os.Getenv("VF_SHRINKTIME"))
	}
	st.mu.Lock()
	st.Requested[p.Name] = n
	st.mu.Unlock()
	passed := 0
	firstKey := ""
	rapid.Check(t, func(rt *rapid.T) {
		c := p.Gen(rt)
		before := evals()
		f := p.Check(c)
		for retry := 0; f != nil && f.Key == "harness.inconclusive" && retry < 2; retry++ {
			// no verdict for a reason outside the code under test (typically an overloaded machine:
			// goroutines runnable but not yet run, a wait that ran out): the same case again, later
			Label("inconclusive-case-retried")
			time.Sleep(time.Duration(retry+1) * time.Second)
			f = p.Check(c)
		}
		if evals() == before {
			Eval() // a check that does not count its own executions counts as one evaluation
		}
		if f != nil {
			if IsKnown(f.Key) {
				passed++
				return
			}
			if firstKey == "" {
				firstKey = f.Key
			}
			if f.Key != firstKey {
				// while minimising, stay with the root cause found first
				return
			}
			WriteReplay(p.Property, p.Name, c, f)
			rt.Logf("FAIL key=%s %s", f.Key, f.Msg)
			// the fatal message is kept free of case data so that rapid's "same error" test
			// holds across runs whose message differs only in schedule-dependent detail
			rt.Fatalf("key=%s", f.Key)
		}
		passed++
	})
	st.mu.Lock()
	st.Passed[p.Name] = passed
	st.mu.Unlock()
}

// Main is called from TestMain: runs the tests and flushes statistics.
func Main(m *testing.M) {
	code := m.Run()
	Flush()
	os.Exit(code)
}

// Flush writes the statistics file named by VF_STATS.
func Flush() {
	p := os.Getenv("VF_STATS")
	if p == "" {
		return
	}
	st.mu.Lock()
	defer st.mu.Unlock()
	st.NTHashes = st.NTHashes[:0]
	for h := range st.Nontrivial {
		st.NTHashes = append(st.NTHashes, h)
	}
	sort.Slice(st.NTHashes, func(i, j int) bool { return st.NTHashes[i] < st.NTHashes[j] })
	b, _ := json.Marshal(st)
	_ = os.WriteFile(p, b, 0o644)
}
