#!/usr/bin/env python3
"""Keeps the 'As built' paragraph of every per-property section of DESIGN.md in step with driver/props.py."""
import re, sys
sys.path.insert(0, '/verif/driver')
from props import PROPS
p = '/verif/DESIGN.md'
s = open(p).read()
for pid, cfg in sorted(PROPS.items()):
    m = re.search(r'^### %s — .*$' % pid, s, re.M)
    if not m:
        print('no section for', pid); continue
    block = ('\n\n<!-- as-built:%s -->\n**As built** (from `driver/props.py`, which also feeds MANIFEST.json). *What the check does:* %s. '
             '*What it trusts / does not cover:* %s. *Non-trivial case rule:* %s.\n<!-- /as-built -->' % (pid, cfg['claim'], cfg['note'], cfg['rule']))
    old = re.search(r'\n\n<!-- as-built:%s -->.*?<!-- /as-built -->' % pid, s, re.S)
    if old:
        s = s[:old.start()] + block + s[old.end():]
    else:
        s = s[:m.end()] + block + s[m.end():]
open(p, 'w').write(s)
print('ok')
