#!/usr/bin/env python3
"""Regenerates /verif/MANIFEST.json from driver/props.py (so that claims and driver never diverge)."""
import json, os, sys
V = os.path.dirname(os.path.dirname(os.path.abspath(__file__)))
sys.path.insert(0, os.path.join(V, "driver"))
from props import PROPS, NOT_CLAIMED
ids = [json.loads(l)["id"] for l in open(os.path.join(V, "properties.jsonl"))]
checks = []
for pid in ids:
    if pid not in PROPS:
        continue
    c = PROPS[pid]
    checks.append({
        "property_id": pid,
        "quick_cmd": "./vf check %s --tier quick" % pid,
        "thorough_cmd": "./vf check %s --tier thorough" % pid,
        "evidence_file": "evidence/%s.json" % pid,
        "replay_cmd_template": "./vf replay {path}",
        "engine": "vf",
        "level_claimed": {"category": c.get("level", "exploration"), "text": c["claim"], "design_ref": "DESIGN.md §4 " + pid},
        "level_note": c["note"],
        "technique": c["technique"],
    })
na = [{"property_id": pid, "reason": NOT_CLAIMED.get(pid, "check not built yet in this session (see DESIGN.md build order); nothing is claimed")} for pid in ids if pid not in PROPS]
m = {
    "version": 1,
    "setup_cmd": "./vf setup",
    "hooks": {
        "guard": "verif",
        "enable": "none needed: every observation point is public API, the bytes on the wire, or runtime.Stack; no hook commits exist in /repo",
        "baseline_off_cmd": json.load(open("/root/.vp/BASELINE.json"))["cmd"] if os.path.exists("/root/.vp/BASELINE.json") else "see BASELINE.json",
        "source_commits": [],
        "add_only": True,
    },
    "engines": [{"name": "vf", "path": "vf", "serves_properties": [c["property_id"] for c in checks],
                 "kind_free_text": "Python driver: builds a scratch Go module against /repo's working tree (generating gqlgen servers from /repo's templates where needed), runs pgregory.net/rapid v1.3.0 property tests in parallel shards (with -race where the property has a race clause), aggregates evidence, replays saved cases without rapid"}],
    "checks": checks,
    "not_applicable": na,
    "notes": "All checks are generated-input search against an explicit oracle (rapid properties, state machines, fault enumeration). Known genuine defects are listed in known_findings.txt.",
}
json.dump(m, open(os.path.join(V, "MANIFEST.json"), "w"), indent=1)
print("checks:", [c["property_id"] for c in checks], "not claimed:", [n["property_id"] for n in na])
