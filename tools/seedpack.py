#!/usr/bin/env python3
"""Package a verified seeded change into /verif/seeded/<name>/.
usage: seedpack.py <src dir> <name> <verify.log line prefix id> <verify.log>
Copies patch.diff and the demonstration (everything except logs/baselines), rewrites meta.json with
what was confirmed independently (verify log) — detection results are added by tools/seedsweep.py."""
import json, os, shutil, sys, re
src, name, vid, vlog = sys.argv[1:5]
dst = os.path.join('/verif/seeded', name)
os.makedirs(dst, exist_ok=True)
skip = re.compile(r'^(verify_.*|baseline.*|withchange.*|.*\.log|without.*|with_.*)$')
for f in sorted(os.listdir(src)):
    if skip.match(f) or f == 'meta.json':
        continue
    s, d = os.path.join(src, f), os.path.join(dst, f)
    if os.path.isdir(s):
        shutil.rmtree(d, ignore_errors=True); shutil.copytree(s, d)
    else:
        shutil.copy2(s, d)
m = json.load(open(os.path.join(src, 'meta.json')))
def block(vlog, vid):
    """the (multi-line) record of <vid> in the verify log, with test durations removed"""
    txt = open(vlog).read()
    m = re.search(r'^%s: (.*?)(?=^C\d\d: |\Z)' % re.escape(vid), txt, re.S | re.M)
    if not m:
        return None
    b = m.group(1)
    build = re.search(r'build=\[(.*?)\]', b, re.S).group(1)
    diff = re.search(r'tests_diff=\[(.*?)\] demo_with', b, re.S).group(1)
    lines = [re.sub(r' \([0-9.]+s\)', '', l) for l in diff.splitlines() if l[:1] in '<>']
    left = sorted(l[2:] for l in lines if l[0] == '<'); right = sorted(l[2:] for l in lines if l[0] == '>')
    # head -5 of the diff may cut a pair; only names that appear on one side and are not the
    # network-dependent playground tests count as a difference
    net = re.compile(r'(Altair|ApolloSandbox|)Handler_Integrity')
    real = [l for l in set(left) ^ set(right) if not net.search(l)]
    return {
        'go_build': 'ok' if build.strip() == '' else build,
        'existing_tests_vs_unchanged_tree': 'identical (ignoring durations; graphql/playground *_Integrity tests need the network and fail on both trees)' if not real else real,
        'demo_exit_code_with_change': int(re.search(r'demo_with_rc=(\d+)', b).group(1)),
        'demo_exit_code_without_change': int(re.search(r'demo_without_rc=(\d+)', b).group(1)),
    }
line = block(vlog, vid)
out = {
    'property': m['property'],
    'breaks': m['summary'],
    'files_changed': m.get('files_changed'),
    'needs_to_manifest': m['needs_to_manifest'],
    'author_ran': {'existing_tests': m.get('existing_tests'), 'demo': m.get('demo')},
    'confirmed_independently': {
        'how': 'tools/../seeded verify script: patch applied to a clean scratch worktree of /repo; go build ./...; go test -vet=off -count=1 ./... compared package by package and test by test with the unchanged tree; demo.sh run with the patch and again without it',
        'result': line,
    },
}
old = os.path.join(dst, 'meta.json')
if os.path.exists(old):
    o = json.load(open(old))
    for k in ('detected_by', 'first_run'):
        if k in o:
            out[k] = o[k]
json.dump(out, open(old, 'w'), indent=1)
print(name, 'packed', json.dumps(line))
