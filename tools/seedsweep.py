#!/usr/bin/env python3
"""Run the checks against every seeded change under /verif/seeded and record what detects it.
usage: seedsweep.py [-j N] [--tier quick] [--also C04,C06] [--harvest] [names...]
--harvest: copy the replay file of the first violation into /verif/corpus/<property>/seeded-<name>.json
For each /verif/seeded/<name>/patch.diff: copy /repo (without .git) to a scratch directory under /tmp,
apply the patch there (never in /repo), run `vf check <property>` with VERIF_REPO pointing at the copy,
remove the copy, and store exit code + violation keys in seeded/<name>/meta.json ("detected_by").
Exit 0 iff every swept change was detected by the check of its own property."""
import json, os, re, subprocess, sys, tempfile, shutil, concurrent.futures as cf
V = '/verif'
def sweep(name, tier, also, harvest=False):
    d = os.path.join(V, 'seeded', name)
    meta = json.load(open(os.path.join(d, 'meta.json')))
    tmp = tempfile.mkdtemp(prefix='mut-', dir='/tmp')
    try:
        subprocess.run(['rsync', '-a', '--exclude', '.git', '/repo/', tmp + '/'], check=True)
        r = subprocess.run(['patch', '-p1', '-s', '-i', os.path.join(d, 'patch.diff')], cwd=tmp, capture_output=True, text=True)
        if r.returncode != 0:
            return name, {'error': 'patch does not apply: ' + r.stdout[-300:]}
        res = {}
        for chk in [meta['property']] + [a for a in also if a != meta['property']]:
            env = dict(os.environ, VERIF_REPO=tmp, VERIF_TIER=tier, VERIF_SEED=os.environ.get('VERIF_SEED', '1'))
            p = subprocess.run(['./vf', 'check', chk, '--tier', tier], cwd=V, env=env, capture_output=True, text=True, timeout=3000)
            keys = {}
            replay = None
            for l in p.stdout.splitlines() + p.stderr.splitlines():
                m = re.match(r'\[vf\]\s+key=(\S+)', l)
                if m:
                    keys[m.group(1)] = keys.get(m.group(1), 0) + 1
                m = re.match(r'VIOLATION property=(\S+) replay=(\S+)', l)
                if m and replay is None and not (keys and False):
                    replay = m.group(2)
            res[chk] = {'tier': tier, 'seed': int(env['VERIF_SEED']), 'exit_code': p.returncode, 'violation_keys': sorted(keys)}
            if harvest and chk == meta['property'] and p.returncode == 1 and replay and os.path.exists(replay):
                # the (shrunk) case that exposed this change becomes a regression case of the corpus:
                # it is replayed first on every run, whatever the seed draws
                try:
                    d = json.load(open(replay))
                    if isinstance(d.get('case'), (dict, list)) and not str(d.get('finding_key', '')).startswith(('race.', 'harness.')):
                        dst = os.path.join(V, 'corpus', chk, 'seeded-%s.json' % name)
                        if not os.path.exists(dst):
                            os.makedirs(os.path.dirname(dst), exist_ok=True)
                            keep = {k: d[k] for k in ('property', 'test', 'case') if k in d}
                            keep['note'] = 'the case with which the check first exposed seeded change %s (key %s)' % (name, d.get('finding_key'))
                            json.dump(keep, open(dst, 'w'), indent=1)
                            res[chk]['corpus_case'] = os.path.relpath(dst, V)
                except Exception as e:
                    res[chk]['harvest_error'] = str(e)
        return name, res
    finally:
        shutil.rmtree(tmp, ignore_errors=True)
def main():
    a = sys.argv[1:]; j = 3; tier = 'quick'; also = []; names = []; harvest = False
    while a:
        x = a.pop(0)
        if x == '-j': j = int(a.pop(0))
        elif x == '--tier': tier = a.pop(0)
        elif x == '--also': also = a.pop(0).split(',')
        elif x == '--harvest': harvest = True
        else: names.append(x)
    if not names:
        names = sorted(n for n in os.listdir(os.path.join(V, 'seeded')) if os.path.exists(os.path.join(V, 'seeded', n, 'patch.diff')))
    bad = 0
    with cf.ThreadPoolExecutor(j) as ex:
        for name, res in ex.map(lambda n: sweep(n, tier, also, harvest), names):
            mp = os.path.join(V, 'seeded', name, 'meta.json')
            meta = json.load(open(mp))
            db = meta.get('detected_by', {})
            if 'error' in res:
                print(name, res['error']); bad += 1; continue
            db.update(res); meta['detected_by'] = db
            json.dump(meta, open(mp, 'w'), indent=1)
            own = res[meta['property']]
            ok = own['exit_code'] == 1
            bad += 0 if ok else 1
            print('%-6s %s %s' % (name, 'DETECTED' if ok else 'MISSED rc=%d' % own['exit_code'], ' '.join('%s:%s' % (c, ','.join(r['violation_keys'])[:150] or 'rc=%d' % r['exit_code']) for c, r in res.items())), flush=True)
    sys.exit(1 if bad else 0)
main()
