#!/bin/bash
# usage: tools/seedtest.sh <patch.diff> <check id> [more check ids]
# applies the patch to a scratch copy of /repo and runs the quick checks against it
set -u
patch=$1; shift
d=$(mktemp -d /tmp/mut-XXXXXX)
rsync -a --exclude .git /repo/ $d/
if ! (cd $d && patch -p1 -s < $patch); then echo "PATCH DOES NOT APPLY"; rm -rf $d; exit 3; fi
for c in "$@"; do
  out=$(cd /verif && VERIF_REPO=$d VERIF_TIER=${TIER:-quick} timeout 1500 ./vf check $c --tier ${TIER:-quick} 2>&1)
  rc=$?
  echo "== $c rc=$rc"
  echo "$out" | grep -E "^\[vf\]   key=|^OK|inconclusive|build failed|not all" | cut -c1-260 | sort | uniq -c | sort -rn | head -4
done
rm -rf $d
